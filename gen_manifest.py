#!/usr/bin/env python3
"""Regenerates MANIFEST.json from the table below (single source of truth for claimed checks)."""
import json

BASE = "cd /repo && /venv/bin/python -m pytest -ra -q -p no:cacheprovider --timeout=900 --continue-on-collection-errors"
CHECKS = {
    "C01": dict(design="4/C01", technique="TLA+ lexer automaton + grammar stack machine; TLC-generated behaviours replayed into Lexer/parse, TLC-judged negatives (GqlGrammarTrace)",
                text="TLC enumerates every character-class string up to a bound and every grammar skeleton up to N tokens (all dialects / entry points) from explicit TLA+ specifications of the June-2018 lexical and syntactic grammar; each behaviour is concretised several times (str and UTF-8 bytes) and replayed into the real lexer and parser; mutated and cross-dialect token sequences are judged by the grammar machine in trace mode and compared with the parser's verdict; rejections must be GraphQLSyntaxError with an in-range position that renders.",
                note="Trusted: TLC, the transcription of the June-2018 grammar into spec/GqlGrammar.tla and spec/GqlLexer.tla, the code-point representatives in harness/lexgamma.py. Bounded (L, N); RFC-601 contested texts are not judged."),
    "C02": dict(design="4/C02", technique="derivation events of the TLA+ grammar machine vs. harness-owned AST projection; BlockStringValue in TLA+; trace-judged fixtures",
                text="For every TLC-generated derivation the real parser's tree (projected by a harness-owned walker) must equal the derivation event sequence, every node span must run from its first to its last token, decoded values must equal the specification's (escape decoding and BlockStringValue are TLA+ operators), and the spanned text must re-parse to an equal node; repository fixtures' trees are judged by GqlGrammarTrace with events.",
                note="Same trusted base as C01; Document spans (0, len) are accepted as SOF..EOF."),
}
CHECKS["C03"] = dict(design="4/C03", technique="TLC-generated derivation corpus replayed through parse -> print -> re-lex; printed token sequence + original derivation kinds judged by the TLA+ grammar machine (GqlGrammarTrace); re-parse equality, idempotence",
    text="Every TLC-generated grammar skeleton (both dialects, focused interiors) is concretised with string contents that stress the printer, parsed, printed under several indent settings, and the printed text must (i) be a sentence of the TLA+ grammar whose derivation has exactly the original node kinds (judged by TLC on real-lexer tokens), (ii) re-parse to an equal tree up to positions, (iii) print again to the same text, never raising.",
    note="Same trusted base as C01/C02 (the lexer used to tokenise printed text is verified by them). String contents are a fixed pool (harness/corpus.py, harness/printreplay.py).")
CHECKS["C18"] = dict(design="4/C18", technique="TLA+ event semantics of tree visiting (GqlVisitor.Visit) with TLC-enumerated edit plans and named deviations; replay into ASTVisitor / DispatchingVisitor / ChainedVisitor",
    text="spec/GqlVisitor.tla defines the expected enter/leave event sequence and resulting tree for a role-labelled syntax tree under an edit plan (skip / delete list member / replace, per visitor of a chain); TLC enumerates the empty plan, every single edit and every pair on small trees for distinct tree shapes of the grammar corpus and checks Balanced / NoopComplete / EditLocal on the semantics; every (tree, plan) is executed on real visitor objects and the recorded log and tree must equal the specification. Implementation behaviours that differ are accepted only if one of nine named deviations (each a recorded known finding) explains them exactly.",
    note="Tree shape = derivation is established by C02. Replacement nodes are leaves of the same category. Chains: no-op and skip only.")
CHECKS["C19"] = dict(design="4/C19", technique="TLA+ document builder + depth reference (GqlDepth); TLC enumerates all build sequences, variable values and name filters; replay into MaxDepthValidationRule",
    text="spec/GqlDepth.tla builds operations by actions (fields, inline fragments, named fragment spreads, @skip/@include steered by a variable) so that only valid documents arise, defines the nesting depth and the set of operations to flag for each limit and operation-name filter, and checks on the model that wrapping in fragments never changes the depth; every generated document is replayed (limits 0..5, direct call and validate_ast, long-lived rule instances and parsed documents) and the flagged set must match with no exception.",
    note="Depth = number of nested field selection sets below the operation's own (library's documented example = 4). Fixed two-type schema and three-fragment library.")
CHECKS["C08"] = dict(design="4/C08", technique="TLA+ operational executor model (GqlSched) model-checked over all plans x completion orders (safety + liveness), PlusCal model of gather_futures; behaviours replayed step by step on deterministic thread-pool / asyncio / blocking configurations",
    text="spec/GqlSched.tla models plan construction, Start/Complete/Advance of the executor over a deferring runtime; TLC checks NoLostWakeup, CrashSurfaces, OnlyReachable on every plan (bounded) and completion order, Terminates under fairness, and the line-granular PlusCal model of gather_futures (outer resolved exactly once, result iff all ok). Every behaviour is replayed on the real Executor with a fake-pool ThreadPoolRuntime and a private-loop AsyncIORuntime, comparing the pending set after every completion, and on both blocking executors; final ordered data, error paths and crash surfacing must equal the schedule-independent reference. A sample also runs on real worker threads / loop executor (final result only).",
    note="Deterministic runtimes: callbacks run synchronously inside complete(); leaf/list/custom-scalar outcomes are a fixed family; documents are rendered in several CollectFields-equivalent shapes.")
CHECKS["C09"] = dict(design="4/C09", technique="GqlSched with op=mutation: invariants Serial and TopOrder model-checked; behaviours replayed with per-step pending-set and invocation-order comparison",
    text="Same model with the serial continuation chain (Advance): TLC checks that a later top-level field is never started before the earlier one has settled (Serial), that top-level resolvers are invoked in document order (TopOrder) and termination; every mutation plan x completion order is replayed on the fake-pool thread-pool and private-loop asyncio runtimes comparing the pending set after every completion and the invocation order, with top-level selections also reached through fragments, duplicated through a later fragment, and served by root-object methods; blocking executors run the synchronous projection.",
    note="As C08.")
CHECKS["C16"] = dict(design="4/C16", technique="trace validation: recorded instrumentation / middleware / resolver events judged by the TLA+ hook machine (GqlHooks) in TLC, over TLC-generated executions and every request outcome; canaries",
    text="One recorder object implements Instrumentation, middleware and resolver wrapper; the event logs of TLC-generated executions (every completion order of bounded plans, queries and mutations, four executor/runtime configurations, 1-3 stacked instrumentations, 0-2 middlewares), of every non-execution outcome and of request sequences sharing one schema and runtime instance are judged by spec/GqlHooks.tla: stage hooks obey a stack discipline with starts in index order and ends in reverse, every resolved field sees fs -> middlewares (last listed outermost) -> resolver -> fe exactly once inside the execution stage, and every started stage ends. Canary traces must be rejected.",
    note="Events are ordered by a sequence lock in the recorder; after an unexpected resolver exception only the prefix discipline is required.")
CHECKS["C17"] = dict(design="4/C17", technique="TLA+ pull-driven stream machine (GqlSubscribe) model-checked (safety + liveness); behaviours replayed action by action on subscribe() with a gated source and gated field resolvers on a private event loop",
    text="spec/GqlSubscribe.tla models Subscribe / Produce / Pull / Deliver / FieldDone / Yield / End with the four refusal set-ups; TLC checks OnePerEvent, NoConsumeBeforeRefusal, InOrder, EndOnlyAtSourceEnd and termination, and enumerates event sequences (per-event outcomes: value, null, resolver error, null in non-null, unexpected exception, alternating concrete types with type-specific argument defaults), the relative timing of source and consumer and the completion order of deferred field resolvers. Each behaviour is replayed on the real subscribe(): source __anext__ calls, pending field gates and readiness of each pulled result are compared after every action and every yielded result must equal the reference computed from that event alone; refusals must raise the documented exception with zero source calls.",
    note="Single consumer; events<=1 exhaustive, 2-3 events by TLC simulation; silent steps fused by the implementation are looked ahead.")
CHECKS["C10"] = dict(design="4/C10", technique="TLA+ request pipeline (GqlRequest) enumerated by TLC + response-format judge (GqlResponse) evaluated by TLC on projected responses of the request matrix, all prefixes of request texts and TLC-generated executions",
    text="spec/GqlRequest.tla fixes the outcome class (syntax / invalid / no operation / bad variables / executed) of every document x operation name x variable payload; each request runs on the four entry-point configurations. Their responses, those of every prefix of a set of request texts (truncation anywhere, CR / CRLF / BOM / escapes / block strings) and of GqlSched executions (error positions incl. list indices known from the model) are projected and judged clause by clause by spec/GqlResponse.tla: no escaping exception, strict JSON, data omitted after parse / validation failure, string messages, line / column keys and in-document ranges, paths of keys and indices addressing a null, extensions passed through, exactly one error per error-null, no two errors for one path. Canary responses must be rejected.",
    note="Outcome class of free texts comes from the C01-verified parser and the validator; strict JSON is a harness observation (json.dumps(allow_nan=False)).")
CHECKS["C07"] = dict(design="4/C07", technique="TLA+ reference coercion function (GqlCoerce) evaluated by TLC over all types x values x routes; replay through real queries with a recording resolver and coerce_value",
    text="spec/GqlCoerce.tla transcribes input coercion (variables, literals, argument defaults, input object defaults and python names, enum internal values, list wrapping, 32-bit range) as Coerce(type, value) plus the Laws invariant (no null in non-null positions, in-range integers, wrapped singletons); TLC enumerates every argument type of bounded wrapper depth over Int / String / enum / recursive input object, every value of the family (boundary integers, unknown keys, wrong kinds) and every route (literal, variable, variable default, omitted, variable inside an object literal, null variable into a non-null argument). Each case runs as a real query against a recording resolver: the received kwargs must equal the reference or the request must be rejected before any resolver runs.",
    note="Scalar-to-scalar leniency (e.g. a string for Int) is reported but not judged. Floats are not modelled.")
CHECKS["C04"] = dict(design="4/C04", technique="TLA+ denotational execution semantics (GqlExec: CollectFields / ExecuteSelectionSet / CompleteValue) over documents built by actions; TLC evaluates the reference for every document x world; replay on both executors with fresh and long-lived schema objects",
    text="spec/GqlExec.tla builds only valid, conflict-free documents by actions over a schema with objects, an interface, a union, an enum with internal values, a custom scalar, list and non-null wrappers and a fragment library, and defines the response (ordered keys, aliases, merged sub-selections per runtime type, type conditions, @skip/@include with a variable, visited-fragment tracking, null + one error at resolver-error / non-null positions); TLC checks Shape and ErrorsAtNulls on the model and prints the reference for every behaviour. Each is replayed on graphql_blocking and process_graphql_query, on a fresh schema object and on one long-lived schema object serving the shuffled batch; ordered data and error paths must equal the reference and a sample of responses passes the GqlResponse judge.",
    note="Worlds are a pairwise-covering family of 8; quick: builds <= 2 steps exhaustive + TLC simulation up to 5 steps; thorough: <= 3 exhaustive + simulation up to 7.")
CHECKS["C20"] = dict(design="4/C20", technique="TLA+ edit algebra with expected classification and soundness predicates (GqlDiff), TLC-enumerated single and paired edits; replay into diff_schema on code-built schemas (two type orders), operation pool validated by the real validator",
    text="spec/GqlDiff.tla defines elementary edits (add / remove / retype at every wrapper variant / default / deprecation / member / location / kind) of a base schema with the expected change classes and the predicates OutOk / InOk (checked reflexive and converse on the model); TLC enumerates every single edit and pairs touching different types. Each pair (old, new) is realised in code (enum internal values, reversed type order) and diffed: equal schemas report nothing, every edit is reported with an expected class naming the element (safe retypings may be silent), no BREAKING report implies no breaking edit by the predicates and every operation of a pool valid on the old schema stays valid on the new one, and the result does not depend on the order of types.",
    note="One base schema; 'naming the element' = message contains the element name.")
CHECKS["C13"] = dict(design="4/C13", technique="TLA+ labelled violation algebra + covariance predicate (GqlSchemaValidate) and register/validate state machine (GqlSchemaMemo) enumerated by TLC; replay into validate_schema and Schema.validate()",
    text="spec/GqlSchemaValidate.tla injects every labelled rule violation (names, empty types, duplicates, input/output positions, interface implementation incl. covariance through list and non-null wrappers, argument compatibility, union members, root types) into a valid base schema, every pair on different types, and the 6 x 6 wrapper matrix whose validity is decided by the covariance predicate; each is realised as a code-built schema in both type orders: validate_schema must raise exactly for the invalid ones and report both violations of a pair. spec/GqlSchemaMemo.tla enumerates sequences of register_resolver (five signature classes, shared function objects, overrides) and validate(): after every step the real verdict must equal the verdict of the current state.",
    note="Rules in scope are those the property enumerates; attribution through the edited element's name in the error list.")
NOT_YET = {
}


def main():
    props = [json.loads(l) for l in open("properties.jsonl")]
    checks = []
    for p in props:
        c = CHECKS.get(p["id"])
        if not c:
            continue
        checks.append({
            "property_id": p["id"],
            "quick_cmd": "./check %s --tier quick" % p["id"],
            "thorough_cmd": "./check %s --tier thorough" % p["id"],
            "evidence_file": "/verif/evidence/%s.json" % p["id"],
            "replay_cmd_template": "./check %s --replay {path}" % p["id"],
            "engine": "tlc+replay",
            "level_claimed": {"category": "model_checking", "text": c["text"], "design_ref": c["design"]},
            "level_note": c["note"],
            "technique": c["technique"],
        })
    na = [{"property_id": p["id"], "reason": NOT_YET.get(p["id"], "check not built yet in this round (planned: model-based, see DESIGN.md section 4)")}
          for p in props if p["id"] not in CHECKS]
    m = {
        "version": 1,
        "setup_cmd": "cd /verif && ./check setup",
        "hooks": {"guard": "PY_GQL_VERIF", "enable": "no source hooks: checks import py_gql from /repo/src and observe through public APIs (env PY_GQL_VERIF=1 is set but unused)",
                  "baseline_off_cmd": BASE, "source_commits": [], "add_only": True},
        "engines": [{"name": "tlc+replay", "path": "/verif/check", "serves_properties": sorted(CHECKS),
                     "kind_free_text": "explicit TLA+ specifications under /verif/spec checked / enumerated by TLC 1.8; behaviours replayed into py_gql, recorded traces judged by trace specifications"}],
        "checks": checks,
        "not_applicable": na,
        "notes": "All checks: exit 0 held / exit 1 VIOLATION / exit 2 machinery failure. known_findings.json lists recorded genuine defects (KNOWN-FINDING lines) and fixed ones.",
    }
    json.dump(m, open("MANIFEST.json", "w"), indent=1)


main()
