---------------------------- MODULE GqlSched ----------------------------
(* Operational model of py_gql's executor over a runtime with deferred resolvers (C08, C09, C16).

   Phase "build": TLC constructs a PLAN, a flat pre-order table of field instances
       nodes[n] = [parent |-> id or 0, mode |-> "def" | "sync", out |-> outcome]
     out:  val     resolver returns a leaf value
           null    resolver returns null for a nullable field
           nullnn  resolver returns null for a NON-NULL field: null stays, one error (the library's documented rule)
           err     resolver raises the library's ResolverError: null at that position, one error
           crash   resolver raises an unexpected exception: the whole result fails with it
           obj     resolver returns an object; the node has children (its sub-selection)
           sernull / sernullnn   resolver returns a value of a custom scalar that SERIALISES to null, in a nullable /
                   non-null position (null, and for the non-null position one error)
           lval    resolver returns the list [v, null, v] for a field of type [Int]
           lnn     resolver returns the list [v, null] for a field of type [Int!]: null item stays, one error with the index
           lobj    resolver returns a LIST OF TWO OBJECTS for a field of type [T]: the node's sub-selection runs once per item, item 0
                   first.  A plan holds at most one such node; Seal unfolds it: the field instances below it are copied for item 1
                   (item = 1, of = the instance of item 0 they copy) and appended to the table, so that Kids(lobj) lists the
                   instances of item 0 and then those of item 1 - the order Executor.complete_list_value starts them in
           lfail   resolver returns, for a field of type [T], a LAZY iterable that yields two objects and then raises the library's
                   ResolverError: the list cannot be produced - null with one error at the field's position - and NONE of the
                   objects it had already yielded is completed (no resolver below the field is invoked: in a mutation nothing
                   of this field may still be running when the next top-level field starts)
           argerr  the field's ARGUMENTS fail coercion at execution time (an explicit null reaches `x: Int! = 3` through a nullable
                   variable): the resolver is never invoked, the field is null with one error, and it settles at once whatever its mode
     mode: def = the resolver's result becomes available later (pool task / coroutine), sync = in line.
   Seal closes the plan (phase "ready") and unfolds a list-of-objects node.
   Phase "run": Begin starts the operation; Complete(n) makes the result of any pending resolver available.
     Start(ns)   starts field instances in document order; synchronous ones complete in line, depth first
                 (Executor.execute_fields + resolve_field + complete_value).
     Advance     is the serial continuation chain of mutations (Executor.execute_fields_serially): the next
                 top-level field is started only when the previous one has SETTLED (its whole subtree finished).
   History variables: steps (one record per completion with the pending set afterwards), inv (order in which
   resolvers were invoked).  The reference result Data/ErrNodes is denotational and independent of the schedule. *)
EXTENDS Naturals, Sequences, FiniteSets, TLC, Json, SequencesExt
CONSTANTS MaxNodes,  \* maximal number of field instances in a plan
          OpKinds,   \* subset of {"query", "mutation"}
          Modes      \* subset of {"def", "sync"}
Outs == {"val", "null", "nullnn", "err", "crash", "obj", "sernull", "sernullnn", "lval", "lnn", "argerr", "lobj", "lfail"}
Composite == {"obj", "lobj"}
NodeChoices == {[mode |-> m, out |-> o] : m \in Modes, o \in Outs}
VARIABLES phase, op, nodes, st, steps, failed, init0, inv
vars == <<phase, op, nodes, st, steps, failed, init0, inv>>
NN == Len(nodes)
Nd(n) == nodes[n]
KidsOf(ns, n) == SelectSeq([i \in 1..Len(ns) |-> i], LAMBDA i : ns[i].parent = n)
Kids(n) == KidsOf(nodes, n)
RECURSIVE Anc(_, _)
Anc(ns, n) == IF n = 0 THEN {0} ELSE {n} \cup Anc(ns, ns[n].parent)

Init == /\ phase = "build" /\ op \in OpKinds /\ nodes = <<>> /\ st = <<>> /\ steps = <<>> /\ failed = FALSE
        /\ init0 = <<>> /\ inv = <<>>
\* pre-order construction: the parent must be an object node on the right-most path (or the root, 0)
AddNode == /\ phase = "build" /\ NN < MaxNodes
           /\ \E c \in NodeChoices :
              \E p \in (IF NN = 0 THEN {0} ELSE Anc(nodes, NN)) :
                 /\ (IF p = 0 THEN TRUE ELSE nodes[p].out \in Composite)
                 /\ (c.out = "lobj" => \A i \in 1..NN : nodes[i].out # "lobj")
                 /\ nodes' = Append(nodes, [parent |-> p, mode |-> c.mode, out |-> c.out, item |-> 0, of |-> 0])
           /\ UNCHANGED <<phase, op, st, steps, failed, init0, inv>>
\* every object node needs at least one child (selection sets are non-empty)
WellFormed == NN >= 1 /\ \A n \in 1..NN : nodes[n].out \in Composite => Kids(n) # <<>>
\* the table with the field instances below the list-of-objects node copied for the second item (pre-order: they are the block L+1..L+d)
Unfolded(ns) ==
  LET Ls == {i \in 1..Len(ns) : ns[i].out = "lobj"} IN
  IF Ls = {} THEN ns
  ELSE LET L == CHOOSE i \in Ls : TRUE
           d == Cardinality({i \in 1..Len(ns) : i # L /\ L \in Anc(ns, i)})
           N0 == Len(ns)
       IN ns \o [i \in 1..d |-> [ns[L + i] EXCEPT !.parent = IF @ = L THEN L ELSE @ - L + N0, !.item = 1, !.of = L + i]]
Seal == /\ phase = "build" /\ WellFormed /\ phase' = "ready" /\ nodes' = Unfolded(nodes)
        /\ UNCHANGED <<op, st, steps, failed, init0, inv>>

RECURSIVE Desc(_)
Desc(n) == {n} \cup UNION {Desc(k) : k \in {i \in 1..NN : Nd(i).parent = n}}
\* s = [st, failed, inv]; starting a list of nodes in order; sync nodes complete in line, depth first.
\* A synchronous crash aborts the whole execution at once (the exception propagates out of execute()).
RECURSIVE Start(_, _)
Start(ns, s) ==
  IF ns = <<>> \/ s.failed THEN s
  ELSE LET n == Head(ns)
           si == IF Nd(n).out = "argerr" THEN s ELSE [s EXCEPT !.inv = Append(@, n)]
           s1 == IF Nd(n).mode = "def" /\ Nd(n).out # "argerr" THEN [si EXCEPT !.st[n] = "pending"]
                 ELSE LET s0 == [si EXCEPT !.st[n] = "done", !.failed = (Nd(n).out = "crash")]
                      IN IF Nd(n).out \in Composite THEN Start(Kids(n), s0) ELSE s0
       IN Start(Tail(ns), s1)
\* top-level field t has settled: nothing pending below it and every idle node below it is unreachable
Settled(t, stf) == \A d \in Desc(t) : stf[d] # "pending" /\
                      (stf[d] = "idle" => \E a \in Desc(t) : a # d /\ d \in Desc(a) /\ (stf[a] = "idle" \/ Nd(a).out \notin Composite))
Tops == Kids(0)
RECURSIVE Advance(_)
Advance(s) ==
  IF op # "mutation" \/ s.failed THEN s
  ELSE LET idle == SelectSeq(Tops, LAMBDA t : s.st[t] = "idle")
           started == SelectSeq(Tops, LAMBDA t : s.st[t] # "idle")
       IN IF idle = <<>> THEN s
          ELSE IF started = <<>> \/ Settled(Last(started), s.st) THEN Advance(Start(<<Head(idle)>>, s)) ELSE s
Pending(stf) == {n \in 1..NN : stf[n] = "pending"}
Begin == /\ phase = "ready"
         /\ LET s0 == [st |-> [n \in 1..NN |-> "idle"], failed |-> FALSE, inv |-> <<>>]
                s1 == IF op = "mutation" THEN Advance(s0) ELSE Start(Tops, s0)
            IN st' = s1.st /\ failed' = s1.failed /\ inv' = s1.inv /\ init0' = SetToSortSeq(Pending(s1.st), <)
         /\ phase' = "run" /\ steps' = <<>> /\ UNCHANGED <<op, nodes>>
Complete(n) ==
  /\ phase = "run" /\ ~failed /\ st[n] = "pending"
  /\ LET s0 == [st |-> [st EXCEPT ![n] = "done"], failed |-> Nd(n).out = "crash", inv |-> inv]
         s1 == IF Nd(n).out \in Composite THEN Start(Kids(n), s0) ELSE s0
         s2 == Advance(s1)
     IN /\ st' = s2.st /\ failed' = s2.failed /\ inv' = s2.inv
        /\ steps' = Append(steps, [n |-> n, pending |-> SetToSortSeq(Pending(s2.st), <), failed |-> s2.failed])
  /\ UNCHANGED <<phase, op, nodes, init0>>
CompleteAny == \E n \in 1..NN : Complete(n)
Next == AddNode \/ Seal \/ Begin \/ CompleteAny
Spec == Init /\ [][Next]_vars
FairSpec == Spec /\ WF_vars(CompleteAny)
Quiescent == phase = "run" /\ (failed \/ Pending(st) = {})

\* ---- reference result (denotational, schedule independent): data tree and error positions --------------------
RECURSIVE Data(_)
Data(n) == CASE Nd(n).out = "val" -> [k |-> "val"]
             [] Nd(n).out \in {"null", "nullnn", "err", "sernull", "sernullnn", "argerr", "lfail"} -> [k |-> "null"]
             [] Nd(n).out = "lval" -> [k |-> "lval"]
             [] Nd(n).out = "lnn" -> [k |-> "lnn"]
             [] Nd(n).out = "obj" -> [k |-> "obj", kids |-> [i \in 1..Len(Kids(n)) |-> [id |-> Kids(n)[i], v |-> Data(Kids(n)[i])]]]
             [] Nd(n).out = "lobj" -> [k |-> "lobj", kids |-> [i \in 1..Len(Kids(n)) |-> [id |-> Kids(n)[i], item |-> Nd(Kids(n)[i]).item, v |-> Data(Kids(n)[i])]]]
             [] OTHER -> [k |-> "crash"]
Reachable(n) == \A a \in Anc(nodes, n) \ {0, n} : Nd(a).out \in Composite
ErrNodes == {n \in 1..NN : Reachable(n) /\ Nd(n).out \in {"nullnn", "err", "sernullnn", "lnn", "argerr", "lfail"}}
Crashes == \E n \in 1..NN : Reachable(n) /\ Nd(n).out = "crash"

\* ---- properties ---------------------------------------------------------------------------------------------------
\* C08: no lost wake-up - once nothing is pending every reachable field instance has been resolved
NoLostWakeup == (Quiescent /\ ~failed) => \A n \in 1..NN : Reachable(n) => st[n] = "done"
\* C08: an unexpected exception always surfaces as the failure of the overall result
CrashSurfaces == (Quiescent /\ ~failed) => ~Crashes
\* C08: nothing unreachable is ever resolved
OnlyReachable == phase = "run" => \A n \in 1..NN : st[n] # "idle" => Reachable(n)
\* C09: a later top-level mutation field is not started before the earlier one (with its sub-selection) has settled
Serial == (phase = "run" /\ op = "mutation") =>
            \A i, j \in 1..Len(Tops) : (i < j /\ st[Tops[j]] # "idle") => (failed \/ Settled(Tops[i], st))
\* C09: resolvers of top-level mutation fields are invoked in document order
RECURSIVE Filter(_, _)
Filter(s, S) == IF s = <<>> THEN <<>> ELSE (IF Head(s) \in S THEN <<Head(s)>> ELSE <<>>) \o Filter(Tail(s), S)
TopOrder == (phase = "run" /\ op = "mutation") =>
              LET t == Filter(inv, {Tops[i] : i \in 1..Len(Tops)})
                  called == SelectSeq(Tops, LAMBDA x : Nd(x).out # "argerr")      \* a field whose arguments do not coerce has no resolver call
              IN \A i \in 1..Len(t) : t[i] = called[i]
\* C08 liveness: execution completes once all resolvers have completed (checked under FairSpec)
Terminates == (phase = "run") ~> Quiescent

Emit == Quiescent => PrintT("RUN " \o ToJson([op |-> op, nodes |-> nodes, init |-> init0, steps |-> steps, failed |-> failed, inv |-> inv,
            data |-> [i \in 1..Len(Tops) |-> [id |-> Tops[i], v |-> Data(Tops[i])]], errs |-> SetToSortSeq(ErrNodes, <)]))
=============================================================================
