---------------------------- MODULE FutureCombinators ----------------------------
(* Design check of py_gql.execution.runtime.threadpool.gather_futures at LINE granularity (C08).

   NSrc source futures complete on NSrc worker threads (outcome ok / exc chosen nondeterministically) while the main
   thread is still registering the on_finish callbacks one by one; a callback added to an already finished future
   runs in line on the registering thread (concurrent.futures semantics).  Every statement of on_finish is a label.
   set_result / set_exception on an already resolved `outer` raise InvalidStateError inside the callback, which
   concurrent.futures swallows: modelled by the counter `swallowed` (the named benign race).
   Atomic == TRUE models `done += 1` as one step (what the GIL gives for the code as written on CPython 3.12);
   Atomic == FALSE splits it into read and write and exhibits the lost-update hang of a free-threaded interpreter
   (model-only hazard, documented in DESIGN section 4/C08, not a finding).                                              *)
EXTENDS Naturals, Sequences, FiniteSets, TLC
CONSTANTS NSrc, Atomic

(* --fair algorithm gather
variables
  outcome \in [1..NSrc -> {"ok", "exc"}],
  fstate = [i \in 1..NSrc |-> "pending"],
  hasCb  = [i \in 1..NSrc |-> FALSE],
  ran    = [i \in 1..NSrc |-> FALSE],
  done = 0,
  outer = "pending",
  sets = 0,
  swallowed = 0;

define
  Target == NSrc
  AllOk == \A i \in 1..NSrc : outcome[i] = "ok"
end define;

procedure on_finish(src)
variable tmp = 0;
begin
 L1: if Atomic then done := done + 1; else tmp := done; end if;
 L1b: if ~Atomic then done := tmp + 1; end if;
 L2: if outcome[src] = "exc" then
       if outer = "pending" then outer := "exc"; sets := sets + 1;
       else swallowed := swallowed + 1; end if;
       return;
     end if;
 L3: if done = Target then
 L4:   if \E j \in 1..NSrc : outcome[j] = "exc" then swallowed := swallowed + 1;
       elsif outer = "pending" then outer := "result"; sets := sets + 1;
       else swallowed := swallowed + 1; end if;
     end if;
 L5: return;
end procedure;

process main = 0
variable k = 1;
begin
 M1: while k <= NSrc do
       if fstate[k] = "pending" then hasCb[k] := TRUE; k := k + 1;
       else ran[k] := TRUE; call on_finish(k);
 M2:        k := k + 1;
       end if;
     end while;
end process;

process worker \in 1..NSrc
begin
 W1: fstate[self] := "done";
 W2: if hasCb[self] /\ ~ran[self] then ran[self] := TRUE; call on_finish(self); end if;
end process;
end algorithm; *)
\* BEGIN TRANSLATION
CONSTANT defaultInitValue
VARIABLES pc, outcome, fstate, hasCb, ran, done, outer, sets, swallowed, 
          stack

(* define statement *)
Target == NSrc
AllOk == \A i \in 1..NSrc : outcome[i] = "ok"

VARIABLES src, tmp, k

vars == << pc, outcome, fstate, hasCb, ran, done, outer, sets, swallowed, 
           stack, src, tmp, k >>

ProcSet == {0} \cup (1..NSrc)

Init == (* Global variables *)
        /\ outcome \in [1..NSrc -> {"ok", "exc"}]
        /\ fstate = [i \in 1..NSrc |-> "pending"]
        /\ hasCb = [i \in 1..NSrc |-> FALSE]
        /\ ran = [i \in 1..NSrc |-> FALSE]
        /\ done = 0
        /\ outer = "pending"
        /\ sets = 0
        /\ swallowed = 0
        (* Procedure on_finish *)
        /\ src = [ self \in ProcSet |-> defaultInitValue]
        /\ tmp = [ self \in ProcSet |-> 0]
        (* Process main *)
        /\ k = 1
        /\ stack = [self \in ProcSet |-> << >>]
        /\ pc = [self \in ProcSet |-> CASE self = 0 -> "M1"
                                        [] self \in 1..NSrc -> "W1"]

L1(self) == /\ pc[self] = "L1"
            /\ IF Atomic
                  THEN /\ done' = done + 1
                       /\ tmp' = tmp
                  ELSE /\ tmp' = [tmp EXCEPT ![self] = done]
                       /\ done' = done
            /\ pc' = [pc EXCEPT ![self] = "L1b"]
            /\ UNCHANGED << outcome, fstate, hasCb, ran, outer, sets, 
                            swallowed, stack, src, k >>

L1b(self) == /\ pc[self] = "L1b"
             /\ IF ~Atomic
                   THEN /\ done' = tmp[self] + 1
                   ELSE /\ TRUE
                        /\ done' = done
             /\ pc' = [pc EXCEPT ![self] = "L2"]
             /\ UNCHANGED << outcome, fstate, hasCb, ran, outer, sets, 
                             swallowed, stack, src, tmp, k >>

L2(self) == /\ pc[self] = "L2"
            /\ IF outcome[src[self]] = "exc"
                  THEN /\ IF outer = "pending"
                             THEN /\ outer' = "exc"
                                  /\ sets' = sets + 1
                                  /\ UNCHANGED swallowed
                             ELSE /\ swallowed' = swallowed + 1
                                  /\ UNCHANGED << outer, sets >>
                       /\ pc' = [pc EXCEPT ![self] = Head(stack[self]).pc]
                       /\ tmp' = [tmp EXCEPT ![self] = Head(stack[self]).tmp]
                       /\ src' = [src EXCEPT ![self] = Head(stack[self]).src]
                       /\ stack' = [stack EXCEPT ![self] = Tail(stack[self])]
                  ELSE /\ pc' = [pc EXCEPT ![self] = "L3"]
                       /\ UNCHANGED << outer, sets, swallowed, stack, src, tmp >>
            /\ UNCHANGED << outcome, fstate, hasCb, ran, done, k >>

L3(self) == /\ pc[self] = "L3"
            /\ IF done = Target
                  THEN /\ pc' = [pc EXCEPT ![self] = "L4"]
                  ELSE /\ pc' = [pc EXCEPT ![self] = "L5"]
            /\ UNCHANGED << outcome, fstate, hasCb, ran, done, outer, sets, 
                            swallowed, stack, src, tmp, k >>

L4(self) == /\ pc[self] = "L4"
            /\ IF \E j \in 1..NSrc : outcome[j] = "exc"
                  THEN /\ swallowed' = swallowed + 1
                       /\ UNCHANGED << outer, sets >>
                  ELSE /\ IF outer = "pending"
                             THEN /\ outer' = "result"
                                  /\ sets' = sets + 1
                                  /\ UNCHANGED swallowed
                             ELSE /\ swallowed' = swallowed + 1
                                  /\ UNCHANGED << outer, sets >>
            /\ pc' = [pc EXCEPT ![self] = "L5"]
            /\ UNCHANGED << outcome, fstate, hasCb, ran, done, stack, src, tmp, 
                            k >>

L5(self) == /\ pc[self] = "L5"
            /\ pc' = [pc EXCEPT ![self] = Head(stack[self]).pc]
            /\ tmp' = [tmp EXCEPT ![self] = Head(stack[self]).tmp]
            /\ src' = [src EXCEPT ![self] = Head(stack[self]).src]
            /\ stack' = [stack EXCEPT ![self] = Tail(stack[self])]
            /\ UNCHANGED << outcome, fstate, hasCb, ran, done, outer, sets, 
                            swallowed, k >>

on_finish(self) == L1(self) \/ L1b(self) \/ L2(self) \/ L3(self)
                      \/ L4(self) \/ L5(self)

M1 == /\ pc[0] = "M1"
      /\ IF k <= NSrc
            THEN /\ IF fstate[k] = "pending"
                       THEN /\ hasCb' = [hasCb EXCEPT ![k] = TRUE]
                            /\ k' = k + 1
                            /\ pc' = [pc EXCEPT ![0] = "M1"]
                            /\ UNCHANGED << ran, stack, src, tmp >>
                       ELSE /\ ran' = [ran EXCEPT ![k] = TRUE]
                            /\ /\ src' = [src EXCEPT ![0] = k]
                               /\ stack' = [stack EXCEPT ![0] = << [ procedure |->  "on_finish",
                                                                     pc        |->  "M2",
                                                                     tmp       |->  tmp[0],
                                                                     src       |->  src[0] ] >>
                                                                 \o stack[0]]
                            /\ tmp' = [tmp EXCEPT ![0] = 0]
                            /\ pc' = [pc EXCEPT ![0] = "L1"]
                            /\ UNCHANGED << hasCb, k >>
            ELSE /\ pc' = [pc EXCEPT ![0] = "Done"]
                 /\ UNCHANGED << hasCb, ran, stack, src, tmp, k >>
      /\ UNCHANGED << outcome, fstate, done, outer, sets, swallowed >>

M2 == /\ pc[0] = "M2"
      /\ k' = k + 1
      /\ pc' = [pc EXCEPT ![0] = "M1"]
      /\ UNCHANGED << outcome, fstate, hasCb, ran, done, outer, sets, 
                      swallowed, stack, src, tmp >>

main == M1 \/ M2

W1(self) == /\ pc[self] = "W1"
            /\ fstate' = [fstate EXCEPT ![self] = "done"]
            /\ pc' = [pc EXCEPT ![self] = "W2"]
            /\ UNCHANGED << outcome, hasCb, ran, done, outer, sets, swallowed, 
                            stack, src, tmp, k >>

W2(self) == /\ pc[self] = "W2"
            /\ IF hasCb[self] /\ ~ran[self]
                  THEN /\ ran' = [ran EXCEPT ![self] = TRUE]
                       /\ /\ src' = [src EXCEPT ![self] = self]
                          /\ stack' = [stack EXCEPT ![self] = << [ procedure |->  "on_finish",
                                                                   pc        |->  "Done",
                                                                   tmp       |->  tmp[self],
                                                                   src       |->  src[self] ] >>
                                                               \o stack[self]]
                       /\ tmp' = [tmp EXCEPT ![self] = 0]
                       /\ pc' = [pc EXCEPT ![self] = "L1"]
                  ELSE /\ pc' = [pc EXCEPT ![self] = "Done"]
                       /\ UNCHANGED << ran, stack, src, tmp >>
            /\ UNCHANGED << outcome, fstate, hasCb, done, outer, sets, 
                            swallowed, k >>

worker(self) == W1(self) \/ W2(self)

(* Allow infinite stuttering to prevent deadlock on termination. *)
Terminating == /\ \A self \in ProcSet: pc[self] = "Done"
               /\ UNCHANGED vars

Next == main
           \/ (\E self \in ProcSet: on_finish(self))
           \/ (\E self \in 1..NSrc: worker(self))
           \/ Terminating

Spec == /\ Init /\ [][Next]_vars
        /\ WF_vars(Next)

Termination == <>(\A self \in ProcSet: pc[self] = "Done")

\* END TRANSLATION

Finished == \A p \in ProcSet : pc[p] = "Done"
\* outer is resolved at most once
AtMostOnce == sets <= 1
\* outer ends resolved: result iff all sources succeeded, exception otherwise
Correct == Finished => /\ sets = 1
                       /\ (AllOk => outer = "result")
                       /\ (~AllOk => outer = "exc")
\* every source's callback ran exactly once
EveryCbOnce == Finished => \A q \in 1..NSrc : ran[q]
=============================================================================
