---------------------------- MODULE GqlRuntime ----------------------------
(* Supplementary (X05): the combinator algebra every py_gql Runtime implements (py_gql.execution.runtime.base.Runtime) and on
   which the executor model GqlSched rests:  ensure_wrapped / submit, map_value(value, then, else_), gather_values, unwrap_value.

   TERMS are built by actions on a stack machine (post-fix construction, like the documents of GqlExec):
     Val(n)              a plain value                               Src(n, out)   a value that becomes available LATER (a pool task /
                                                                                   a coroutine): out = "ok" | "E1" | "E2" (it fails)
     Map(t, f, h)        runtime.map_value(t, then = f, else_ = h)   f: "box"  x |-> [x]      "fail1"  raises E1
                                                                     h: "none" | "E1" | "E2" | "any"  (else_ = (class, lambda e: 0))
     Nest(t, h)          runtime.unwrap_value(runtime.map_value(t, then = lambda x: <a NEW deferred value of [x]>, else_ = h)):
                         the callback itself answers with a wrapped value; unwrap_value flattens it (what resolve_field does)
     Gather(t1, t2)      runtime.gather_values([t1, t2])
   The DENOTATION Out(t, mode) is the set of outcomes the finally awaited term may have, whatever the order in which the deferred
   values settle:  [k |-> "val", v |-> value]  or  [k |-> "err", e |-> class].  It is a singleton except when two members of a
   gather fail with different classes (then either may surface).  A failure travels in one of two ways (Ev): raised while the term
   is built (nothing wrapped is at hand: it propagates like any exception and no enclosing else_ is consulted), or inside a wrapped
   value (then the next else_ of its class meets it).  mode = "blocking": nothing is ever wrapped.  Laws checked on the model (R1):
     Total          every term has at least one outcome
     HandlerSound   a failure of class C still visible behind else_ = (C, g) was raised while the term was built
     GatherOrder    a gathered list has its members in argument order
     NothingWrappedWhenBlocking
   Binding (R2): every term TLC prints is built on the BlockingRuntime (deferred values settle at once), the ThreadPoolRuntime (a
   fake pool releases the sources in every order) and the AsyncIORuntime (gated futures on a private loop); the awaited result
   must be one of Out(t), exactly that one when Out(t) is a singleton, and it must be available as soon as - and not before -
   every deferred source it still waits for has settled.                                                              *)
EXTENDS Naturals, Sequences, FiniteSets, TLC, Json
CONSTANT MaxSteps
Int(n) == [k |-> "int", n |-> n, items |-> <<>>]
Lst(xs) == [k |-> "list", n |-> 0, items |-> xs]
Val(n) == [t |-> "val", n |-> n, out |-> "ok", f |-> "", h |-> "", a |-> <<>>]
Src(n, o) == [t |-> "src", n |-> n, out |-> o, f |-> "", h |-> "", a |-> <<>>]
Map(x, f, h) == [t |-> "map", n |-> 0, out |-> "", f |-> f, h |-> h, a |-> <<x>>]
Nest(x, h) == [t |-> "nest", n |-> 0, out |-> "", f |-> "", h |-> h, a |-> <<x>>]
Gather(x, y) == [t |-> "gather", n |-> 0, out |-> "", f |-> "", h |-> "", a |-> <<x, y>>]
Handlers == {"none", "E1", "E2", "any"}
Catches(h, e) == h = "any" \/ h = e
\* An outcome: [k |-> "val" | "err", v, e, sync, def]
\*   def   the value is WRAPPED (a future / coroutine): only then can a failure travel as a value and be met by a later else_
\*   sync  (errors) raised while the term is being built: it propagates like any Python exception - an enclosing map_value is never
\*         called, a gather does not build its later members (the executor guards such calls with try / except)
O(k, v, e, sy, d) == [k |-> k, v |-> v, e |-> e, sync |-> sy, def |-> d]
Ok(v, d) == O("val", v, "", FALSE, d)
Er(e, sy, d) == O("err", Int(0), e, sy, d)
\* else_ = (C, g) meets a failure of the callback, or of a wrapped value
Handle(h, o) == IF o.k = "err" /\ Catches(h, o.e) THEN Ok(Int(0), o.def) ELSE o
\* mode "blocking": nothing is ever wrapped (BlockingRuntime);  mode "deferring": deferred values are wrapped (thread pool, asyncio)
RECURSIVE Ev(_, _)
Ev(t, mode) ==
  CASE t.t = "val" -> {Ok(Int(t.n), FALSE)}
    [] t.t = "src" -> IF t.out = "ok" THEN {Ok(Int(t.n), mode = "deferring")} ELSE {Er(t.out, mode = "blocking", mode = "deferring")}
    [] t.t = "map" -> {IF o.k = "err" THEN (IF o.sync THEN o ELSE Handle(t.h, o))
                       ELSE Handle(t.h, IF t.f = "box" THEN Ok(Lst(<<o.v>>), o.def) ELSE Er("E1", ~o.def, o.def)) : o \in Ev(t.a[1], mode)}
    [] t.t = "nest" -> {IF o.k = "err" THEN (IF o.sync THEN o ELSE Handle(t.h, o))
                        ELSE Ok(Lst(<<o.v>>), o.def \/ mode = "deferring") : o \in Ev(t.a[1], mode)}
    [] t.t = "gather" -> LET A == Ev(t.a[1], mode)  B == Ev(t.a[2], mode)
                         IN {x \in A : x.k = "err" /\ x.sync}                                    \* the first member fails while it is built
                            \cup (IF \E x \in A : ~(x.k = "err" /\ x.sync)
                                  THEN {y \in B : y.k = "err" /\ y.sync}
                                       \cup {Ok(Lst(<<x.v, y.v>>), x.def \/ y.def) : x \in {o \in A : o.k = "val"}, y \in {o \in B : o.k = "val"}}
                                       \cup {Er(o.e, FALSE, TRUE) : o \in {z \in A \cup B : z.k = "err" /\ ~z.sync}}
                                  ELSE {})
\* what the caller finally observes: a value or a failure class
Out(t, mode) == {[k |-> o.k, v |-> o.v, e |-> o.e] : o \in Ev(t, mode)}
RECURSIVE NSrc(_)
NSrc(t) == IF t.t = "src" THEN 1 ELSE IF t.a = <<>> THEN 0 ELSE IF Len(t.a) = 1 THEN NSrc(t.a[1]) ELSE NSrc(t.a[1]) + NSrc(t.a[2])

VARIABLES stack, steps, done
vars == <<stack, steps, done>>
Init == stack = <<>> /\ steps = 0 /\ done = FALSE
Push(x) == stack' = Append(stack, x) /\ steps' = steps + 1 /\ UNCHANGED done
Leaf == /\ ~done /\ steps < MaxSteps
        /\ \E x \in {Val(1), Src(2, "ok"), Src(3, "E1"), Src(4, "E2")} : Push(x)
Unary == /\ ~done /\ steps < MaxSteps /\ stack # <<>>
         /\ LET x == stack[Len(stack)] IN
            \E h \in Handlers : \E u \in {Map(x, "box", h), Map(x, "fail1", h), Nest(x, h)} :
               stack' = Append(SubSeq(stack, 1, Len(stack) - 1), u)
         /\ steps' = steps + 1 /\ UNCHANGED done
Binary == /\ ~done /\ steps < MaxSteps /\ Len(stack) >= 2
          /\ stack' = Append(SubSeq(stack, 1, Len(stack) - 2), Gather(stack[Len(stack) - 1], stack[Len(stack)]))
          /\ steps' = steps + 1 /\ UNCHANGED done
Finish == /\ ~done /\ Len(stack) = 1 /\ NSrc(stack[1]) <= 3 /\ done' = TRUE /\ UNCHANGED <<stack, steps>>
Next == Leaf \/ Unary \/ Binary \/ Finish
Spec == Init /\ [][Next]_vars

\* ---- laws (checked on every finished term) ------------------------------------------------------------------------------
Term == stack[1]
Modes == {"blocking", "deferring"}
Total == done => \A m \in Modes : Out(Term, m) # {}
\* a failure of class C that is still visible behind else_ = (C, g) was raised while the term was being built
HandlerSound == done => (Term.t \in {"map", "nest"} =>
                  \A m \in Modes : \A o \in Ev(Term, m) : (o.k = "err" /\ Catches(Term.h, o.e)) => o.sync)
GatherOrder == done => (Term.t = "gather" =>
                  \A m \in Modes : \A o \in Out(Term, m) : o.k = "val" =>
                     /\ \E x \in Out(Term.a[1], m) : x.k = "val" /\ x.v = o.v.items[1]
                     /\ \E y \in Out(Term.a[2], m) : y.k = "val" /\ y.v = o.v.items[2])
\* nothing is wrapped on the blocking runtime, and a term without deferred values is wrapped nowhere
NothingWrappedWhenBlocking == done => \A o \in Ev(Term, "blocking") : ~o.def
Emit == done => PrintT("RTM " \o ToJson([term |-> Term, blocking |-> Out(Term, "blocking"), deferring |-> Out(Term, "deferring"), nsrc |-> NSrc(Term)]))
=============================================================================
