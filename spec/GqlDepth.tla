---------------------------- MODULE GqlDepth ----------------------------
(* C19: depth limiting.  Operations are BUILT BY ACTIONS over the schema
       type Query { a: Int  o: O }    type O { a: Int  o: O }
   so that only type-correct documents arise; TLC enumerates every build sequence of at most MaxSteps steps,
   the value of the Boolean variable $v steering @skip/@include, and the operation-name filter.
   Selections are records [k, sel, name, dir]:
     k = "leaf" (field a) | "obj" (field o with sub-selection) | "inline" (inline fragment) | "spread" (named fragment)
     dir = "" | "skipT" (@skip(if: true)) | "inclV" (@include(if: $v)) | "skipV" (@skip(if: $v))
           | "sFiF" (@skip(if: false) @include(if: false): BOTH directives, a selection is kept only if neither removes it)
           | "iTsF" (@include(if: true) @skip(if: false): kept)
   Fragment library (fixed, defined in every document):
     fragment F on O { o { a } }      fragment G on O { a }      fragment H on O { o { ...F } }
   Reference (DESIGN Appendix B.13): depth = maximal number of nested FIELD selection sets below the operation's own
   selection set; fragments add no level; selections disabled by @skip/@include do not count.
   The document has two operations: the built one (named A) and a fixed one  query B { ...H }  (depth 2: it shares its
   fragments with A, measuring one operation must not change what the other one measures). *)
EXTENDS Naturals, Sequences, FiniteSets, TLC, Json, SequencesExt
CONSTANTS MaxSteps, UseDirs
VARIABLES stack, kinds, dirs, steps, done, v, filter
vars == <<stack, kinds, dirs, steps, done, v, filter>>

Sel(kind, sel, name, dir) == [k |-> kind, sel |-> sel, name |-> name, dir |-> dir]
Leaf == Sel("leaf", <<>>, "", "")
Dirs == IF UseDirs THEN {"", "skipT", "inclV", "skipV", "sFiF", "iTsF"} ELSE {""}

Init == /\ stack = << <<>> >> /\ kinds = <<"root">> /\ dirs = <<"">> /\ steps = 0 /\ done = FALSE
        /\ v \in (IF UseDirs THEN BOOLEAN ELSE {TRUE}) /\ filter \in {"", "A", "B"}
Top == stack[Len(stack)]
Push(s) == [stack EXCEPT ![Len(stack)] = Append(@, s)]
CanAdd == ~done /\ steps < MaxSteps
AddLeaf == /\ CanAdd /\ stack' = Push(Leaf) /\ steps' = steps + 1 /\ UNCHANGED <<kinds, dirs, done, v, filter>>
AddSpread == /\ CanAdd /\ \E n \in {"F", "G", "H"}, d \in Dirs : stack' = Push(Sel("spread", <<>>, n, d))
             /\ steps' = steps + 1 /\ UNCHANGED <<kinds, dirs, done, v, filter>>
Open(kind) == /\ CanAdd /\ \E d \in Dirs : dirs' = Append(dirs, d)
              /\ stack' = Append(stack, <<>>) /\ kinds' = Append(kinds, kind)
              /\ steps' = steps + 1 /\ UNCHANGED <<done, v, filter>>
Close == /\ ~done /\ Len(stack) > 1 /\ Top # <<>>
         /\ LET n == Sel(kinds[Len(kinds)], Top, "", dirs[Len(dirs)])
                s == Front(stack)
            IN stack' = [s EXCEPT ![Len(s)] = Append(@, n)]
         /\ kinds' = Front(kinds) /\ dirs' = Front(dirs) /\ UNCHANGED <<steps, done, v, filter>>
Finish == /\ ~done /\ Len(stack) = 1 /\ Top # <<>> /\ done' = TRUE /\ UNCHANGED <<stack, kinds, dirs, steps, v, filter>>
Next == AddLeaf \/ AddSpread \/ Open("obj") \/ Open("inline") \/ Close \/ Finish
Spec == Init /\ [][Next]_vars

\* ---- reference -----------------------------------------------------------------------------------------------
FragSel(n) == CASE n = "F" -> <<Sel("obj", <<Leaf>>, "", "")>>
                [] n = "G" -> <<Leaf>>
                [] n = "H" -> <<Sel("obj", <<Sel("spread", <<>>, "F", "")>>, "", "")>>
Enabled(s, var) == CASE s.dir \in {"skipT", "sFiF"} -> FALSE
                     [] s.dir = "inclV" -> var
                     [] s.dir = "skipV" -> ~var
                     [] OTHER -> TRUE
MaxOf(S) == IF S = {} THEN 0 ELSE CHOOSE x \in S : \A y \in S : y <= x
RECURSIVE DepthSel(_, _)
DepthSel(sel, var) ==
  LET d(s) == IF ~Enabled(s, var) THEN 0
              ELSE CASE s.k = "leaf" -> 0
                     [] s.k = "obj" -> 1 + DepthSel(s.sel, var)
                     [] s.k = "inline" -> DepthSel(s.sel, var)
                     [] s.k = "spread" -> DepthSel(FragSel(s.name), var)
  IN MaxOf({d(sel[i]) : i \in 1..Len(sel)})
DepthA == DepthSel(stack[1], v)
DepthB == 2
Limits == 0..5
\* operations the rule must flag for a given limit and filter
Flagged(limit) == {op \in {"A", "B"} : (filter = "" \/ filter = op) /\ (IF op = "A" THEN DepthA ELSE DepthB) > limit}

Out == done => PrintT("DOC " \o ToJson([sel |-> stack[1], v |-> v, filter |-> filter, depth |-> DepthA,
                                         flagged |-> [l \in Limits |-> SetToSeq(Flagged(l))]]))

\* ---- R1: wrapping never lowers the depth, fragments add no level ------------------------------------------------
RECURSIVE WrapAll(_)
WrapAll(sel) == [i \in 1..Len(sel) |->
                   IF sel[i].k \in {"obj", "inline"} THEN Sel("inline", <<[sel[i] EXCEPT !.sel = WrapAll(sel[i].sel)]>>, "", "")
                   ELSE Sel("inline", <<sel[i]>>, "", "")]
WrapInvariant == done => /\ DepthSel(WrapAll(stack[1]), v) = DepthSel(stack[1], v)
                         /\ DepthSel(<<Sel("inline", stack[1], "", "")>>, v) = DepthSel(stack[1], v)
                         /\ DepthSel(<<Sel("obj", stack[1], "", "")>>, v) = 1 + DepthSel(stack[1], v)
=============================================================================
