---------------------------- MODULE GqlDiff ----------------------------
(* C20: elementary schema edits of a base schema with their expected classification and the soundness predicates
   OutOk (output position at least as strict: same named type, nullability only tightened at every list depth) and
   InOk (input position at least as permissive).  TLC enumerates single edits and pairs of edits on different elements;
   the harness realises old / new as code-built schemas (also with the type list reversed) and runs diff_schema:
     * identical schemas -> nothing;  * every edit -> a change of an expected class naming the element (safe retypings may
       be silent: `silentOk`);  * no BREAKING change reported => the edit is not breaking by the predicates.
   The module is also the base of GqlSchemaValidate (C13).                                                            *)
EXTENDS Naturals, Sequences, FiniteSets, TLC, Json, SequencesExt
Named(n) == [k |-> "named", n |-> n]
ListOf(t) == [k |-> "list", of |-> t]
NN(t) == [k |-> "nn", of |-> t]
NoDef == [k |-> "null"]
Arg(n, t) == [name |-> n, type |-> t, hasDef |-> FALSE, def |-> NoDef]
ArgD(n, t, d) == [name |-> n, type |-> t, hasDef |-> TRUE, def |-> d]
Fld(n, t, as) == [name |-> n, type |-> t, args |-> as, dep |-> ""]
Base == [query |-> "Query", mutation |-> "", subscription |-> "",
  types |-> <<
    [k |-> "object", name |-> "Query", ifaces |-> <<>>, fields |-> << Fld("a", Named("Int"), <<>>), Fld("l", ListOf(NN(Named("Int"))), <<Arg("x", Named("Int")), ArgD("y", ListOf(Named("In")), [k |-> "null"])>>),
                                                              Fld("n", Named("Node"), <<>>), Fld("u", Named("U"), <<>>), Fld("e", NN(Named("E")), <<>>),
                                                              \* defaults of every input kind (C12 / C15): string with quote, backslash and an astral character ("ASTRAL" is
                                                              \* expanded by the harness), enum (internal value), list, input object that explicitly nulls a defaulted field, bool, float
                                                              [Fld("d", Named("Int"), << ArgD("s", Named("String"), [k |-> "str", v |-> "ASTRAL"]), ArgD("ev", Named("E"), [k |-> "enumv", v |-> "Y"]), ArgD("e3", Named("E3"), [k |-> "enumv", v |-> "2"]),
                                                                                        ArgD("li", ListOf(Named("Int")), [k |-> "list", vs |-> <<[k |-> "int", v |-> "1"], [k |-> "int", v |-> "2"]>>]),
                                                                                        ArgD("o", Named("In"), [k |-> "dict", fs |-> <<[key |-> "dflt", val |-> [k |-> "null"]], [key |-> "g", val |-> [k |-> "int", v |-> "2"]]>>]),
                                                                                        ArgD("b", Named("Boolean"), [k |-> "bool", v |-> TRUE]), ArgD("fl", Named("Float"), [k |-> "float", v |-> "1.5"]),
                                                                                        \* falsy defaults: zero, empty string, empty list, false
                                                                                        ArgD("z", Named("Int"), [k |-> "int", v |-> "0"]), ArgD("es", Named("String"), [k |-> "str", v |-> ""]),
                                                                                        ArgD("el", ListOf(Named("Int")), [k |-> "list", vs |-> <<>>]), ArgD("bf", Named("Boolean"), [k |-> "bool", v |-> FALSE]),
                                                                                        \* a string with an astral character NESTED in a list default (nested defaults are printed by the AST printer)
                                                                                        ArgD("ls", ListOf(Named("String")), [k |-> "list", vs |-> <<[k |-> "str", v |-> "ASTRAL"], [k |-> "str", v |-> "x"]>>]) >>)
                                                                 EXCEPT !.dep = "ASTRAL"],
                                                              \* a type reference seven wrappers deep, [[[Int!]!]!]!: the deepest the standard introspection query can report
                                                              Fld("deep", NN(ListOf(NN(ListOf(NN(ListOf(NN(Named("Int")))))))), <<>>) >>],
    \* an interface with a deprecated field (introspection must filter it like an object's)
    [k |-> "interface", name |-> "Node", fields |-> << Fld("id", Named("ID"), <<>>), [Fld("old", Named("Int"), <<>>) EXCEPT !.dep = "gone"] >>],
    [k |-> "object", name |-> "A", ifaces |-> <<"Node">>, fields |-> << Fld("id", Named("ID"), <<>>), Fld("s", Named("String"), <<>>), Fld("old", Named("Int"), <<>>) >>],
    \* B.old is deprecated with an EMPTY reason ("EMPTY" is expanded by the harness to the empty string): still deprecated
    [k |-> "object", name |-> "B", ifaces |-> <<>>, fields |-> << Fld("id", Named("ID"), <<>>), [Fld("old", Named("Int"), <<>>) EXCEPT !.dep = "EMPTY"] >>],
    [k |-> "union", name |-> "U", members |-> <<"A", "B">>],
    \* a second union sharing both members (per-union bookkeeping must not leak between unions), and a user type whose name
    \* starts with ONE underscore (only two are reserved)
    [k |-> "union", name |-> "U3", members |-> <<"B", "A">>],
    [k |-> "object", name |-> "_Priv", ifaces |-> <<>>, fields |-> << Fld("p", Named("Int"), <<>>), Fld("q", Named("Int"), <<>>) >>],
    [k |-> "enum", name |-> "E", values |-> << [name |-> "X", dep |-> "", py |-> "Y"], [name |-> "Y", dep |-> "", py |-> "py"] >>],
    \* an enum value deprecated with an EMPTY reason ("EMPTY" is expanded by the harness to the empty string): still deprecated
    [k |-> "enum", name |-> "E2", values |-> << [name |-> "P", dep |-> "EMPTY", py |-> "pp"], [name |-> "Q", dep |-> "", py |-> "pq"] >>],
    \* internal values "1" / "2" are realised as the Python ints 1 / 2 (a numeric internal value is not the GraphQL literal)
    [k |-> "enum", name |-> "E3", values |-> << [name |-> "M", dep |-> "", py |-> "1"], [name |-> "N", dep |-> "", py |-> "2"] >>],
    \* an enum whose ONLY input position is the argument of an executable directive (clients write its values in operations)
    [k |-> "enum", name |-> "E4", values |-> << [name |-> "K", dep |-> "", py |-> "pk"], [name |-> "L", dep |-> "", py |-> "pl"] >>],
    [k |-> "input", name |-> "In", fields |-> << Arg("f", Named("Int")), ArgD("g", NN(Named("Int")), [k |-> "int", v |-> "1"]), ArgD("dflt", Named("Int"), [k |-> "int", v |-> "5"]) >>] >>,
  directives |-> << [name |-> "tag", locs |-> <<"FIELD", "QUERY">>, args |-> <<Arg("n", Named("Int")), Arg("lvl", Named("E4"))>>] >>]

\* wrapper variants of a named type up to depth 2
Variants(n) == {Named(n), NN(Named(n)), ListOf(Named(n)), ListOf(NN(Named(n))), NN(ListOf(Named(n))), NN(ListOf(NN(Named(n))))}
RECURSIVE Inner(_)
Inner(t) == IF t.k = "named" THEN t.n ELSE Inner(t.of)
\* other named types a scalar position may be re-typed to (always a change of the named type: never safe in either direction,
\* whatever literal coercion would accept - a variable of the old type no longer fits)
Cross(n) == IF n = "Int" THEN {Named("Float"), Named("ID"), NN(Named("Float")), ListOf(Named("Float"))}
            ELSE IF n = "String" THEN {Named("ID")} ELSE {}
\* soundness predicates
RECURSIVE OutOk(_, _)
OutOk(o, n) == IF n.k = "nn" THEN (IF o.k = "nn" THEN OutOk(o.of, n.of) ELSE OutOk(o, n.of))
               ELSE IF o.k = "nn" THEN FALSE
               ELSE IF o.k = "list" /\ n.k = "list" THEN OutOk(o.of, n.of)
               ELSE o.k = "named" /\ n.k = "named" /\ o.n = n.n
RECURSIVE InOk(_, _)
InOk(o, n) == IF o.k = "nn" THEN (IF n.k = "nn" THEN InOk(o.of, n.of) ELSE InOk(o.of, n))
              ELSE IF n.k = "nn" THEN FALSE
              ELSE IF o.k = "list" /\ n.k = "list" THEN InOk(o.of, n.of)
              ELSE o.k = "named" /\ n.k = "named" /\ o.n = n.n

TIdx(s, name) == CHOOSE i \in 1..Len(s.types) : s.types[i].name = name
WithType(s, i, t) == [s EXCEPT !.types[i] = t]
DropMember(s, m) == [s EXCEPT !.types = [i \in 1..Len(@) |-> IF @[i].k = "union" THEN [@[i] EXCEPT !.members = SelectSeq(@, LAMBDA x : x # m)] ELSE @[i]]]
FIdx(t, f) == CHOOSE i \in 1..Len(t.fields) : t.fields[i].name = f
\* An edit is a record [kind, where, new schema, expect (set of acceptable change classes), element, breaking (spec says it must be breaking)]
ObjTypes(s) == {i \in 1..Len(s.types) : s.types[i].k \in {"object", "interface"}}
Edits(s) ==
  \* retype an output field
  UNION {UNION {{ [kind |-> "retype-field", el |-> s.types[i].fields[j].name, owner |-> s.types[i].name,
            new |-> WithType(s, i, [s.types[i] EXCEPT !.fields[j].type = v]),
            from |-> s.types[i].fields[j].type, to |-> v,
            expect |-> {"FieldChangedType"}, silentOk |-> OutOk(s.types[i].fields[j].type, v), breaking |-> ~OutOk(s.types[i].fields[j].type, v)]
          : v \in (Variants(Inner(s.types[i].fields[j].type)) \cup (IF j = 1 THEN Cross(Inner(s.types[i].fields[j].type)) ELSE {})) \ {s.types[i].fields[j].type}}
        : j \in 1..Len(s.types[i].fields)} : i \in {TIdx(s, "Query")}}
  \cup
  \* retype an argument
  UNION {{ [kind |-> "retype-arg", el |-> s.types[i].fields[2].args[a].name, owner |-> "Query.l",
            new |-> WithType(s, i, [s.types[i] EXCEPT !.fields[2].args[a].type = v]),
            from |-> s.types[i].fields[2].args[a].type, to |-> v,
            expect |-> {"FieldArgumentChangedType"}, silentOk |-> InOk(s.types[i].fields[2].args[a].type, v), breaking |-> ~InOk(s.types[i].fields[2].args[a].type, v)]
          : v \in (Variants(Inner(s.types[i].fields[2].args[a].type)) \cup Cross(Inner(s.types[i].fields[2].args[a].type))) \ {s.types[i].fields[2].args[a].type}}
        : a \in 1..2, i \in {TIdx(s, "Query")}}
  \cup
  \* retype an input field
  UNION {{ [kind |-> "retype-input", el |-> s.types[i].fields[j].name, owner |-> "In",
            new |-> WithType(s, i, [s.types[i] EXCEPT !.fields[j].type = v]),
            from |-> s.types[i].fields[j].type, to |-> v,
            expect |-> {"InputFieldChangedType"}, silentOk |-> InOk(s.types[i].fields[j].type, v), breaking |-> ~InOk(s.types[i].fields[j].type, v)]
          : v \in (Variants("Int") \cup (IF j = 1 THEN Cross("Int") ELSE {})) \ {s.types[i].fields[j].type}}
        : j \in 1..2, i \in {TIdx(s, "In")}}
  \cup
  \* remove / add field, argument, enum value, union member, interface implementation, type
  { [kind |-> "remove-field", el |-> "q", owner |-> "_Priv", new |-> WithType(s, TIdx(s, "_Priv"), [s.types[TIdx(s, "_Priv")] EXCEPT !.fields = SelectSeq(@, LAMBDA f : f.name # "q")]),
     expect |-> {"FieldRemoved"}, silentOk |-> FALSE, breaking |-> TRUE],
    [kind |-> "remove-field", el |-> "s", owner |-> "A", new |-> WithType(s, TIdx(s, "A"), [s.types[TIdx(s, "A")] EXCEPT !.fields = SelectSeq(@, LAMBDA f : f.name # "s")]),
     expect |-> {"FieldRemoved"}, silentOk |-> FALSE, breaking |-> TRUE],
    [kind |-> "add-field", el |-> "z", owner |-> "A", new |-> WithType(s, TIdx(s, "A"), [s.types[TIdx(s, "A")] EXCEPT !.fields = Append(@, Fld("z", Named("Int"), <<>>))]),
     expect |-> {"FieldAdded"}, silentOk |-> FALSE, breaking |-> FALSE],
    [kind |-> "remove-arg", el |-> "x", owner |-> "Query.l", new |-> WithType(s, TIdx(s, "Query"), [s.types[TIdx(s, "Query")] EXCEPT !.fields[2].args = Tail(@)]),
     expect |-> {"FieldArgumentRemoved"}, silentOk |-> FALSE, breaking |-> TRUE],
    [kind |-> "add-required-arg", el |-> "r", owner |-> "Query.a", new |-> WithType(s, TIdx(s, "Query"), [s.types[TIdx(s, "Query")] EXCEPT !.fields[1].args = <<Arg("r", NN(Named("Int")))>>]),
     expect |-> {"FieldArgumentAdded"}, silentOk |-> FALSE, breaking |-> TRUE],
    [kind |-> "add-optional-arg", el |-> "r", owner |-> "Query.a", new |-> WithType(s, TIdx(s, "Query"), [s.types[TIdx(s, "Query")] EXCEPT !.fields[1].args = <<Arg("r", Named("Int"))>>]),
     expect |-> {"FieldArgumentAdded"}, silentOk |-> FALSE, breaking |-> FALSE],
    [kind |-> "default-change", el |-> "g", owner |-> "In", new |-> WithType(s, TIdx(s, "In"), [s.types[TIdx(s, "In")] EXCEPT !.fields[2].def = [k |-> "int", v |-> "2"]]),
     expect |-> {"InputFieldDefaultValueChange"}, silentOk |-> FALSE, breaking |-> FALSE],
    [kind |-> "add-required-input", el |-> "h", owner |-> "In", new |-> WithType(s, TIdx(s, "In"), [s.types[TIdx(s, "In")] EXCEPT !.fields = Append(@, Arg("h", NN(Named("Int"))))]),
     expect |-> {"InputFieldAdded"}, silentOk |-> FALSE, breaking |-> TRUE],
    [kind |-> "remove-input", el |-> "f", owner |-> "In", new |-> WithType(s, TIdx(s, "In"), [s.types[TIdx(s, "In")] EXCEPT !.fields = Tail(@)]),
     expect |-> {"InputFieldRemoved"}, silentOk |-> FALSE, breaking |-> TRUE],
    [kind |-> "remove-enum-value", el |-> "Y", owner |-> "E", new |-> WithType(s, TIdx(s, "E"), [s.types[TIdx(s, "E")] EXCEPT !.values = Front(@)]),
     expect |-> {"EnumValueRemoved"}, silentOk |-> FALSE, breaking |-> TRUE],
    [kind |-> "remove-enum-value-used-by-a-directive-only", el |-> "L", owner |-> "E4", new |-> WithType(s, TIdx(s, "E4"), [s.types[TIdx(s, "E4")] EXCEPT !.values = Front(@)]),
     expect |-> {"EnumValueRemoved"}, silentOk |-> FALSE, breaking |-> TRUE],
    [kind |-> "add-enum-value", el |-> "Z", owner |-> "E", new |-> WithType(s, TIdx(s, "E"), [s.types[TIdx(s, "E")] EXCEPT !.values = Append(@, [name |-> "Z", dep |-> "", py |-> "pz"])]),
     expect |-> {"EnumValueAdded"}, silentOk |-> FALSE, breaking |-> FALSE],
    [kind |-> "deprecate-enum-value", el |-> "Y", owner |-> "E", new |-> WithType(s, TIdx(s, "E"), [s.types[TIdx(s, "E")] EXCEPT !.values[2].dep = "old"]),
     expect |-> {"EnumValueDeprecated"}, silentOk |-> FALSE, breaking |-> FALSE],
    [kind |-> "deprecate-field", el |-> "s", owner |-> "A", new |-> WithType(s, TIdx(s, "A"), [s.types[TIdx(s, "A")] EXCEPT !.fields[2].dep = "old"]),
     expect |-> {"FieldDeprecated"}, silentOk |-> FALSE, breaking |-> FALSE],
    [kind |-> "remove-union-member", el |-> "B", owner |-> "U", new |-> WithType(s, TIdx(s, "U"), [s.types[TIdx(s, "U")] EXCEPT !.members = Front(@)]),
     expect |-> {"TypeRemovedFromUnion"}, silentOk |-> FALSE, breaking |-> TRUE],
    [kind |-> "add-interface", el |-> "B", owner |-> "Node", new |-> WithType(s, TIdx(s, "B"), [s.types[TIdx(s, "B")] EXCEPT !.ifaces = <<"Node">>]),
     expect |-> {"TypeAddedToInterface"}, silentOk |-> FALSE, breaking |-> FALSE],
    [kind |-> "remove-interface", el |-> "A", owner |-> "Node", new |-> WithType(s, TIdx(s, "A"), [s.types[TIdx(s, "A")] EXCEPT !.ifaces = <<>>]),
     expect |-> {"TypeRemovedFromInterface"}, silentOk |-> FALSE, breaking |-> TRUE],
    [kind |-> "remove-directive-location", el |-> "tag", owner |-> "", new |-> [s EXCEPT !.directives[1].locs = <<"FIELD">>],
     expect |-> {"DirectiveLocationRemoved"}, silentOk |-> FALSE, breaking |-> TRUE],
    [kind |-> "remove-directive", el |-> "tag", owner |-> "", new |-> [s EXCEPT !.directives = <<>>],
     expect |-> {"DirectiveRemoved"}, silentOk |-> FALSE, breaking |-> TRUE],
    [kind |-> "rename-enum-value-same-internal", el |-> "Y", owner |-> "E", new |-> WithType(s, TIdx(s, "E"), [s.types[TIdx(s, "E")] EXCEPT !.values[2].name = "Y2"]),
     expect |-> {"EnumValueRemoved"}, silentOk |-> FALSE, breaking |-> TRUE],
    [kind |-> "add-null-default-arg", el |-> "x", owner |-> "Query.l", new |-> WithType(s, TIdx(s, "Query"), [s.types[TIdx(s, "Query")] EXCEPT !.fields[2].args[1] = ArgD("x", Named("Int"), [k |-> "null"])]),
     expect |-> {"FieldArgumentDefaultValueChange"}, silentOk |-> FALSE, breaking |-> FALSE],
    [kind |-> "remove-null-default-arg", el |-> "y", owner |-> "Query.l", new |-> WithType(s, TIdx(s, "Query"), [s.types[TIdx(s, "Query")] EXCEPT !.fields[2].args[2] = Arg("y", ListOf(Named("In")))]),
     expect |-> {"FieldArgumentDefaultValueChange"}, silentOk |-> FALSE, breaking |-> FALSE],
    [kind |-> "add-null-default-input", el |-> "f", owner |-> "In", new |-> WithType(s, TIdx(s, "In"), [s.types[TIdx(s, "In")] EXCEPT !.fields[1] = ArgD("f", Named("Int"), [k |-> "null"])]),
     expect |-> {"InputFieldDefaultValueChange"}, silentOk |-> FALSE, breaking |-> FALSE],
    [kind |-> "add-null-default-directive-arg", el |-> "n", owner |-> "tag", new |-> [s EXCEPT !.directives[1].args[1] = ArgD("n", Named("Int"), [k |-> "null"])],
     expect |-> {"DirectiveArgumentDefaultValueChange"}, silentOk |-> FALSE, breaking |-> FALSE],
    [kind |-> "add-union-member", el |-> "Query", owner |-> "U", new |-> WithType(s, TIdx(s, "U"), [s.types[TIdx(s, "U")] EXCEPT !.members = Append(@, "Query")]),
     expect |-> {"TypeAddedToUnion"}, silentOk |-> FALSE, breaking |-> FALSE],
    [kind |-> "remove-type", el |-> "B", owner |-> "", new |-> [DropMember(s, "B") EXCEPT !.types = SelectSeq(@, LAMBDA t : t.name # "B")],
     expect |-> {"TypeRemoved"}, silentOk |-> FALSE, breaking |-> TRUE],
    [kind |-> "add-type", el |-> "New", owner |-> "", new |-> [s EXCEPT !.types = Append(@, [k |-> "scalar", name |-> "New"])],
     expect |-> {"TypeAdded"}, silentOk |-> FALSE, breaking |-> FALSE],
    [kind |-> "change-kind", el |-> "B", owner |-> "", new |-> WithType(DropMember(s, "B"), TIdx(s, "B"), [k |-> "interface", name |-> "B", fields |-> << Fld("id", Named("ID"), <<>>) >>]),
     expect |-> {"TypeChangedKind"}, silentOk |-> FALSE, breaking |-> TRUE],
    [kind |-> "remove-deprecation", el |-> "s", owner |-> "A", new |-> s, expect |-> {}, silentOk |-> TRUE, breaking |-> FALSE],
    [kind |-> "add-directive-location", el |-> "tag", owner |-> "", new |-> [s EXCEPT !.directives[1].locs = <<"FIELD", "QUERY", "MUTATION">>],
     expect |-> {"DirectiveLocationAdded"}, silentOk |-> FALSE, breaking |-> FALSE],
    [kind |-> "retype-directive-arg", el |-> "n", owner |-> "tag", new |-> [s EXCEPT !.directives[1].args[1].type = NN(Named("Int"))],
     expect |-> {"DirectiveArgumentChangedType"}, silentOk |-> FALSE, breaking |-> TRUE],
    \* a REQUIRED input position loses its default: requests that relied on the default are no longer valid
    [kind |-> "remove-default-required-input", el |-> "g", owner |-> "In", new |-> WithType(s, TIdx(s, "In"), [s.types[TIdx(s, "In")] EXCEPT !.fields[2] = Arg("g", NN(Named("Int")))]),
     expect |-> {"InputFieldDefaultValueChange"}, silentOk |-> FALSE, breaking |-> TRUE],
    \* edits of an OBJECT's own field that an interface it implements declares as well (the interface is untouched)
    [kind |-> "add-optional-arg-impl", el |-> "r", owner |-> "A", new |-> WithType(s, TIdx(s, "A"), [s.types[TIdx(s, "A")] EXCEPT !.fields[1].args = <<Arg("r", Named("Int"))>>]),
     expect |-> {"FieldArgumentAdded"}, silentOk |-> FALSE, breaking |-> FALSE],
    [kind |-> "deprecate-impl-field", el |-> "id", owner |-> "A", new |-> WithType(s, TIdx(s, "A"), [s.types[TIdx(s, "A")] EXCEPT !.fields[1].dep = "old"]),
     expect |-> {"FieldDeprecated"}, silentOk |-> FALSE, breaking |-> FALSE],
    [kind |-> "strengthen-impl-field", el |-> "id", owner |-> "A", new |-> WithType(s, TIdx(s, "A"), [s.types[TIdx(s, "A")] EXCEPT !.fields[1].type = NN(Named("ID"))]),
     expect |-> {"FieldChangedType"}, silentOk |-> TRUE, breaking |-> FALSE],
    [kind |-> "identity", el |-> "", owner |-> "", new |-> s, expect |-> {}, silentOk |-> TRUE, breaking |-> FALSE] }
\* type names an edit touches: two edits are only combined when they touch different types
Touch(x) == CASE x.kind \in {"add-interface", "remove-interface"} -> {x.el, "Node"}
              [] x.kind \in {"remove-type", "change-kind", "remove-union-member"} -> {"B", "U", "U3"}
              [] x.kind = "add-union-member" -> {"U", "Query"}
              [] x.kind = "add-type" -> {"New"}
              [] x.owner \in {"Query.l", "Query.a"} -> {"Query"}
              [] OTHER -> {x.owner}
\* first edits that keep every element of the base in place, so that the whole family of edits is still defined afterwards
StableKinds == {"retype-field", "retype-arg", "retype-input", "add-field", "add-optional-arg", "add-required-arg", "default-change", "add-required-input",
                "add-enum-value", "deprecate-enum-value", "deprecate-field", "add-interface", "add-null-default-arg", "add-null-default-input",
                "add-union-member", "add-type", "add-directive-location"}
CONSTANT Pairs      \* TRUE: also apply a second edit (of another owner) on top of the first
VARIABLES e, f
\* second edits are re-computed on the schema produced by the first (so they compose); only edits of a different owner are combined
Init == /\ e \in Edits(Base)
        /\ f \in (IF Pairs /\ e.kind \in StableKinds THEN {x \in Edits(e.new) : Touch(x) \cap Touch(e) = {} /\ x.kind \notin {"identity", "remove-deprecation"}} \cup {[kind |-> "none"]} ELSE {[kind |-> "none"]})
Next == FALSE /\ UNCHANGED <<e, f>>
Spec == Init /\ [][Next]_<<e, f>>
IsRetype(x) == x.kind \in {"retype-field", "retype-arg", "retype-input"}
Rec(x, old) == [kind |-> x.kind, el |-> x.el, owner |-> x.owner, expect |-> SetToSeq(x.expect), silentOk |-> x.silentOk, breaking |-> x.breaking,
                from |-> (IF IsRetype(x) THEN x.from ELSE Named("")), to |-> (IF IsRetype(x) THEN x.to ELSE Named(""))]
Emit == PrintT("EDT " \o ToJson([old |-> Base, new |-> (IF f.kind = "none" THEN e.new ELSE f.new),
                                  edits |-> (IF f.kind = "none" THEN <<Rec(e, Base)>> ELSE <<Rec(e, Base), Rec(f, e.new)>>)]))
\* R1: the predicates are reflexive and OutOk / InOk are converse notions of strictness on wrappers
Reflexive == \A t \in Variants("Int") : OutOk(t, t) /\ InOk(t, t)
Converse == \A o, n \in Variants("Int") : OutOk(o, n) <=> InOk(n, o)
=============================================================================
