---------------------------- MODULE GqlSchemaOps ----------------------------
(* C14 (and the history part of C12): extend / clone / transform as operations on a STORE of schema VALUES.

   schemas[i] is an abstract schema value (value semantics: deriving a new schema never changes an existing one).
   Field / argument / input-field names are WORD SEQUENCES; a schema value carries the flag `camel` saying how multi-word
   names are spelled (snake_case in the base; camelCase after CamelCaseSchemaTransform).  Every element carries the
   attributes the property says must be preserved when untouched: python name (py), resolver id (res), default (hasDef/def),
   description (desc), deprecation (dep); types carry desc, default-resolver id (dres) and type-resolver id (rt); the schema
   itself carries the id of its schema-wide default resolver (sdres).

   Actions (each derives schema n+1 from a live schema src, or observes one):
     Clone(src)                      value copy
     Camel(src)                      camel := TRUE (python names keep the original spelling)
     Hide(src, p)                    visibility transform with predicate p from the family Preds: the element disappears
                                     together with everything that depends on it (fields / arguments / input fields of a hidden
                                     type, union members, implemented interfaces)
     Extend(src, x)                  extension document x from the menu Exts merged into a copy
     Print(src) / Query(src)         observers (no state change; used by the harness to probe reachability, and by C12 to
                                     check that serialisation is a function of the value)
   The harness replays every sequence on real Schema objects and after EVERY action projects EVERY live schema object:
   the projection must equal schemas[j] (so sources stay intact), every type reference must be the registered object, and
   hidden elements must be unreachable from queries, printing and introspection.                                      *)
EXTENDS Naturals, Sequences, FiniteSets, TLC, Json, SequencesExt
CONSTANT MaxOps
Named(n) == [k |-> "named", n |-> n]
ListOf(t) == [k |-> "list", of |-> t]
NN(t) == [k |-> "nn", of |-> t]
NoDef == [k |-> "null"]
Arg(w, t, py) == [w |-> w, type |-> t, hasDef |-> FALSE, def |-> NoDef, py |-> py, desc |-> ""]
ArgD(w, t, py, d) == [w |-> w, type |-> t, hasDef |-> TRUE, def |-> d, py |-> py, desc |-> "arg " \o py]
Fld(w, t, as, py, res, dep) == [w |-> w, type |-> t, args |-> as, py |-> py, res |-> res, dep |-> dep, desc |-> "field " \o py]
\* sdres: the schema-wide default resolver (schema.default_resolver = f, the documented way to set it)
Base == [camel |-> FALSE, query |-> "Query", mutation |-> "", subscription |-> "Sub", sdres |-> "dr_schema",
  types |-> <<
    [k |-> "object", name |-> "Query", ifaces |-> <<>>, desc |-> "the root", dres |-> "", rt |-> "",
       fields |-> << Fld(<<"user", "name">>, Named("String"), <<>>, "user_name", "r_user_name", ""),
                     Fld(<<"node">>, Named("Node"), <<ArgD(<<"node", "id">>, Named("ID"), "node_id", [k |-> "str", v |-> "n1"])>>, "node", "r_node", ""),
                     Fld(<<"find", "items">>, ListOf(Named("Item")), <<Arg(<<"filter", "by">>, Named("Filter"), "filter_by"),
                                                                        \* an input-object default: a COERCED value, keyed by the python names of Page's fields (which keep
                                                                        \* their spelling under every transform)
                                                                        ArgD(<<"page", "opts">>, Named("Page"), "page_opts",
                                                                             [k |-> "dict", fs |-> <<[key |-> "page_size", val |-> [k |-> "int", v |-> "5"]],
                                                                                                      [key |-> "sort_order", val |-> [k |-> "str", v |-> "asc"]]>>]),
                                                                        \* an explicit null default is a default (hasDef), not the absence of one
                                                                        ArgD(<<"max", "count">>, Named("Int"), "max_count", NoDef)>>, "find_items", "r_find", "old way"),
                     Fld(<<"find", "any">>, Named("U"), <<>>, "find_any", "", ""),
                     Fld(<<"any">>, Named("U"), <<>>, "any", "", ""),
                     Fld(<<"level">>, Named("Level"), <<>>, "level", "r_level", ""),
                     Fld(<<"meta">>, Named("_Meta"), <<>>, "meta", "", ""),
                     \* an argument typed by a plain custom scalar whose default is a STRING THAT READS LIKE A NUMBER in another spelling ("1e3"):
                     \* printing / introspection must give a literal that reads back as that very string
                     Fld(<<"made", "at">>, Named("Stamp"), <<ArgD(<<"in", "zone">>, Named("Zone"), "in_zone", [k |-> "str", v |-> "1e3"])>>, "made_at", "", "") >>],
    [k |-> "scalar", name |-> "Zone", impl |-> "plain"],
    \* a custom scalar realised as an instance of an application SUBCLASS of ScalarType that overrides serialize (impl = "subclass"):
    \* no operation targets it, so its class and behaviour are preserved
    [k |-> "scalar", name |-> "Stamp", impl |-> "subclass"],
    \* a user type whose name starts with a single underscore (only names starting with two are reserved)
    \* its description is the marker IDEO2: two lines that both start with U+3000 (expanded by the harness)
    [k |-> "object", name |-> "_Meta", ifaces |-> <<>>, desc |-> "IDEO2", dres |-> "", rt |-> "",
       fields |-> << Fld(<<"meta", "info">>, Named("String"), <<>>, "meta_info", "", ""), Fld(<<"top", "level">>, Named("Level"), <<>>, "top_level", "r_top", ""),
                     \* the shortest legal name: a single underscore (one word in every spelling)
                     Fld(<<"_">>, Named("Int"), <<>>, "_", "", "") >>],
    [k |-> "interface", name |-> "Node", ifaces |-> <<>>, desc |-> "", dres |-> "", rt |-> "rt_node",
       fields |-> << Fld(<<"node", "id">>, Named("ID"), <<>>, "node_id", "", "") >>],
    [k |-> "object", name |-> "Item", ifaces |-> <<"Node">>, desc |-> "an item", dres |-> "dr_item", rt |-> "",
       fields |-> << Fld(<<"node", "id">>, Named("ID"), <<>>, "node_id", "", ""), Fld(<<"owner">>, Named("Person"), <<>>, "owner", "r_owner", ""),
                     Fld(<<"item", "level">>, NN(Named("Level")), <<>>, "item_level", "", "") >>],
    \* its description is the marker BSLASH: a single line that ENDS WITH A BACKSLASH (expanded by the harness)
    [k |-> "object", name |-> "Person", ifaces |-> <<"Node">>, desc |-> "BSLASH", dres |-> "", rt |-> "",
       fields |-> << Fld(<<"node", "id">>, Named("ID"), <<>>, "node_id", "", ""), Fld(<<"full", "name">>, Named("String"), <<>>, "full_name", "", "") >>],
    [k |-> "union", name |-> "U", members |-> <<"Item", "Person">>, desc |-> "either", rt |-> "rt_u"],
    [k |-> "enum", name |-> "Level", values |-> << [name |-> "LOW", dep |-> ""], [name |-> "HIGH", dep |-> "too high"] >>, desc |-> ""],
    [k |-> "input", name |-> "Filter", desc |-> "",
       fields |-> << ArgD(<<"min", "size">>, Named("Int"), "min_size", [k |-> "int", v |-> "1"]), Arg(<<"tags">>, ListOf(Named("String")), "tags"),
                     Arg(<<"min", "level">>, Named("Level"), "min_level"), ArgD(<<"only", "tag">>, Named("String"), "only_tag", NoDef) >>],
    [k |-> "input", name |-> "Page", desc |-> "",
       fields |-> << Arg(<<"page", "size">>, Named("Int"), "page_size"), Arg(<<"sort", "order">>, Named("String"), "sort_order") >>],
    [k |-> "object", name |-> "Sub", ifaces |-> <<>>, desc |-> "", dres |-> "", rt |-> "",
       \* a subscription field (resolver id r_sub: the harness also installs the subscription resolver sub_r_sub) WITH an argument:
       \* transforms that rewrite the argument rebuild the field and must keep both resolvers
       fields |-> << Fld(<<"item", "added">>, Named("Item"), <<Arg(<<"min", "level">>, Named("Level"), "min_level")>>, "item_added", "r_sub", "") >>] >>,
  \* a directive argument typed by a user-defined enum: its type reference must be the registered object in every schema
  directives |-> << [name |-> "my_dir", locs |-> <<"FIELD">>, args |-> <<Arg(<<"some", "arg">>, Named("Int"), "some_arg"),
                                                                           Arg(<<"at", "level">>, Named("Level"), "at_level")>>] >>]

RECURSIVE Inner(_)
Inner(t) == IF t.k = "named" THEN t.n ELSE Inner(t.of)
HasFields(t) == t.k \in {"object", "interface", "input"}
TypeNames(s) == {s.types[i].name : i \in 1..Len(s.types)}
Builtin == {"Int", "Float", "String", "Boolean", "ID"}
Known(s, n) == n \in Builtin \/ n \in TypeNames(s)

\* ---- visibility ---------------------------------------------------------------------------------------------------
Preds == { [p |-> "type", t |-> "Person", f |-> <<>>], [p |-> "type", t |-> "Level", f |-> <<>>], [p |-> "type", t |-> "Filter", f |-> <<>>],
           [p |-> "type", t |-> "U", f |-> <<>>], [p |-> "type", t |-> "Node", f |-> <<>>], [p |-> "type", t |-> "Sub", f |-> <<>>],
           [p |-> "field", t |-> "Query", f |-> <<"find", "items">>], [p |-> "field", t |-> "Item", f |-> <<"owner">>],
           [p |-> "field", t |-> "Node", f |-> <<"node", "id">>],
           \* "fields": every field of the type whose FIRST word is f[1] - two ADJACENT fields of Query (find_items, find_any below)
           [p |-> "fields", t |-> "Query", f |-> <<"find">>],
           [p |-> "input", t |-> "Filter", f |-> <<"min", "size">>], [p |-> "directive", t |-> "my_dir", f |-> <<>>],
           \* an input field that a DEFAULT VALUE mentions (Query.find_items(page_opts: Page = {page_size: 5, sort_order: "asc"})): the
           \* stored default is untouched, what printing and introspection show of it follows the narrowed type
           [p |-> "input", t |-> "Page", f |-> <<"sort", "order">>] }
HiddenType(p, n) == p.p = "type" /\ p.t = n
\* closure: an element whose type is hidden disappears too
FieldVisible(p, tn, fl) == ~(p.p = "field" /\ p.t = tn /\ p.f = fl.w) /\ ~(p.p = "fields" /\ p.t = tn /\ fl.w[1] = p.f[1]) /\ ~HiddenType(p, Inner(fl.type))
ArgVisible(p, a) == ~HiddenType(p, Inner(a.type))
InputVisible(p, tn, a) == ~(p.p = "input" /\ p.t = tn /\ p.f = a.w) /\ ~HiddenType(p, Inner(a.type))
HideType(p, t) ==
  CASE t.k \in {"object", "interface"} ->
         [t EXCEPT !.fields = [i \in 1..Len(SelectSeq(t.fields, LAMBDA fl : FieldVisible(p, t.name, fl))) |->
                                  LET fl == SelectSeq(t.fields, LAMBDA x : FieldVisible(p, t.name, x))[i]
                                  IN [fl EXCEPT !.args = SelectSeq(@, LAMBDA a : ArgVisible(p, a))]],
                   !.ifaces = IF t.k = "object" THEN SelectSeq(@, LAMBDA n : ~HiddenType(p, n)) ELSE @]
    [] t.k = "union" -> [t EXCEPT !.members = SelectSeq(@, LAMBDA n : ~HiddenType(p, n))]
    [] t.k = "input" -> [t EXCEPT !.fields = SelectSeq(@, LAMBDA a : InputVisible(p, t.name, a))]
    [] OTHER -> t
Hide(s, p) == [s EXCEPT !.subscription = IF HiddenType(p, @) THEN "" ELSE @,      \* a hidden root type is no longer a root
                        !.mutation = IF HiddenType(p, @) THEN "" ELSE @,
                        !.types = [i \in 1..Len(SelectSeq(s.types, LAMBDA t : ~HiddenType(p, t.name))) |->
                                      HideType(p, SelectSeq(s.types, LAMBDA t : ~HiddenType(p, t.name))[i])],
                        !.directives = SelectSeq([i \in 1..Len(@) |-> [@[i] EXCEPT !.args = SelectSeq(@, LAMBDA a : ArgVisible(p, a))]],
                                                 LAMBDA d : ~(p.p = "directive" /\ p.t = d.name))]
\* a predicate is applicable when it leaves a valid schema (non-empty types, query root present)
RECURSIVE AllNonEmpty(_)
AllNonEmpty(ts) == \A i \in 1..Len(ts) : (ts[i].k \in {"object", "interface", "input"} => ts[i].fields # <<>>) /\ (ts[i].k = "union" => ts[i].members # <<>>)
Applicable(s, p) == LET h == Hide(s, p) IN
   /\ AllNonEmpty(h.types) /\ h.query \in TypeNames(h) /\ (h.subscription = "" \/ h.subscription \in TypeNames(h))
   /\ (p.p = "type" => p.t \in TypeNames(s))
   /\ (p.p \in {"field", "input"} => \E i \in 1..Len(s.types) : s.types[i].name = p.t /\ HasFields(s.types[i]) /\ \E j \in 1..Len(s.types[i].fields) : s.types[i].fields[j].w = p.f)
   /\ (p.p = "directive" => \E i \in 1..Len(s.directives) : s.directives[i].name = p.t)
   \* every object still implements the fields of its remaining interfaces
   /\ \A i \in 1..Len(h.types) : h.types[i].k = "object" => \A m \in 1..Len(h.types[i].ifaces) :
         \E j \in 1..Len(h.types) : h.types[j].name = h.types[i].ifaces[m] /\
            \A f \in 1..Len(h.types[j].fields) : \E g \in 1..Len(h.types[i].fields) : h.types[i].fields[g].w = h.types[j].fields[f].w

\* ---- extension menu ---------------------------------------------------------------------------------------------------
Exts == { [x |-> "query-field", target |-> "Query"], [x |-> "enum-value", target |-> "Level"], [x |-> "new-type", target |-> ""],
          [x |-> "input-field", target |-> "Filter"], [x |-> "union-member", target |-> "U"] }
TIdx(s, n) == CHOOSE i \in 1..Len(s.types) : s.types[i].name = n
NewObj == [k |-> "object", name |-> "Extra", ifaces |-> <<>>, desc |-> "", dres |-> "", rt |-> "",
           fields |-> << Fld(<<"extra", "value">>, Named("Int"), <<>>, "extra_value", "", "") >>]
ExtApplicable(s, x) == (x.target = "" \/ x.target \in TypeNames(s)) /\ "Extra" \notin TypeNames(s)
                       /\ (x.x = "union-member" => "Sub" \in TypeNames(s) /\ (\A m \in 1..Len(s.types[TIdx(s, "U")].members) : s.types[TIdx(s, "U")].members[m] # "Sub"))
                       /\ (\A i \in 1..Len(s.types) : (HasFields(s.types[i]) /\ s.types[i].name = x.target) =>
                             (\A j \in 1..Len(s.types[i].fields) : s.types[i].fields[j].w \notin {<<"added", "field">>, <<"max", "size">>}))
                       /\ (x.x = "enum-value" => (\A v \in 1..Len(s.types[TIdx(s, "Level")].values) : s.types[TIdx(s, "Level")].values[v].name # "MID"))
\* names written in an extension document follow the spelling of the schema they extend; the python name of a new element is
\* the name AS WRITTEN at that moment: marker "@snake" / "@camel" (resolved by the harness), and stays so under later transforms
Written(s) == IF s.camel THEN "@camel" ELSE "@snake"
Extend(s, x) ==
  CASE x.x = "query-field" -> [s EXCEPT !.types[TIdx(s, "Query")].fields = Append(@, [Fld(<<"added", "field">>, Named("Int"), <<>>, Written(s), "", "") EXCEPT !.desc = ""])]
    [] x.x = "enum-value" -> [s EXCEPT !.types[TIdx(s, "Level")].values = Append(@, [name |-> "MID", dep |-> ""])]
    [] x.x = "new-type" -> [s EXCEPT !.types = Append(@, [NewObj EXCEPT !.fields[1].py = Written(s), !.fields[1].desc = ""])]
    [] x.x = "input-field" -> [s EXCEPT !.types[TIdx(s, "Filter")].fields = Append(@, Arg(<<"max", "size">>, Named("Int"), Written(s)))]
    [] x.x = "union-member" -> [s EXCEPT !.types[TIdx(s, "U")].members = Append(@, "Sub")]

\* ---- the store --------------------------------------------------------------------------------------------------------
VARIABLES schemas, hist
vars == <<schemas, hist>>
Init == schemas = <<Base>> /\ hist = <<>>
N == Len(schemas)
Can == Len(hist) < MaxOps
Derive(op, src, arg, val) == /\ schemas' = Append(schemas, val)
                             /\ hist' = Append(hist, [op |-> op, src |-> src, new |-> N + 1, arg |-> arg])
Clone == Can /\ \E src \in 1..N : Derive("clone", src, [p |-> "", t |-> "", f |-> <<>>], schemas[src])
Camel == Can /\ \E src \in 1..N : Derive("camel", src, [p |-> "", t |-> "", f |-> <<>>], [schemas[src] EXCEPT !.camel = TRUE])
HideA == Can /\ \E src \in 1..N : \E p \in Preds : Applicable(schemas[src], p) /\ Derive("hide", src, p, Hide(schemas[src], p))
ExtendA == Can /\ \E src \in 1..N : \E x \in Exts : ExtApplicable(schemas[src], x)
              /\ Derive("extend", src, [p |-> x.x, t |-> x.target, f |-> <<>>], Extend(schemas[src], x))
Observe == Can /\ \E src \in 1..N : \E o \in {"print", "query"} :
              /\ hist' = Append(hist, [op |-> o, src |-> src, new |-> 0, arg |-> [p |-> "", t |-> "", f |-> <<>>]]) /\ UNCHANGED schemas
Next == Clone \/ Camel \/ HideA \/ ExtendA \/ Observe
Spec == Init /\ [][Next]_vars

\* ---- properties of the design ---------------------------------------------------------------------------------------------
\* value semantics: deriving never changes an existing schema (action property)
SourcesIntact == [][\A j \in 1..Len(schemas) : schemas'[j] = schemas[j]]_vars
\* every schema in the store is closed: all referenced type names are defined
Closed(s) == \A i \in 1..Len(s.types) :
   /\ (HasFields(s.types[i]) => \A j \in 1..Len(s.types[i].fields) :
          /\ Known(s, Inner(s.types[i].fields[j].type))
          /\ (s.types[i].k # "input" => \A a \in 1..Len(s.types[i].fields[j].args) : Known(s, Inner(s.types[i].fields[j].args[a].type))))
   /\ (s.types[i].k = "object" => \A m \in 1..Len(s.types[i].ifaces) : s.types[i].ifaces[m] \in TypeNames(s))
   /\ (s.types[i].k = "union" => \A m \in 1..Len(s.types[i].members) : s.types[i].members[m] \in TypeNames(s))
AllClosed == \A j \in 1..Len(schemas) : Closed(schemas[j])
Emit == Len(hist) = MaxOps => PrintT("SEQ " \o ToJson([hist |-> hist, schemas |-> schemas]))
=============================================================================
