---------------------------- MODULE GqlSelected ----------------------------
(* Supplementary (beyond the twenty listed properties): utilities.selected_fields / ResolveInfo.selected_fields.

   "Extract a list of field paths from an object field and provided fragments": for a field node, the paths (field NAMES joined
   by "/") of everything selected below it, to a maximal depth (0 = unlimited), fragments flattened without regard to type
   conditions (the helper is untyped), @skip / @include honoured, fields that share a response key MERGED (their sub-selections
   are selected together, as execution would do).  Judge mode over the abstract documents of GqlValidate: for every top-level
   field of the first operation that has a sub-selection the expected path list for maxdepth 0..3.                       *)
EXTENDS GqlValidate
RECURSIVE UC(_, _, _)
\* untyped CollectFields with the visited-fragment set threaded through the selection list: [es |-> field nodes in order, seen]
UC(d, sel, seen) ==
  IF sel = <<>> THEN [es |-> <<>>, seen |-> seen]
  ELSE LET s == Head(sel)
           here == CASE ~Kept(s) -> [es |-> <<>>, seen |-> seen]
                     [] s.k = "field" -> [es |-> <<s>>, seen |-> seen]
                     [] s.k = "inline" -> UC(d, s.sel, seen)
                     [] s.k = "spread" -> IF s.name \in seen \/ s.name \notin FragNames(d) THEN [es |-> <<>>, seen |-> seen]
                                          ELSE LET r == UC(d, Frag(d, s.name).sel, seen) IN [es |-> r.es, seen |-> r.seen \cup {s.name}]
           rest == UC(d, Tail(sel), here.seen)
       IN [es |-> here.es \o rest.es, seen |-> rest.seen]
RECURSIVE Paths(_, _, _, _, _)
Paths(d, sel, prefix, depth, maxdepth) ==
  LET fs == UC(d, sel, {}).es
      idxs == SelectSeq([n \in 1..Len(fs) |-> n], LAMBDA n : \A j \in 1..(n-1) : RKey(fs[j]) # RKey(fs[n]))
  IN FlattenSeq([n \in 1..Len(idxs) |->
        LET f == fs[idxs[n]]
            group == SelectSeq(fs, LAMBDA g : RKey(g) = RKey(f))
            path == IF prefix = "" THEN f.name ELSE prefix \o "/" \o f.name
            sub == FlattenSeq([m \in 1..Len(group) |-> group[m].sel])
        IN <<path>> \o (IF sub # <<>> /\ (maxdepth = 0 \/ depth < maxdepth - 1) /\ depth < 6 THEN Paths(d, sub, path, depth + 1, maxdepth) ELSE <<>>)])
Tops(d) == LET os == Ops(d) IN IF os = <<>> THEN <<>> ELSE SelectSeq(os[1].sel, LAMBDA s : s.k = "field" /\ s.hasSel)
Expected(d) == IF ~R_NoFragmentCycles(d) THEN <<>>
               ELSE [n \in 1..Len(Tops(d)) |-> [m \in 1..4 |-> Paths(d, Tops(d)[n].sel, "", 0, m - 1)]]     \* maxdepth 0, 1, 2, 3
VARIABLE j
SInit == j \in 1..Len(Cases) /\ i = 0
SNext == FALSE /\ UNCHANGED <<i, j>>
SSpec == SInit /\ [][SNext]_<<i, j>>
Valid(d) == LET v == Verdict(d) IN \A r \in DOMAIN v : v[r]         \* the helper documents that it expects validated documents
SOut == PrintT("SEL " \o ToJson([id |-> j, e |-> IF Valid(Cases[j]) THEN Expected(Cases[j]) ELSE <<>>]))
=============================================================================
