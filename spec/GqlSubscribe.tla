---------------------------- MODULE GqlSubscribe ----------------------------
(* C17: CreateSourceEventStream / MapSourceToResponseEvent as a pull-driven state machine.

   Set-ups: ok-sync / ok-async (synchronous or asynchronous subscription resolver) create the stream; the four refusal
   set-ups must be refused BEFORE any source event is consumed:
     multi-root        two root fields (written directly or reached through a fragment)
     no-sub-resolver   the root field has no subscription resolver
     not-subscription  the selected operation is a query
     no-stream-runtime the runtime has no stream support
   Source events: evs[k] = [ty, a, b]   (root value of the k-th execution of  subscription { ev { a b x } })
     ty in {"T1","T2"}: concrete type of the event object behind the interface; field x(arg) has a type-specific default, so
                        x must be 1 for T1 and 2 for T2 whatever came before (no carry-over between events)
     a  in val | null | err (library resolver error) | crash (unexpected exception: the pull for this event raises)
     b  in val | nullnn (null in a non-null position: null + one error)
   Actions: Subscribe; Produce (the source makes the next event / its end available - at any time relative to the consumer);
            Pull (the single consumer asks for the next result); Deliver (pulled event reaches the mapping: fields a, b
            become pending); FieldDone(f) (deferred field resolvers complete in any order); Yield (result k is delivered,
            or raised when a = crash); End (source exhausted and pulled).                                            *)
EXTENDS Naturals, Sequences, FiniteSets, TLC, Json
CONSTANTS MaxEvents, Setups
AOut == {"val", "null", "err", "crash"}
BOut == {"val", "nullnn"}
Event == [ty : {"T1", "T2"}, a : AOut, b : BOut]
VARIABLES setup, evs, phase, avail, closed, pulled, delivered, fdone, yielded, log
vars == <<setup, evs, phase, avail, closed, pulled, delivered, fdone, yielded, log>>
N == Len(evs)
Init == /\ setup \in Setups
        /\ evs \in UNION {[1..n -> Event] : n \in 0..MaxEvents}
        /\ phase = "new" /\ avail = 0 /\ closed = FALSE /\ pulled = 0 /\ delivered = 0 /\ fdone = {} /\ yielded = 0 /\ log = <<>>
Creates == setup \in {"ok-sync", "ok-async"}
Subscribe == /\ phase = "new"
             /\ IF Creates THEN phase' = "open" /\ log' = Append(log, [a |-> "subscribed", k |-> 0, f |-> ""])
                ELSE phase' = "refused" /\ log' = Append(log, [a |-> "refused", k |-> 0, f |-> ""])
             /\ UNCHANGED <<setup, evs, avail, closed, pulled, delivered, fdone, yielded>>
\* the source makes its next item available (an event, or the end of the stream)
Produce == /\ phase \in {"new", "open"} /\ Creates /\ ~closed
           /\ IF avail < N THEN avail' = avail + 1 /\ closed' = closed ELSE closed' = TRUE /\ avail' = avail
           /\ log' = Append(log, [a |-> "produce", k |-> (IF avail < N THEN avail + 1 ELSE 0), f |-> ""])
           /\ UNCHANGED <<setup, evs, phase, pulled, delivered, fdone, yielded>>
Pull == /\ phase = "open" /\ pulled = yielded
        /\ pulled' = pulled + 1 /\ log' = Append(log, [a |-> "pull", k |-> pulled + 1, f |-> ""])
        /\ UNCHANGED <<setup, evs, phase, avail, closed, delivered, fdone, yielded>>
Deliver == /\ phase = "open" /\ pulled > delivered /\ avail > delivered
           /\ delivered' = delivered + 1 /\ fdone' = {}
           /\ log' = Append(log, [a |-> "deliver", k |-> delivered + 1, f |-> ""])
           /\ UNCHANGED <<setup, evs, phase, avail, closed, pulled, yielded>>
InFlight == delivered > yielded
Crashed == InFlight /\ evs[delivered].a = "crash" /\ "a" \in fdone
FieldDone(f) == /\ phase = "open" /\ InFlight /\ f \notin fdone /\ ~Crashed
                /\ fdone' = fdone \cup {f}
                /\ log' = Append(log, [a |-> "field", k |-> delivered, f |-> f])
                /\ UNCHANGED <<setup, evs, phase, avail, closed, pulled, delivered, yielded>>
\* an unexpected exception in field a ends the processing of the event at once (asyncio.gather propagates the first exception)
Yield == /\ phase = "open" /\ InFlight /\ (fdone = {"a", "b"} \/ (evs[delivered].a = "crash" /\ "a" \in fdone))
         /\ yielded' = yielded + 1
         /\ log' = Append(log, [a |-> (IF evs[delivered].a = "crash" THEN "raise" ELSE "yield"), k |-> delivered, f |-> ""])
         /\ UNCHANGED <<setup, evs, phase, avail, closed, pulled, delivered, fdone>>
End == /\ phase = "open" /\ pulled > delivered /\ delivered = N /\ closed
       /\ phase' = "ended" /\ yielded' = yielded + 1
       /\ log' = Append(log, [a |-> "end", k |-> 0, f |-> ""])
       /\ UNCHANGED <<setup, evs, avail, closed, pulled, delivered, fdone>>
Next == Subscribe \/ Produce \/ Pull \/ Deliver \/ (\E f \in {"a", "b"} : FieldDone(f)) \/ Yield \/ End
Spec == Init /\ [][Next]_vars
FairSpec == Spec /\ WF_vars(Next)

\* ---- reference result of event k (a function of event k ALONE) ----------------------------------------------------
Data(e) == [ty |-> e.ty, a |-> (IF e.a = "val" THEN "val" ELSE "null"), b |-> (IF e.b = "val" THEN "val" ELSE "null"),
            x |-> (IF e.ty = "T1" THEN 1 ELSE 2)]
Errs(e) == (IF e.a = "err" THEN {"a"} ELSE {}) \cup (IF e.b = "nullnn" THEN {"b"} ELSE {})
Results == [k \in 1..N |-> [raises |-> evs[k].a = "crash", data |-> Data(evs[k]), errs |-> Errs(evs[k])]]

\* ---- properties of the design --------------------------------------------------------------------------------------
Done == phase \in {"ended", "refused"}
OnePerEvent == phase = "ended" => delivered = N /\ yielded = N + 1
NoConsumeBeforeRefusal == phase = "refused" => delivered = 0 /\ pulled = 0
Yields == {i \in 1..Len(log) : log[i].a \in {"yield", "raise"}}
InOrder == \A i \in Yields : log[i].k = Cardinality({j \in Yields : j <= i})
EndOnlyAtSourceEnd == phase = "ended" => closed
Terminates == (phase = "open") ~> (phase = "ended")
Emit == Done => PrintT("SUB " \o ToJson([setup |-> setup, evs |-> evs, log |-> log, results |-> Results]))
=============================================================================
