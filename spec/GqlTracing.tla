---------------------------- MODULE GqlTracing ----------------------------
(* Supplementary (beyond the twenty listed properties): the Apollo-tracing extension (py_gql.tracers.ApolloTracer) reports the
   request it observed.  Trace judge in the style of GqlHooks / GqlResponse: one case = what a recording instrumentation saw
   (the hook events of the request, stacked next to the tracer) and the summary of the tracer's payload.

   Case record: [events (seq of [e, p]: stage hooks qs qe ps pe vs ve es ee and field hooks fs fe with response path p),
                 parsing, validation, execution (BOOLEAN: the payload has that section),
                 resolvers (seq of [p, start, dur]: path, start offset and duration in ns, as listed in the payload),
                 total (duration of the request in ns, -1 when missing), jsonOk]
   Clauses: a section is present exactly when its stage started; the resolvers are the fields whose start hook fired, once
   each, in the order they started; every duration and offset is a non-negative number and no resolver lies outside the
   request; the payload is strict JSON.                                                                               *)
EXTENDS Naturals, Integers, Sequences, FiniteSets, TLC, Json, IOUtils
Cases == JsonDeserialize(IOEnv.TRACE_FILE)
Started(c, e) == \E k \in 1..Len(c.events) : c.events[k].e = e
FieldStarts(c) == SelectSeq(c.events, LAMBDA ev : ev.e = "fs")
Clauses(c) ==
   (IF ~c.jsonOk THEN {"payload-not-strict-json"} ELSE {})
   \cup (IF c.parsing # Started(c, "ps") THEN {"parsing-section-does-not-follow-the-stage"} ELSE {})
   \cup (IF c.validation # Started(c, "vs") THEN {"validation-section-does-not-follow-the-stage"} ELSE {})
   \cup (IF c.execution # (FieldStarts(c) # <<>>) THEN {"execution-section-does-not-follow-the-fields"} ELSE {})
   \cup (IF c.execution /\ [k \in 1..Len(c.resolvers) |-> c.resolvers[k].p] # [k \in 1..Len(FieldStarts(c)) |-> FieldStarts(c)[k].p]
         THEN {"resolvers-are-not-the-started-fields-in-order"} ELSE {})
   \cup (IF \E k \in 1..Len(c.resolvers) : c.resolvers[k].start < 0 \/ c.resolvers[k].dur < 0 THEN {"negative-offset-or-duration"} ELSE {})
   \cup (IF c.total < 0 THEN {"request-duration-missing-or-negative"} ELSE {})
   \cup (IF c.total >= 0 /\ \E k \in 1..Len(c.resolvers) : c.resolvers[k].start + c.resolvers[k].dur > c.total THEN {"resolver-outside-the-request"} ELSE {})
VARIABLE i
Init == i \in 1..Len(Cases)
Next == FALSE /\ UNCHANGED i
Spec == Init /\ [][Next]_i
Verdict == PrintT("TRC " \o ToJson([i |-> i, v |-> Clauses(Cases[i])]))
=============================================================================
