---------------------------- MODULE GqlResolverMap ----------------------------
(* Supplementary (beyond the twenty listed properties): ResolverMap, the registry of resolvers that Schema inherits.

   State: two maps m \in {1, 2}; each holds field resolvers res[t, f], subscription resolvers sub[t, f], per-type default
   resolvers def[t] and a global default gdef, all as resolver ids ("" = none).
   Operations (one action each, as documented in src/py_gql/schema/resolver_map.py):
     Reg(m, t, f, r, ov)     register_resolver:       ValueError when res[t, f] is set and not allow_override, else set
     RegStar(m, t, r, ov)    register_resolver(t, "*"): the per-type default, same override rule
     RegDef(m, t, r, ov)     register_default_resolver
     RegSub(m, t, f, r, ov)  register_subscription
     SetG(m, r)              default_resolver = r
     Merge(m, ov)            merge_resolvers(other): everything the other map holds is registered into m under the same override
                             rule ("Combine 2 collections by merging the target into the current instance"); on a conflict without
                             allow_override a ValueError is raised and the sequence ends (the partial state is not specified)
   Observers after every operation (part of the replay, not actions): get_resolver(t, f) = res[t, f], else def[t], else gdef;
   get_subscription(t, f) = sub[t, f].
   R1: Lookup never returns a resolver that was not registered (NoInvention), override is the only way to replace (Monotone). *)
EXTENDS Naturals, Sequences, FiniteSets, TLC, Json
CONSTANT MaxOps
Types == {"T", "U"}
Fields == {"f", "g"}
Rs == {"r1", "r2"}
Empty == [res |-> [p \in Types \X Fields |-> ""], sub |-> [p \in Types \X Fields |-> ""], def |-> [t \in Types |-> ""], gdef |-> ""]
VARIABLES maps, hist, dead
vars == <<maps, hist, dead>>
Init == maps = [m \in {1, 2} |-> Empty] /\ hist = <<>> /\ dead = FALSE
Can == ~dead /\ Len(hist) < MaxOps
Log(op, ok) == hist' = Append(hist, [op |-> op.op, m |-> op.m, t |-> op.t, f |-> op.f, r |-> op.r, ov |-> op.ov, ok |-> ok])
Op(o, m, t, f, r, ov) == [op |-> o, m |-> m, t |-> t, f |-> f, r |-> r, ov |-> ov]
Reg(m, t, f, r, ov) == /\ Can
   /\ LET ok == maps[m].res[<<t, f>>] = "" \/ ov IN
      /\ maps' = IF ok THEN [maps EXCEPT ![m].res[<<t, f>>] = r] ELSE maps
      /\ Log(Op("reg", m, t, f, r, ov), ok) /\ UNCHANGED dead
RegDefLike(o, m, t, r, ov) == /\ Can
   /\ LET ok == maps[m].def[t] = "" \/ ov IN
      /\ maps' = IF ok THEN [maps EXCEPT ![m].def[t] = r] ELSE maps
      /\ Log(Op(o, m, t, "", r, ov), ok) /\ UNCHANGED dead
RegSub(m, t, f, r, ov) == /\ Can
   /\ LET ok == maps[m].sub[<<t, f>>] = "" \/ ov IN
      /\ maps' = IF ok THEN [maps EXCEPT ![m].sub[<<t, f>>] = r] ELSE maps
      /\ Log(Op("sub", m, t, f, r, ov), ok) /\ UNCHANGED dead
SetG(m, r) == /\ Can /\ maps' = [maps EXCEPT ![m].gdef = r] /\ Log(Op("setg", m, "", "", r, FALSE), TRUE) /\ UNCHANGED dead
Other(m) == 3 - m
Conflict(a, b) == \/ \E p \in Types \X Fields : (a.res[p] # "" /\ b.res[p] # "") \/ (a.sub[p] # "" /\ b.sub[p] # "")
                  \/ \E t \in Types : a.def[t] # "" /\ b.def[t] # ""
Over(a, b) == IF b = "" THEN a ELSE b
Merged(a, b) == [res |-> [p \in Types \X Fields |-> Over(a.res[p], b.res[p])], sub |-> [p \in Types \X Fields |-> Over(a.sub[p], b.sub[p])],
                 def |-> [t \in Types |-> Over(a.def[t], b.def[t])], gdef |-> a.gdef]
Merge(m, ov) == /\ Can
   /\ LET ok == ov \/ ~Conflict(maps[m], maps[Other(m)]) IN
      /\ maps' = IF ok THEN [maps EXCEPT ![m] = Merged(maps[m], maps[Other(m)])] ELSE maps
      /\ dead' = ~ok
      /\ Log(Op("merge", m, "", "", "", ov), ok)
Next == \E m \in {1, 2}, t \in Types, f \in Fields, r \in Rs, ov \in BOOLEAN :
           \/ Reg(m, t, f, r, ov) \/ RegDefLike("star", m, t, r, ov) \/ RegDefLike("def", m, t, r, ov) \/ RegSub(m, t, f, r, ov) \/ SetG(m, r) \/ Merge(m, ov)
Spec == Init /\ [][Next]_vars
Lookup(mp, t, f) == IF mp.res[<<t, f>>] # "" THEN mp.res[<<t, f>>] ELSE IF mp.def[t] # "" THEN mp.def[t] ELSE mp.gdef
View(mp) == [get |-> [t \in Types |-> [f \in Fields |-> Lookup(mp, t, f)]], sub |-> [t \in Types |-> [f \in Fields |-> mp.sub[<<t, f>>]]]]
Emit == (Len(hist) = MaxOps \/ dead) => PrintT("RMP " \o ToJson([hist |-> hist, dead |-> dead, final |-> [m \in {1, 2} |-> View(maps[m])]]))
\* R1
Registered == {hist[i].r : i \in 1..Len(hist)} \cup {""}
NoInvention == \A m \in {1, 2}, t \in Types, f \in Fields : Lookup(maps[m], t, f) \in Registered /\ maps[m].sub[<<t, f>>] \in Registered
Monotone == [][\A m \in {1, 2}, p \in Types \X Fields :
                 (maps[m].res[p] # "" /\ maps'[m].res[p] # maps[m].res[p]) => hist'[Len(hist')].ov]_vars
=============================================================================
