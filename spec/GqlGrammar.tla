---------------------------- MODULE GqlGrammar ----------------------------
(* June-2018 GraphQL grammar as data + nondeterministic predictive stack machine.
   Symbols: T(terminal)  N(nonterminal)  Opt(s) Plus(s) Star(s)  and node markers.
   Node(kind, rhs): derivation of rhs is wrapped in enter/leave events of AST kind `kind`.
   Flags: TS (type-system definitions allowed), FV (fragment variables). *)
EXTENDS Naturals, Sequences, TLC
T(x) == <<"T", x>>
N(x) == <<"N", x>>
Opt(s) == <<"Opt", s>>
Plus(s) == <<"Plus", s>>
Star(s) == <<"Star", s>>
Node(kind, rhs) == <<"Node", kind, rhs>>      \* rhs: sequence of symbols
\* Ban(x): the next token must not be x.  Resolves the June-2018 ambiguity "type A" + "{ a }" the way the
\* October-2021 text does ([lookahead != `{`] after a definition/extension that omits its optional body).
Ban(x) == <<"Ban", x>>

Name == Node("Name", <<T("name")>>)
NamedType == Node("NamedType", <<Name>>)
FragName == Node("Name", <<T("fragname")>>)

Prods(n, TS, FV) ==
  CASE n = "Document" -> << <<Node("Document", <<Plus(N("Definition"))>>)>> >>
    [] n = "Definition" -> IF TS THEN << <<N("OperationDefinition")>>, <<N("FragmentDefinition")>>, <<N("TypeSystemDefinition")>>, <<N("TypeSystemExtension")>> >>
                                 ELSE << <<N("OperationDefinition")>>, <<N("FragmentDefinition")>> >>
    [] n = "OperationDefinition" -> <<
          <<Node("OperationDefinition", <<N("SelectionSet")>>)>>,
          <<Node("OperationDefinition", <<N("OperationType"), Opt(Name), Opt(N("VariableDefinitions")), Star(N("Directive")), N("SelectionSet")>>)>> >>
    [] n = "OperationType" -> << <<T("query")>>, <<T("mutation")>>, <<T("subscription")>> >>
    [] n = "SelectionSet" -> << <<Node("SelectionSet", <<T("{"), Plus(N("Selection")), T("}")>>)>> >>
    [] n = "Selection" -> << <<N("Field")>>, <<N("FragmentSpread")>>, <<N("InlineFragment")>> >>
    [] n = "Field" -> << <<Node("Field", <<Opt(N("Alias")), Name, Opt(N("Arguments")), Star(N("Directive")), Opt(N("SelectionSet"))>>)>> >>
    [] n = "Alias" -> << <<Name, T(":")>> >>
    [] n = "Arguments" -> << <<T("("), Plus(N("Argument")), T(")")>> >>
    [] n = "ArgumentsC" -> << <<T("("), Plus(N("ArgumentC")), T(")")>> >>
    [] n = "Argument" -> << <<Node("Argument", <<Name, T(":"), N("Value")>>)>> >>
    [] n = "ArgumentC" -> << <<Node("Argument", <<Name, T(":"), N("ValueC")>>)>> >>
    [] n = "FragmentSpread" -> << <<Node("FragmentSpread", <<T("..."), FragName, Star(N("Directive"))>>)>> >>
    [] n = "InlineFragment" -> << <<Node("InlineFragment", <<T("..."), Opt(N("TypeCondition")), Star(N("Directive")), N("SelectionSet")>>)>> >>
    [] n = "FragmentDefinition" -> IF FV
          THEN << <<Node("FragmentDefinition", <<T("fragment"), FragName, Opt(N("VariableDefinitions")), N("TypeCondition"), Star(N("Directive")), N("SelectionSet")>>)>> >>
          ELSE << <<Node("FragmentDefinition", <<T("fragment"), FragName, N("TypeCondition"), Star(N("Directive")), N("SelectionSet")>>)>> >>
    [] n = "TypeCondition" -> << <<T("on"), NamedType>> >>
    [] n = "Value" -> << <<N("Variable")>>, <<N("Scalar")>>, <<Node("ListValue", <<T("["), Star(N("Value")), T("]")>>)>>,
                         <<Node("ObjectValue", <<T("{"), Star(N("ObjectField")), T("}")>>)>> >>
    [] n = "ValueC" -> << <<N("Scalar")>>, <<Node("ListValue", <<T("["), Star(N("ValueC")), T("]")>>)>>,
                          <<Node("ObjectValue", <<T("{"), Star(N("ObjectFieldC")), T("}")>>)>> >>
    [] n = "Scalar" -> << <<Node("IntValue", <<T("int")>>)>>, <<Node("FloatValue", <<T("float")>>)>>, <<Node("StringValue", <<T("string")>>)>>,
                          <<Node("StringValue", <<T("blockstring")>>)>>, <<Node("BooleanValue", <<T("true")>>)>>, <<Node("BooleanValue", <<T("false")>>)>>,
                          <<Node("NullValue", <<T("null")>>)>>, <<Node("EnumValue", <<T("enumname")>>)>> >>
    [] n = "ObjectField" -> << <<Node("ObjectField", <<Name, T(":"), N("Value")>>)>> >>
    [] n = "ObjectFieldC" -> << <<Node("ObjectField", <<Name, T(":"), N("ValueC")>>)>> >>
    [] n = "Variable" -> << <<Node("Variable", <<T("$"), Name>>)>> >>
    [] n = "VariableDefinitions" -> << <<T("("), Plus(N("VariableDefinition")), T(")")>> >>
    [] n = "VariableDefinition" -> << <<Node("VariableDefinition", <<N("Variable"), T(":"), N("Type"), Opt(N("DefaultValue")), Star(N("DirectiveC"))>>)>> >>
    [] n = "DefaultValue" -> << <<T("="), N("ValueC")>> >>
    [] n = "Type" -> << <<NamedType>>, <<N("ListType")>>, <<Node("NonNullType", <<NamedType, T("!")>>)>>, <<Node("NonNullType", <<N("ListType"), T("!")>>)>> >>
    [] n = "ListType" -> << <<Node("ListType", <<T("["), N("Type"), T("]")>>)>> >>
    [] n = "Directive" -> << <<Node("Directive", <<T("@"), Name, Opt(N("Arguments"))>>)>> >>
    [] n = "DirectiveC" -> << <<Node("Directive", <<T("@"), Name, Opt(N("ArgumentsC"))>>)>> >>
    \* ---------------- type system ----------------
    [] n = "TypeSystemDefinition" -> << <<N("SchemaDefinition")>>, <<N("ScalarTypeDefinition")>>, <<N("ObjectTypeDefinition")>>, <<N("InterfaceTypeDefinition")>>,
                                        <<N("UnionTypeDefinition")>>, <<N("EnumTypeDefinition")>>, <<N("InputObjectTypeDefinition")>>, <<N("DirectiveDefinition")>> >>
    [] n = "TypeSystemExtension" -> << <<N("SchemaExtension")>>, <<N("ScalarTypeExtension")>>, <<N("ObjectTypeExtension")>>, <<N("InterfaceTypeExtension")>>,
                                       <<N("UnionTypeExtension")>>, <<N("EnumTypeExtension")>>, <<N("InputObjectTypeExtension")>> >>
    [] n = "Description" -> << <<Node("StringValue", <<T("string")>>)>>, <<Node("StringValue", <<T("blockstring")>>)>> >>
    [] n = "OperationTypeDefinition" -> << <<Node("OperationTypeDefinition", <<N("OperationType"), T(":"), NamedType>>)>> >>
    [] n = "OperationTypeDefinitions" -> << <<T("{"), Plus(N("OperationTypeDefinition")), T("}")>> >>
    [] n = "SchemaDefinition" -> << <<Node("SchemaDefinition", <<T("schema"), Star(N("DirectiveC")), N("OperationTypeDefinitions")>>)>> >>
    [] n = "SchemaExtension" -> << <<Node("SchemaExtension", <<T("extend"), T("schema"), Star(N("DirectiveC")), N("OperationTypeDefinitions")>>)>>,
                                   <<Node("SchemaExtension", <<T("extend"), T("schema"), Plus(N("DirectiveC")), Ban("{")>>)>> >>
    [] n = "ScalarTypeDefinition" -> << <<Node("ScalarTypeDefinition", <<Opt(N("Description")), T("scalar"), Name, Star(N("DirectiveC"))>>)>> >>
    [] n = "ScalarTypeExtension" -> << <<Node("ScalarTypeExtension", <<T("extend"), T("scalar"), Name, Plus(N("DirectiveC")), Ban("{")>>)>> >>
    [] n = "ImplementsInterfaces" -> << <<T("implements"), Opt(T("&")), NamedType, Star(N("AmpType"))>> >>
    [] n = "AmpType" -> << <<T("&"), NamedType>> >>
    [] n = "FieldsDefinition" -> << <<T("{"), Plus(N("FieldDefinition")), T("}")>> >>
    [] n = "FieldDefinition" -> << <<Node("FieldDefinition", <<Opt(N("Description")), Name, Opt(N("ArgumentsDefinition")), T(":"), N("Type"), Star(N("DirectiveC"))>>)>> >>
    [] n = "ArgumentsDefinition" -> << <<T("("), Plus(N("InputValueDefinition")), T(")")>> >>
    [] n = "InputValueDefinition" -> << <<Node("InputValueDefinition", <<Opt(N("Description")), Name, T(":"), N("Type"), Opt(N("DefaultValue")), Star(N("DirectiveC"))>>)>> >>
    [] n = "ObjectTypeDefinition" -> << <<Node("ObjectTypeDefinition", <<Opt(N("Description")), T("type"), Name, Opt(N("ImplementsInterfaces")), Star(N("DirectiveC")), N("FieldsDefinitionOpt")>>)>> >>
    [] n = "ObjectTypeExtension" -> << <<Node("ObjectTypeExtension", <<T("extend"), T("type"), Name, Opt(N("ImplementsInterfaces")), Star(N("DirectiveC")), N("FieldsDefinition")>>)>>,
                                       <<Node("ObjectTypeExtension", <<T("extend"), T("type"), Name, Opt(N("ImplementsInterfaces")), Plus(N("DirectiveC")), Ban("{")>>)>>,
                                       <<Node("ObjectTypeExtension", <<T("extend"), T("type"), Name, N("ImplementsInterfaces"), Ban("{")>>)>> >>
    [] n = "InterfaceTypeDefinition" -> << <<Node("InterfaceTypeDefinition", <<Opt(N("Description")), T("interface"), Name, Star(N("DirectiveC")), N("FieldsDefinitionOpt")>>)>> >>
    [] n = "InterfaceTypeExtension" -> << <<Node("InterfaceTypeExtension", <<T("extend"), T("interface"), Name, Star(N("DirectiveC")), N("FieldsDefinition")>>)>>,
                                          <<Node("InterfaceTypeExtension", <<T("extend"), T("interface"), Name, Plus(N("DirectiveC")), Ban("{")>>)>> >>
    [] n = "UnionMemberTypes" -> << <<T("="), Opt(T("|")), NamedType, Star(N("PipeType"))>> >>
    [] n = "PipeType" -> << <<T("|"), NamedType>> >>
    [] n = "UnionTypeDefinition" -> << <<Node("UnionTypeDefinition", <<Opt(N("Description")), T("union"), Name, Star(N("DirectiveC")), Opt(N("UnionMemberTypes"))>>)>> >>
    [] n = "UnionTypeExtension" -> << <<Node("UnionTypeExtension", <<T("extend"), T("union"), Name, Star(N("DirectiveC")), N("UnionMemberTypes")>>)>>,
                                      <<Node("UnionTypeExtension", <<T("extend"), T("union"), Name, Plus(N("DirectiveC")), Ban("{")>>)>> >>
    [] n = "EnumValuesDefinition" -> << <<T("{"), Plus(N("EnumValueDefinition")), T("}")>> >>
    [] n = "EnumValueDefinition" -> << <<Node("EnumValueDefinition", <<Opt(N("Description")), Node("Name", <<T("enumname")>>), Star(N("DirectiveC"))>>)>> >>
    [] n = "EnumTypeDefinition" -> << <<Node("EnumTypeDefinition", <<Opt(N("Description")), T("enum"), Name, Star(N("DirectiveC")), N("EnumValuesDefinitionOpt")>>)>> >>
    [] n = "EnumTypeExtension" -> << <<Node("EnumTypeExtension", <<T("extend"), T("enum"), Name, Star(N("DirectiveC")), N("EnumValuesDefinition")>>)>>,
                                     <<Node("EnumTypeExtension", <<T("extend"), T("enum"), Name, Plus(N("DirectiveC")), Ban("{")>>)>> >>
    [] n = "InputFieldsDefinition" -> << <<T("{"), Plus(N("InputValueDefinition")), T("}")>> >>
    [] n = "InputObjectTypeDefinition" -> << <<Node("InputObjectTypeDefinition", <<Opt(N("Description")), T("input"), Name, Star(N("DirectiveC")), N("InputFieldsDefinitionOpt")>>)>> >>
    [] n = "InputObjectTypeExtension" -> << <<Node("InputObjectTypeExtension", <<T("extend"), T("input"), Name, Star(N("DirectiveC")), N("InputFieldsDefinition")>>)>>,
                                            <<Node("InputObjectTypeExtension", <<T("extend"), T("input"), Name, Plus(N("DirectiveC")), Ban("{")>>)>> >>
    [] n = "FieldsDefinitionOpt" -> << <<N("FieldsDefinition")>>, <<Ban("{")>> >>
    [] n = "EnumValuesDefinitionOpt" -> << <<N("EnumValuesDefinition")>>, <<Ban("{")>> >>
    [] n = "InputFieldsDefinitionOpt" -> << <<N("InputFieldsDefinition")>>, <<Ban("{")>> >>
    [] n = "DirectiveDefinition" -> << <<Node("DirectiveDefinition", <<Opt(N("Description")), T("directive"), T("@"), Name, Opt(N("ArgumentsDefinition")), T("on"), N("DirectiveLocations")>>)>> >>
    [] n = "DirectiveLocations" -> << <<Opt(T("|")), Node("Name", <<T("dirloc")>>), Star(N("PipeLoc"))>> >>
    [] n = "PipeLoc" -> << <<T("|"), Node("Name", <<T("dirloc")>>)>> >>

\* ---------------------------------------------------------------------------
\* Shared by the generator (GqlGrammarGen) and the judge (GqlGrammarTrace)
\* nonterminals that may derive the empty string (all others derive at least one token)
Nullable == {"FieldsDefinitionOpt", "EnumValuesDefinitionOpt", "InputFieldsDefinitionOpt"}
RECURSIVE MinLen(_)
MinLen(s) == IF s = <<>> THEN 0
             ELSE (CASE Head(s)[1] = "N" /\ Head(s)[2] \in Nullable -> 0
                     [] Head(s)[1] \in {"T", "N", "Plus"} /\ ~(Head(s)[1] = "N" /\ Head(s)[2] \in Nullable) -> 1
                     [] Head(s)[1] = "Node" -> MinLen(Head(s)[3])
                     [] OTHER -> 0) + MinLen(Tail(s))

Keywords == {"query", "mutation", "subscription", "fragment", "on", "true", "false", "null", "schema", "extend",
             "scalar", "type", "interface", "union", "enum", "input", "directive", "implements"}
DirLocs == {"QUERY", "MUTATION", "SUBSCRIPTION", "FIELD", "FRAGMENT_DEFINITION", "FRAGMENT_SPREAD", "INLINE_FRAGMENT",
            "VARIABLE_DEFINITION",
            "SCHEMA", "SCALAR", "OBJECT", "FIELD_DEFINITION", "ARGUMENT_DEFINITION", "INTERFACE", "UNION", "ENUM",
            "ENUM_VALUE", "INPUT_OBJECT", "INPUT_FIELD_DEFINITION"}
\* does terminal `term` of the grammar match the lexical token tok = [k |-> kind, v |-> name text]?
Match(term, tok) ==
  CASE term = "name"     -> tok.k = "name"
    [] term = "fragname" -> tok.k = "name" /\ tok.v # "on"
    [] term = "enumname" -> tok.k = "name" /\ tok.v \notin {"true", "false", "null"}
    [] term = "dirloc"   -> tok.k = "name" /\ tok.v \in DirLocs
    [] term \in Keywords -> tok.k = "name" /\ tok.v = term
    [] OTHER             -> tok.k = term
=============================================================================
