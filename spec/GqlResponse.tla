---------------------------- MODULE GqlResponse ----------------------------
(* C10 response-format judge.  One case = one request handled by a top-level entry point, projected by the harness:
     raised     "" or the class name of an exception that escaped the entry point
     outcome    syntax | invalid | noop | badvars | execfail | executed   (what the request must lead to: from GqlRequest, from the
                C01-verified parser / validator for texts, or "executed" for GqlSched plans)
     hasData, dataNull, jsonOk (json.dumps(allow_nan=False) and result.json() both succeed)
     lineLens   length of every line of the submitted document (lines split at LF, CR, CRLF)
     errors     seq of [msgIsStr, locs (seq of [keys, line, column]), hasPath, pathOk (keys / indices only), path (string),
                         atNull (the path addresses a null in data), extOk (extensions passed through unchanged)]
     nullPaths  the positions that MUST carry exactly one error: nulls in non-null positions / resolver-error fields
                (from the specification's reference result)
   Verdict: the set of violated clauses (empty = well formed).                                                      *)
EXTENDS Naturals, Sequences, FiniteSets, TLC, Json, IOUtils
Cases == JsonDeserialize(IOEnv.TRACE_FILE)
LocOk(c, loc) == /\ {loc.keys[j] : j \in 1..Len(loc.keys)} = {"line", "column"}
                 /\ loc.line >= 1 /\ loc.line <= Len(c.lineLens)
                 /\ loc.column >= 1 /\ loc.column <= c.lineLens[loc.line] + 1
LocRangeOk(c, loc) == /\ loc.line >= 1 /\ loc.line <= Len(c.lineLens)
                      /\ loc.column >= 1 /\ loc.column <= c.lineLens[loc.line] + 1
LocKeysOk(loc) == {loc.keys[j] : j \in 1..Len(loc.keys)} = {"line", "column"}
ErrPaths(c) == {j \in 1..Len(c.errors) : c.errors[j].hasPath}
Count(c, p) == Cardinality({j \in ErrPaths(c) : c.errors[j].path = p})
\* every violated clause is reported (a listed finding in one clause does not mask the others)
Clauses(c) ==
  IF c.raised # "" THEN {"exception-escapes"}
  ELSE
   (IF ~c.jsonOk THEN {"not-strict-json"} ELSE {})
   \cup (IF c.outcome \in {"syntax", "invalid"} /\ c.hasData THEN {"data-present-after-parse-or-validation-failure"} ELSE {})
   \cup (IF c.outcome \in {"syntax", "invalid", "badvars", "noop", "execfail"} /\ Len(c.errors) = 0 THEN {"failure-without-error"} ELSE {})
   \cup (IF c.outcome = "executed" /\ ~c.hasData THEN {"executed-without-data"} ELSE {})
   \cup (IF \E i \in 1..Len(c.errors) : ~c.errors[i].msgIsStr THEN {"message-not-a-string"} ELSE {})
   \cup (IF \E i \in 1..Len(c.errors) : \E j \in 1..Len(c.errors[i].locs) : ~LocKeysOk(c.errors[i].locs[j]) THEN {"location-keys"} ELSE {})
   \cup (IF \E i \in 1..Len(c.errors) : \E j \in 1..Len(c.errors[i].locs) : ~LocRangeOk(c, c.errors[i].locs[j]) THEN {"location-outside-document"} ELSE {})
   \cup (IF \E i \in ErrPaths(c) : ~c.errors[i].pathOk THEN {"path-not-keys-and-indices"} ELSE {})
   \cup (IF \E i \in 1..Len(c.errors) : ~c.errors[i].extOk THEN {"extensions-not-passed-through"} ELSE {})
   \cup (IF c.outcome = "executed" /\ \E i \in ErrPaths(c) : ~c.errors[i].atNull THEN {"error-path-not-at-a-null"} ELSE {})
   \cup (IF c.outcome = "executed" /\ \E j \in ErrPaths(c) : Count(c, c.errors[j].path) > 1 THEN {"several-errors-for-one-path"} ELSE {})
   \cup (IF c.outcome = "executed" /\ \E k \in 1..Len(c.nullPaths) : Count(c, c.nullPaths[k]) = 0 THEN {"null-without-error"} ELSE {})
VARIABLE i
Init == i \in 1..Len(Cases)
Next == FALSE /\ UNCHANGED i
Spec == Init /\ [][Next]_i
Verdict == PrintT("RV " \o ToJson([i |-> i, v |-> Clauses(Cases[i])]))
=============================================================================
