---------------------------- MODULE GqlValidateGen ----------------------------
(* C06 / C05, generation mode: TLC enumerates EVERY document of a small scope and evaluates the predicates of GqlValidate on it.
   Scope: one operation (selection list of 1..MaxOp items of OpMenu, in every order), fragment F1 (type condition F1On, 1..MaxF1
   items of F1Menu), an optional fragment F2 (on Query or Obj, one item of F2Menu), variable definitions VarsCfg, and the two
   definition orders (operation first / operation last).  The menus hold exactly the constructs whose interactions the rules are
   about: aliases that collide, the same field with different arguments, spreads that are impossible on some parent types,
   fragments spreading each other (cycles, transitive usage of variables), list-typed parents, variables in two positions.
   The harness shards the enumeration over JVMs with Shard / NShards (index of the operation's selection list). *)
EXTENDS GqlValidate
CONSTANTS MaxOp, MaxF1, F1On, VarsCfg, OpLast, Shard, NShards,
          Focus      \* "general" | "merge" (three selections of one response key, conflicts between non-adjacent ones) | "dirs" (@skip / @include)

FldD(n, al, args, sel, dirs) == [k |-> "field", alias |-> al, name |-> n, args |-> args, hasSel |-> sel # <<>>, sel |-> sel, dirs |-> dirs]
Fld(n, al, args, sel) == FldD(n, al, args, sel, <<>>)
VarV(n) == [k |-> "var", n |-> n]
IntV(v) == [k |-> "int", v |-> v]
Arg(n, v) == [name |-> n, value |-> v]
SpreadD(n, dirs) == [k |-> "spread", name |-> n, dirs |-> dirs]
Spread(n) == SpreadD(n, <<>>)
Inline(on, sel) == [k |-> "inline", on |-> on, sel |-> sel, dirs |-> <<>>]
BoolV(b) == [k |-> "bool", v |-> IF b THEN "true" ELSE "false"]
Dir(n, v) == [name |-> n, args |-> <<Arg("if", v)>>]
NoneV == [k |-> "none"]

LeafF(n, al) == Fld(n, al, <<>>, <<>>)
MergeOpMenu == { Fld("o", "", <<>>, <<LeafF("a", "x")>>), Fld("o", "", <<>>, <<LeafF("s", "")>>), Fld("o", "", <<>>, <<LeafF("s", "x")>>),
                 Fld("o", "", <<>>, <<Spread("F1")>>),
                 Fld("i", "o", <<>>, <<Inline("Obj", <<LeafF("a", "x")>>)>>), Fld("i", "o", <<>>, <<Inline("Obj2", <<LeafF("a", "x")>>)>>),
                 Fld("i", "o", <<>>, <<Inline("Obj", <<LeafF("s", "x")>>)>>) }
MergeF1Menu == { LeafF("a", "x"), LeafF("s", "x"), LeafF("s", "") }
DirsOpMenu == { LeafF("a", ""),
                FldD("a", "", <<>>, <<>>, <<Dir("skip", BoolV(TRUE))>>),
                FldD("b", "a", <<>>, <<>>, <<Dir("include", BoolV(FALSE))>>),
                FldD("a", "k", <<>>, <<>>, <<Dir("include", VarV("v"))>>),
                FldD("o", "", <<>>, <<Spread("F1")>>, <<Dir("skip", VarV("g"))>>),
                Fld("o", "", <<>>, <<Spread("F1"), SpreadD("F1", <<Dir("include", VarV("u"))>>)>>),
                SpreadD("F2", <<Dir("include", BoolV(FALSE))>>),
                FldD("a", "", <<>>, <<>>, <<Dir("skip", BoolV(TRUE)), Dir("skip", BoolV(FALSE))>>) }
DirsF1Menu == { LeafF("a", ""), FldD("s", "", <<>>, <<>>, <<Dir("skip", VarV("g"))>>), SpreadD("F2", <<Dir("skip", BoolV(TRUE))>>),
                SpreadD("F2", <<Dir("include", VarV("w"))>>) }
GeneralOpMenu == { Fld("a", "", <<>>, <<>>),
            Fld("a", "k", <<>>, <<>>),
            Fld("b", "k", <<Arg("x", VarV("v"))>>, <<>>),
            Fld("b", "", <<Arg("l", VarV("v"))>>, <<>>),
            Fld("o", "", <<>>, <<Spread("F1")>>),
            Fld("os", "o", <<>>, <<Fld("a", "", <<>>, <<>>), Spread("F1")>>),
            Fld("i", "", <<>>, <<Spread("F1"), Inline("Obj2", <<Fld("s", "", <<>>, <<>>)>>)>>),
            Spread("F2") }
GeneralF1Menu == { Fld("a", "", <<>>, <<>>),
            Fld("s", "", <<>>, <<>>),
            Fld("s", "a", <<>>, <<>>),
            Spread("F2"),
            Spread("F1"),
            Fld("b", "s", <<Arg("x", VarV("v"))>>, <<>>) }
OpMenu == CASE Focus = "merge" -> MergeOpMenu [] Focus = "dirs" -> DirsOpMenu [] OTHER -> GeneralOpMenu
F1Menu == CASE Focus = "merge" -> MergeF1Menu [] Focus = "dirs" -> DirsF1Menu [] OTHER -> GeneralF1Menu
F2Menu == { Fld("a", "", <<>>, <<>>), Spread("F1"), Fld("b", "", <<Arg("x", VarV("w"))>>, <<>>) }
BoolNN == NN(Named("Boolean"))
VarSets == [bools |-> << [name |-> "v", type |-> BoolNN, def |-> NoneV], [name |-> "g", type |-> Named("Boolean"), def |-> BoolV(TRUE)] >>,
            boolint |-> << [name |-> "v", type |-> Named("Int"), def |-> NoneV], [name |-> "g", type |-> Named("Boolean"), def |-> NoneV] >>,
            none |-> <<>>,
            int  |-> << [name |-> "v", type |-> Named("Int"), def |-> NoneV] >>,
            list |-> << [name |-> "v", type |-> ListOf(Named("Int")), def |-> NoneV], [name |-> "w", type |-> Named("Int"), def |-> NoneV] >>]

SeqsUpTo(M, n) == UNION {[1..m -> M] : m \in 1..n}
OpSels == SetToSeq(SeqsUpTo(OpMenu, MaxOp))
F2Opts == IF Focus = "merge" THEN {<<>>} ELSE {<<>>} \cup {<< [k |-> "frag", name |-> "F2", op |-> "", vars |-> <<>>, on |-> t, sel |-> <<it>>] >> : t \in {"Query", "Obj"}, it \in F2Menu}
Mk(osel, f1sel, f2) ==
  LET op == [k |-> "op", name |-> "", op |-> "query", vars |-> VarSets[VarsCfg], on |-> "", sel |-> osel]
      f1 == [k |-> "frag", name |-> "F1", op |-> "", vars |-> <<>>, on |-> F1On, sel |-> f1sel]
  IN [defs |-> IF OpLast THEN f2 \o <<f1, op>> ELSE <<op, f1>> \o f2]
GenDocs == {Mk(OpSels[j], f1sel, f2) : j \in {x \in 1..Len(OpSels) : x % NShards = Shard}, f1sel \in SeqsUpTo(F1Menu, MaxF1), f2 \in F2Opts}

VARIABLE doc
GInit == doc \in GenDocs /\ i = 0
GNext == FALSE /\ UNCHANGED <<doc, i>>
GSpec == GInit /\ [][GNext]_<<doc, i>>
GOut == PrintT("GEN " \o ToJson([doc |-> doc, v |-> Verdict(doc), sh |-> Shapes(doc)]))
\* R1 on the reference itself: reversing the definitions, or any selection list of the operation, never changes a predicate
RevDoc(d) == [defs |-> Reverse(d.defs)]
RevOp(d) == [defs |-> [n \in 1..Len(d.defs) |-> IF d.defs[n].k = "op" THEN [d.defs[n] EXCEPT !.sel = Reverse(@)] ELSE d.defs[n]]]
OrderFree == Verdict(doc) = Verdict(RevDoc(doc)) /\ Verdict(doc) = Verdict(RevOp(doc))
=============================================================================
