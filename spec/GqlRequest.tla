---------------------------- MODULE GqlRequest ----------------------------
(* C10 / C16 request pipeline:  Parse -> Validate -> SelectOperation -> CoerceVariables -> Execute, as a function from
   abstract request features to the outcome class the response must show.  TLC enumerates documents x operation names x
   variable payloads; the harness concretises (harness/reqgamma.py), runs the four entry-point configurations and the
   response judge (GqlResponse) checks the format clauses against this outcome.
   Document menu: [parses, valid, ops (operation names, "" = anonymous), needs (variable the selected operation requires),
                   errs (response paths that must carry exactly one error when executed),
                   opt (an optional Boolean variable with a declared default steers a @skip / @include)]                                  *)
EXTENDS Naturals, Sequences, FiniteSets, TLC, Json
Docs == [
  anon      |-> [parses |-> TRUE,  valid |-> TRUE,  ops |-> {""},       needs |-> "",  errs |-> {}, sub |-> FALSE, opt |-> FALSE],
  namedA    |-> [parses |-> TRUE,  valid |-> TRUE,  ops |-> {"A"},      needs |-> "",  errs |-> {}, sub |-> FALSE, opt |-> FALSE],
  twoOps    |-> [parses |-> TRUE,  valid |-> TRUE,  ops |-> {"A", "B"}, needs |-> "",  errs |-> {}, sub |-> FALSE, opt |-> FALSE],
  needsVar  |-> [parses |-> TRUE,  valid |-> TRUE,  ops |-> {"A"},      needs |-> "v", errs |-> {}, sub |-> FALSE, opt |-> FALSE],
  \* a required variable of an ENUM type (values are looked up by name: JSON arrays and objects are not names)
  needsEnum |-> [parses |-> TRUE,  valid |-> TRUE,  ops |-> {"A"},      needs |-> "v", errs |-> {}, sub |-> FALSE, opt |-> FALSE],
  syntaxErr |-> [parses |-> FALSE, valid |-> FALSE, ops |-> {},         needs |-> "",  errs |-> {}, sub |-> FALSE, opt |-> FALSE],
  syntaxEsc |-> [parses |-> FALSE, valid |-> FALSE, ops |-> {},         needs |-> "",  errs |-> {}, sub |-> FALSE, opt |-> FALSE],
  invalid   |-> [parses |-> TRUE,  valid |-> FALSE, ops |-> {""},       needs |-> "",  errs |-> {}, sub |-> FALSE, opt |-> FALSE],
  \* the operation of `invalid` written on ONE line: the same operation in another layout, served by the same schema object -
  \* every response locates its error in the text that was submitted with it
  invalidWide |-> [parses |-> TRUE,  valid |-> FALSE, ops |-> {""},       needs |-> "",  errs |-> {}, sub |-> FALSE, opt |-> FALSE],
  invalidCR |-> [parses |-> TRUE,  valid |-> FALSE, ops |-> {""},       needs |-> "",  errs |-> {}, sub |-> FALSE, opt |-> FALSE],
  failing   |-> [parses |-> TRUE,  valid |-> TRUE,  ops |-> {""},       needs |-> "",  errs |-> {"nn", "err", "items/0/nnitem", "items/2/nnitem", "items/1/erritem"}, sub |-> FALSE, opt |-> FALSE],
  listArgs  |-> [parses |-> TRUE,  valid |-> TRUE,  ops |-> {"A"},      needs |-> "",  errs |-> {}, sub |-> FALSE, opt |-> FALSE],   \* execution-time argument coercion under a list: only the generic clauses apply
  floats    |-> [parses |-> TRUE,  valid |-> TRUE,  ops |-> {""},       needs |-> "",  errs |-> {}, sub |-> FALSE, opt |-> FALSE],
  \* a SUBSCRIPTION operation submitted to the query entry points: they cannot execute it; the outcome is a response with an
  \* error (class "noop": no operation this entry point can run), never an exception
  \* the operation declares an OPTIONAL variable with a default ($v: Boolean = true) and uses it as the condition of @include at
  \* the root / @skip below a list field: valid (a variable with a default may stand in a non-null position); an explicit null for
  \* it is an accepted variable value that the directive cannot take - the request cannot be executed as written and the outcome
  \* is a response carrying an error (class "execfail"), never an exception
  dirRoot   |-> [parses |-> TRUE,  valid |-> TRUE,  ops |-> {"A"},      needs |-> "",  errs |-> {}, sub |-> FALSE, opt |-> TRUE],
  dirNested |-> [parses |-> TRUE,  valid |-> TRUE,  ops |-> {"A"},      needs |-> "",  errs |-> {}, sub |-> FALSE, opt |-> TRUE],
  subscr    |-> [parses |-> TRUE,  valid |-> TRUE,  ops |-> {"S"},      needs |-> "",  errs |-> {}, sub |-> TRUE,  opt |-> FALSE]
]
DocIds == DOMAIN Docs
OpNames == {"", "A", "B", "X"}          \* "" = no operation name supplied
VarPayloads == {"none", "ok", "wrongtype", "null", "list", "object"}      \* list / object: a JSON array / object where a scalar or enum is declared
VARIABLES doc, opname, vars
v == <<doc, opname, vars>>
\* (Boolean variables take any JSON value - scalar leniency, Appendix B.9 - so "wrongtype" says nothing about the opt documents)
Init == doc \in DocIds /\ opname \in OpNames /\ vars \in VarPayloads /\ (Docs[doc].opt => vars \notin {"wrongtype", "list", "object"})
Next == FALSE /\ UNCHANGED v
Spec == Init /\ [][Next]_v
D == Docs[doc]
\* GetOperation (spec 6.1): without a name exactly one operation must exist; with a name it must be defined
Selected == IF opname = "" THEN (IF Cardinality(D.ops) = 1 THEN "one" ELSE "none")
            ELSE (IF opname \in D.ops /\ opname # "" THEN "one" ELSE "none")
Outcome == IF ~D.parses THEN "syntax"
           ELSE IF ~D.valid THEN "invalid"
           ELSE IF Selected = "none" THEN "noop"
           ELSE IF D.needs # "" /\ vars # "ok" THEN "badvars"
           ELSE IF D.sub THEN "noop"
           ELSE IF D.opt /\ vars = "null" THEN "execfail"
           ELSE "executed"
Out == PrintT("REQ " \o ToJson([doc |-> doc, opname |-> opname, vars |-> vars, outcome |-> Outcome,
                                errs |-> (IF Outcome = "executed" THEN D.errs ELSE {})]))
\* R1: outcome classes are exhaustive and data-bearing only after successful parse + validation
Sane == Outcome \in {"syntax", "invalid", "noop", "badvars", "execfail", "executed"} /\ (Outcome = "executed" => D.parses /\ D.valid)
=============================================================================
