---------------------------- MODULE GqlSdl ----------------------------
(* C11: building a schema from a type-system document.  Documents are ORDERED selections (so every definition order occurs)
   of at most MaxItems items from a menu: definitions of all six kinds (recursive and mutually recursive object and input
   types, a type reachable only through an interface, defaults, deprecations with and without reason), extensions of every
   kind split over several extend blocks, a schema definition, and labelled invalid items (wrong-kind, duplicate-member and
   undefined-target extensions, a duplicate type name).  Build merges extensions into their targets in document order and
   returns the expected abstract schema or the error class (SDLError / ExtensionError / SchemaError).                  *)
EXTENDS Naturals, Sequences, FiniteSets, TLC, Json, SequencesExt
CONSTANT MaxItems
Named(n) == [k |-> "named", n |-> n]
ListOf(t) == [k |-> "list", of |-> t]
NN(t) == [k |-> "nn", of |-> t]
Arg(n, t) == [name |-> n, type |-> t, hasDef |-> FALSE]
ArgD(n, t) == [name |-> n, type |-> t, hasDef |-> TRUE]
ArgN(n, t) == [name |-> n, type |-> t, hasDef |-> TRUE, nul |-> TRUE]     \* explicit "= null" default
ArgL(n, t, lit) == [name |-> n, type |-> t, hasDef |-> TRUE, lit |-> lit]  \* default spelled as the enum value `lit`
Fld(n, t, as, dep) == [name |-> n, type |-> t, args |-> as, dep |-> dep]
Obj(n, ifs, fs) == [k |-> "object", name |-> n, ifaces |-> ifs, fields |-> fs, members |-> <<>>, values |-> <<>>]
Ifc(n, fs) == [k |-> "interface", name |-> n, ifaces |-> <<>>, fields |-> fs, members |-> <<>>, values |-> <<>>]
Uni(n, ms) == [k |-> "union", name |-> n, ifaces |-> <<>>, fields |-> <<>>, members |-> ms, values |-> <<>>]
Enu(n, vs) == [k |-> "enum", name |-> n, ifaces |-> <<>>, fields |-> <<>>, members |-> <<>>, values |-> vs]
Inp(n, fs) == [k |-> "input", name |-> n, ifaces |-> <<>>, fields |-> fs, members |-> <<>>, values |-> <<>>]
Sca(n) == [k |-> "scalar", name |-> n, ifaces |-> <<>>, fields |-> <<>>, members |-> <<>>, values |-> <<>>]
Def(t) == [it |-> "def", t |-> t, target |-> ""]
Ext(target, t) == [it |-> "ext", t |-> t, target |-> target]     \* t carries the additions, t.k the extension kind
SchemaItem(q) == [it |-> "schema", t |-> Sca(q), target |-> q]
DirItem(n, locs, as) == [it |-> "dir", t |-> [k |-> "directive", name |-> n, locs |-> locs, args |-> as], target |-> ""]
Menu == <<
  Def(Obj("Query", <<>>, <<Fld("a", Named("Int"), <<ArgN("n", Named("Int"))>>, "")>>)),  \* 1 (argument with an explicit null default)
  Def(Ifc("Node", <<Fld("id", Named("ID"), <<>>, "")>>)),                                                   \* 2
  Def(Obj("R", <<"Node">>, <<Fld("id", Named("ID"), <<>>, ""), Fld("self", Named("R"), <<>>, "No longer supported"), Fld("u", Named("R"), <<>>, "")>>)),  \* 3
  Def(Uni("U", <<"R">>)),                                                                                  \* 4
  Def(Enu("E", <<[name |-> "A", dep |-> ""], [name |-> "B", dep |-> "why"]>>)),                             \* 5
  Def(Inp("In2", <<ArgD("x", Named("Int"))>>)),                                                            \* 6
  Def(Inp("In", <<ArgD("x", Named("Int")), Arg("rec", Named("In")), Arg("l", ListOf(NN(Named("In"))))>>)), \* 7 recursive input
  Def(Sca("S")),                                                                                           \* 8
  Def(Obj("Root", <<>>, <<Fld("a", Named("Int"), <<>>, "")>>)),                                            \* 9
  SchemaItem("Root"),                                                                                      \* 10
  Ext("Query", Obj("Query", <<>>, <<Fld("extra", Named("S"), <<>>, "")>>)),                                \* 11
  Ext("R", Obj("R", <<>>, <<Fld("more", ListOf(Named("R")), <<>>, "")>>)),                                 \* 12
  Ext("U", Uni("U", <<"Query">>)),                                                                         \* 13
  Ext("E", Enu("E", <<[name |-> "C", dep |-> ""]>>)),                                                      \* 14
  Ext("In2", Inp("In2", <<ArgD("y", Named("String"))>>)),                                                  \* 15
  Ext("Node", Ifc("Node", <<Fld("name", Named("String"), <<>>, "")>>)),                                    \* 16
  Ext("R", Obj("R", <<>>, <<Fld("name", Named("String"), <<>>, "")>>)),                                    \* 17
  Ext("E", Obj("E", <<>>, <<Fld("zz", Named("Int"), <<>>, "")>>)),                                         \* 18 wrong kind
  Ext("R", Obj("R", <<>>, <<Fld("id", Named("ID"), <<>>, "")>>)),                                          \* 19 duplicate field
  Def(Uni("U", <<"Root">>)),                                                                               \* 20 duplicate type name
  Ext("Query", Obj("Query", <<>>, <<Fld("n", Named("Node"), <<>>, "")>>)),                                 \* 21
  Ext("Query", Obj("Query", <<>>, <<Fld("r", Named("Int"), <<ArgD("i", Named("In2")), ArgD("e", Named("E"))>>, "")>>)),  \* 22
  Def(Obj("R2", <<"Node">>, <<Fld("id", Named("ID"), <<>>, "")>>)),                                        \* 23 only reachable through the interface
  Ext("Query", Obj("Query", <<>>, <<Fld("u", Named("U"), <<>>, "")>>)),                                    \* 24
  Def(Obj("Mut", <<>>, <<Fld("q", Named("Query"), <<>>, "")>>)),                                            \* 25 a mutation root that refers back to the query type
  [it |-> "schemaext", t |-> Sca("Mut"), target |-> "Mut"],                                                 \* 26 extend schema { mutation: Mut }
  Def(Ifc("HasArg", <<Fld("f", Named("Int"), <<Arg("x", Named("Int"))>>, "")>>)),                          \* 27
  Def(Obj("ImplOk", <<"HasArg">>, <<Fld("f", Named("Int"), <<Arg("x", Named("Int")), Arg("opt", Named("Int"))>>, "")>>)),   \* 28 same argument type + optional extra
  Def(Obj("ImplBad", <<"HasArg">>, <<Fld("f", Named("Int"), <<Arg("x", NN(Named("Int")))>>, "")>>)),       \* 29 argument type differs (Int! vs Int): invalid
  Def(Obj("ImplBad2", <<"HasArg">>, <<Fld("f", Named("Int"), <<Arg("x", Named("Int")), Arg("req", NN(Named("Int")))>>, "")>>)),  \* 30 extra REQUIRED argument: invalid
  Def(Obj("Mutation", <<>>, <<Fld("m", Named("Int"), <<>>, "")>>)),                                        \* 31 conventional root name: a root only when there is no schema definition
  Def(Obj("Subscription", <<>>, <<Fld("s", Named("Int"), <<>>, "")>>)),                                    \* 32 likewise
  Ext("Node", Ifc("Node", <<Fld("next", Named("Node"), <<>>, ""), Fld("pick", Named("Int"), <<Arg("from", Named("Node2In"))>>, "")>>)),  \* 33 extension fields typed by types of the document (needs 34)
  Def(Inp("Node2In", <<ArgD("x", Named("Int"))>>)),                                                         \* 34
  Ext("In2", Inp("In2", <<Arg("me", Named("In2")), Arg("peers", ListOf(NN(Named("In2"))))>>)),                 \* 35 extension fields typed by the extended input type itself
  Ext("Query", Obj("Query", <<>>, <<Fld("lv", Named("Int"), <<ArgL("e", Named("E"), "C")>>, "")>>)),             \* 36 a default naming an enum value that only an extension (14) declares
  Def(Obj("UsesE", <<>>, <<Fld("lvl", Named("E"), <<>>, ""), Fld("sc", Named("S"), <<>>, "")>>)),                \* 37 a DEFINITION referring to the enum (5) and the scalar (8)
  \* 38-41: covariant implementations of a list-typed interface field
  Def(Ifc("HasList", <<Fld("tags", ListOf(Named("String")), <<>>, "")>>)),                                     \* 38
  Def(Obj("ListNN", <<"HasList">>, <<Fld("tags", NN(ListOf(Named("String"))), <<>>, "")>>)),                    \* 39 [String]! for [String]: valid
  Def(Obj("ListItemNN", <<"HasList">>, <<Fld("tags", ListOf(NN(Named("String"))), <<>>, "")>>)),                \* 40 [String!] for [String]: valid
  Def(Obj("ListBad", <<"HasList">>, <<Fld("tags", Named("String"), <<>>, "")>>)),                               \* 41 String for [String]: invalid
  \* 42-44: extension blocks of one target separated by a block of another target (needs 9)
  Ext("Root", Obj("Root", <<>>, <<Fld("r1", Named("Int"), <<>>, "")>>)),                                        \* 42
  Ext("Query", Obj("Query", <<>>, <<Fld("p1", Named("Int"), <<>>, "")>>)),                                      \* 43
  Ext("Query", Obj("Query", <<>>, <<Fld("p2", Named("Int"), <<>>, "")>>)),                                      \* 44
  \* 45-47: DIRECTIVE DEFINITIONS (name, locations, arguments typed by built-in and by user-defined input types, defaults)
  DirItem("tagged", <<"FIELD_DEFINITION", "OBJECT">>, <<Arg("n", Named("Int"))>>),                               \* 45
  DirItem("role", <<"FIELD_DEFINITION">>, <<ArgL("e", Named("E"), "A"), ArgD("why", Named("String"))>>),           \* 46 argument typed by the enum (5), default A
  DirItem("viaInput", <<"ENUM_VALUE", "QUERY">>, <<Arg("i", ListOf(Named("In2")))>>),                              \* 47 argument typed by the input type (6)
  \* 48: an input type that refers to ITSELF through fields that carry defaults (null / the empty list)
  Def(Inp("Tree", <<ArgN("not", Named("Tree")), ArgD("kids", ListOf(NN(Named("Tree")))), ArgD("depth", Named("Int"))>>)),  \* 48
  \* 49: defaults at the two ends of the signed 32-bit range
  Ext("Query", Obj("Query", <<>>, <<Fld("lim", Named("Int"), <<ArgL("lo", Named("Int"), "-2147483648"), ArgL("hi", Named("Int"), "2147483647")>>, "")>>)),  \* 49
  DirItem("tagged", <<"ENUM">>, <<>>),                                                                           \* 50 a second definition of @tagged: invalid
  \* 51-55: invalid documents that must be REJECTED WITH A LIBRARY ERROR
  Def(Obj("ImplEnum", <<"E">>, <<Fld("a", Named("Int"), <<>>, "")>>)),                                            \* 51 implements an enum (needs 5)
  Def(Obj("ImplObj", <<"Root">>, <<Fld("a", Named("Int"), <<>>, "")>>)),                                          \* 52 implements an object type (needs 9)
  Def(Enu("DupE", <<[name |-> "A", dep |-> ""], [name |-> "A", dep |-> ""]>>)),                                   \* 53 the same enum value twice
  Ext("Query", Obj("Query", <<>>, <<Fld("bad", Named("Int"), <<Arg("o", Named("Query"))>>, "")>>)),              \* 54 an argument typed by an object type (the type being built)
  Ext("String", Obj("String", <<>>, <<Fld("zz", Named("Int"), <<>>, "")>>)),                                      \* 55 an extension of a specified scalar, of the wrong kind
  Def(Enu("Mutation", <<[name |-> "M1", dep |-> ""]>>)),                                                          \* 56 a NON-object type with a conventional root name: not a root (valid)
  Ext("Query", Obj("Query", <<>>, <<Fld("mm", Named("Mutation"), <<>>, "")>>)),                                   \* 57 ... referred to by a field (needs 56)
  \* 58-60: a member name written twice INSIDE one definition (invalid whatever else the document holds, extensions included)
  Def(Obj("DupF", <<>>, <<Fld("a", Named("Int"), <<>>, ""), Fld("b", Named("Int"), <<>>, ""), Fld("a", Named("String"), <<>>, "")>>)),   \* 58
  Def(Inp("DupIn", <<Arg("x", Named("Int")), Arg("x", Named("String"))>>)),                                        \* 59
  Def(Ifc("DupI", <<Fld("id", Named("ID"), <<>>, ""), Fld("id", Named("ID"), <<>>, "")>>))                         \* 60
>>
CONSTANT MenuIdx        \* the menu items that may be picked (the whole menu, or a focus on a few items with a larger MaxItems)
CONSTANTS Slice, NSlices \* only the documents with (sum of the picked indices) % NSlices = Slice are printed for replay (all are model-checked)
VARIABLES picked, done
Init == picked = <<1>> /\ done = FALSE          \* Query type always present
Pick == /\ ~done /\ Len(picked) < MaxItems
        /\ \E i \in (2..Len(Menu)) \cap MenuIdx : (\A j \in 1..Len(picked) : picked[j] # i) /\ picked' = Append(picked, i)
        /\ UNCHANGED done
\* the first item may also be moved: choose an insertion position for the Query definition at the end
Finish == /\ ~done /\ done' = TRUE /\ \E pos \in 1..Len(picked) : picked' = [i \in 1..Len(picked) |-> IF i < pos THEN picked[i + 1] ELSE IF i = pos THEN 1 ELSE picked[i]]
Next == Pick \/ Finish
Spec == Init /\ [][Next]_<<picked, done>>
Doc == [i \in 1..Len(picked) |-> Menu[picked[i]]]
\* ---- reference Build --------------------------------------------------------
Builtin == {"Int", "Float", "String", "Boolean", "ID"}
Defs(doc) == SelectSeq(doc, LAMBDA x : x.it = "def")
Exts(doc) == SelectSeq(doc, LAMBDA x : x.it = "ext")
Schemas(doc) == SelectSeq(doc, LAMBDA x : x.it = "schema")
DirDefs(doc) == SelectSeq(doc, LAMBDA x : x.it = "dir")
SchemaExts(doc) == SelectSeq(doc, LAMBDA x : x.it = "schemaext")
Names(ds) == [i \in 1..Len(ds) |-> ds[i].t.name]
Dup(seq) == \E i, j \in 1..Len(seq) : i < j /\ seq[i] = seq[j]
RECURSIVE Inner(_)
Inner(t) == IF t.k = "named" THEN t.n ELSE Inner(t.of)
Merge(t, exts) ==      \* apply extensions (already filtered by target, in document order)
  [t EXCEPT !.fields = @ \o FlattenSeq([i \in 1..Len(exts) |-> exts[i].t.fields]),
            !.ifaces = @ \o FlattenSeq([i \in 1..Len(exts) |-> exts[i].t.ifaces]),
            !.members = @ \o FlattenSeq([i \in 1..Len(exts) |-> exts[i].t.members]),
            !.values = @ \o FlattenSeq([i \in 1..Len(exts) |-> exts[i].t.values])]
Build(doc) ==
  LET ds == Defs(doc)  xs == Exts(doc)  ss == Schemas(doc)  dd == DirDefs(doc)
      tnames == {Names(ds)[i] : i \in 1..Len(ds)}
      merged == [i \in 1..Len(ds) |-> Merge(ds[i].t, SelectSeq(xs, LAMBDA x : x.target = ds[i].t.name))]
      byName(n) == merged[CHOOSE i \in 1..Len(ds) : ds[i].t.name = n]
      known(n) == n \in Builtin \/ n \in tnames
      kindOf(n) == IF n \in Builtin THEN "scalar" ELSE byName(n).k
      refsOk == \A i \in 1..Len(merged) :
                   /\ \A f \in 1..Len(merged[i].fields) : known(Inner(merged[i].fields[f].type))
                        /\ (merged[i].k # "input" => \A a \in 1..Len(merged[i].fields[f].args) : known(Inner(merged[i].fields[f].args[a].type)))
                   /\ \A m \in 1..Len(merged[i].members) : known(merged[i].members[m])
                   /\ \A m \in 1..Len(merged[i].ifaces) : known(merged[i].ifaces[m])
      \* directive definitions: argument types are known input types, enum-spelled defaults name a value of the (merged) enum
      dirRefsOk == \A d \in 1..Len(dd) : \A a \in 1..Len(dd[d].t.args) : known(Inner(dd[d].t.args[a].type))
      dirPosOk == \A d \in 1..Len(dd) : \A a \in 1..Len(dd[d].t.args) : kindOf(Inner(dd[d].t.args[a].type)) \in {"scalar", "enum", "input"}
      dirLitOk == \A d \in 1..Len(dd) : \A a \in 1..Len(dd[d].t.args) :
                     LET x == dd[d].t.args[a] IN
                     ("lit" \in DOMAIN x /\ kindOf(Inner(x.type)) = "enum") => \E v \in 1..Len(byName(Inner(x.type)).values) : byName(Inner(x.type)).values[v].name = x.lit
      \* covariance of field types (3.1.2 Object type validation): same named type, an implementation of the interface or a member
      \* of the union, a list of a subtype, or the non-null version of a subtype
      RECURSIVE SubT(_, _)
      SubT(a, b) == IF b.k = "nn" THEN a.k = "nn" /\ SubT(a.of, b.of)
                    ELSE IF a.k = "nn" THEN SubT(a.of, b)
                    ELSE IF b.k = "list" THEN a.k = "list" /\ SubT(a.of, b.of)
                    ELSE IF a.k = "list" THEN FALSE
                    ELSE \/ a.n = b.n
                         \/ (known(a.n) /\ known(b.n) /\ a.n \notin Builtin /\ b.n \notin Builtin /\
                              \/ (byName(b.n).k = "interface" /\ byName(a.n).k = "object" /\ \E m \in 1..Len(byName(a.n).ifaces) : byName(a.n).ifaces[m] = b.n)
                              \/ (byName(b.n).k = "union" /\ \E m \in 1..Len(byName(b.n).members) : byName(b.n).members[m] = a.n))
      extErr == \/ \E x \in 1..Len(xs) : xs[x].target \notin tnames \/ byName(xs[x].target).k # xs[x].t.k
                \/ \E i \in 1..Len(merged) : Dup([f \in 1..Len(merged[i].fields) |-> merged[i].fields[f].name])
                                             \/ Dup(merged[i].members) \/ Dup(merged[i].ifaces) \/ Dup([v \in 1..Len(merged[i].values) |-> merged[i].values[v].name])
      implOk == \A i \in 1..Len(merged) : merged[i].k = "object" =>
                   \A m \in 1..Len(merged[i].ifaces) :
                      LET itf == byName(merged[i].ifaces[m]) IN
                      itf.k = "interface" /\ \A f \in 1..Len(itf.fields) : \E g \in 1..Len(merged[i].fields) :
                          /\ merged[i].fields[g].name = itf.fields[f].name /\ SubT(merged[i].fields[g].type, itf.fields[f].type)
                          \* every interface argument is provided with the SAME type; additional arguments must not be required
                          /\ \A a \in 1..Len(itf.fields[f].args) : \E b \in 1..Len(merged[i].fields[g].args) :
                                merged[i].fields[g].args[b].name = itf.fields[f].args[a].name /\ merged[i].fields[g].args[b].type = itf.fields[f].args[a].type
                          /\ \A b \in 1..Len(merged[i].fields[g].args) :
                                (\E a \in 1..Len(itf.fields[f].args) : itf.fields[f].args[a].name = merged[i].fields[g].args[b].name) \/ merged[i].fields[g].args[b].type.k # "nn"
      unionOk == \A i \in 1..Len(merged) : merged[i].k = "union" => \A m \in 1..Len(merged[i].members) : kindOf(merged[i].members[m]) = "object"
      posOk == \A i \in 1..Len(merged) :
                 \A f \in 1..Len(merged[i].fields) :
                   IF merged[i].k = "input" THEN kindOf(Inner(merged[i].fields[f].type)) \in {"scalar", "enum", "input"}
                   ELSE /\ kindOf(Inner(merged[i].fields[f].type)) \in {"scalar", "enum", "object", "interface", "union"}
                        /\ \A a \in 1..Len(merged[i].fields[f].args) : kindOf(Inner(merged[i].fields[f].args[a].type)) \in {"scalar", "enum", "input"}
      \* defaults spelled as enum values must name a value of the (merged) enum
      litOk == \A i \in 1..Len(merged) : \A f \in 1..Len(merged[i].fields) :
                 merged[i].k = "input" \/ \A a \in 1..Len(merged[i].fields[f].args) :
                    LET x == merged[i].fields[f].args[a] IN
                    ("lit" \in DOMAIN x /\ known(Inner(x.type)) /\ kindOf(Inner(x.type)) = "enum") =>
                        \E v \in 1..Len(byName(Inner(x.type)).values) : byName(Inner(x.type)).values[v].name = x.lit
      q == IF ss = <<>> THEN "Query" ELSE ss[1].target
      sx == SchemaExts(doc)
      \* 3.2.1: without a schema definition the types named Query / Mutation / Subscription are the roots; with one, only what it lists
      conv(n) == IF ss = <<>> /\ n \in tnames /\ kindOf(n) = "object" THEN n ELSE ""
      mut == IF sx = <<>> THEN conv("Mutation") ELSE sx[1].target
      sub == conv("Subscription")
  IN IF Dup(Names(ds)) \/ Len(ss) > 1 \/ Dup([d \in 1..Len(dd) |-> dd[d].t.name]) THEN [ok |-> FALSE, err |-> "SDLError", schema |-> <<>>]
     ELSE IF extErr \/ (sx # <<>> /\ conv("Mutation") # "") THEN [ok |-> FALSE, err |-> "ExtensionError", schema |-> <<>>]   \* (a schema extension cannot re-define a root)
     ELSE IF ~refsOk \/ ~dirRefsOk THEN [ok |-> FALSE, err |-> "SDLError", schema |-> <<>>]
     ELSE IF mut # "" /\ mut \notin tnames THEN [ok |-> FALSE, err |-> "SDLError", schema |-> <<>>]
     ELSE IF ~litOk \/ (dirPosOk /\ ~dirLitOk) THEN [ok |-> FALSE, err |-> "InvalidValue", schema |-> <<>>]
     ELSE IF ~(q \in tnames /\ kindOf(q) = "object") \/ ~implOk \/ ~unionOk \/ ~posOk \/ ~dirPosOk \/ (mut # "" /\ kindOf(mut) # "object") THEN [ok |-> FALSE, err |-> "SchemaError", schema |-> <<>>]
     ELSE [ok |-> TRUE, err |-> "", schema |-> [query |-> q, mutation |-> mut, subscription |-> sub, types |-> merged,
                                                   directives |-> [d \in 1..Len(dd) |-> dd[d].t]]]
\* rn: what build_schema(ignore_extensions = TRUE) must give: the document without its extension items
RECURSIVE SumSeq(_)
SumSeq(q) == IF q = <<>> THEN 0 ELSE Head(q) + SumSeq(Tail(q))
Emit == (done /\ SumSeq(picked) % NSlices = Slice) => PrintT("BLD " \o ToJson([doc |-> Doc, picked |-> picked, r |-> Build(Doc), rn |-> Build(SelectSeq(Doc, LAMBDA x : x.it \notin {"ext", "schemaext"}))]))
\* R1: the result does not depend on the order of the items, up to the order extensions of one target are merged in
Unordered(r) == IF r.ok THEN {r.schema.types[i].name : i \in 1..Len(r.schema.types)} ELSE {r.err}
OrderFree == done => \A pos \in 1..Len(picked) :
                LET rot == [i \in 1..Len(picked) |-> picked[((i + pos - 1) % Len(picked)) + 1]]
                IN Unordered(Build([i \in 1..Len(rot) |-> Menu[rot[i]]])) = Unordered(Build(Doc))
=============================================================================
