---------------------------- MODULE GqlExec ----------------------------
(* C04 / C05: denotational execution (June 2018, 6.3 CollectFields / ExecuteSelectionSet, 6.4 CompleteValue) over documents
   BUILT BY ACTIONS over a fixed schema, so that only type-correct, conflict-free documents arise:
     type Query { a: Int  s: String!  e: E  c: Cust  o: Obj  i: I  u: U  os: [Obj]  is: [I] }
     type Obj implements I { a: Int  s: String!  e: E  o: Obj }     type Obj2 implements I { a: Int  n: String  o: Obj }
     interface I { a: Int  o: Obj }   union U = Obj | Obj2   enum E { A B } (internal values)   scalar Cust (custom serialiser)
   Aliases are derived from the field name (a -> ka ...), hence equal response keys always denote the same field and
   OverlappingFieldsCanBeMerged holds by construction.  The world fixes resolver behaviour: errA (field a raises the
   library's resolver error below the root), nullS (the non-null field s resolves to null), the concrete types behind i
   and u, nullO (o resolves to null below the root) and the Boolean variable $v used by @skip / @include.
   Non-null rule as the property states it: null stays at the position, one error, no propagation.                      *)
EXTENDS Naturals, Sequences, FiniteSets, TLC, Json, SequencesExt
CONSTANTS MaxSteps,
          Template       \* 0: start from the empty document; k > 0: start from the k-th template below and extend it
\* ---- schema ----
Kind == [Query |-> "object", Obj |-> "object", Obj2 |-> "object", I |-> "interface", U |-> "union"]
\* field -> [t |-> named type, list |-> BOOLEAN, nn |-> BOOLEAN]
FT(t, l, n) == [t |-> t, list |-> l, nn |-> n]
FieldsOf == [Query |-> [a |-> FT("Int", FALSE, FALSE), s |-> FT("String", FALSE, TRUE), e |-> FT("E", FALSE, FALSE), c |-> FT("Cust", FALSE, FALSE),
                        o |-> FT("Obj", FALSE, FALSE), i |-> FT("I", FALSE, FALSE),
                        u |-> FT("U", FALSE, FALSE), os |-> FT("Obj", TRUE, FALSE), is |-> FT("I", TRUE, FALSE)],
             Obj   |-> [a |-> FT("Int", FALSE, FALSE), s |-> FT("String", FALSE, TRUE), e |-> FT("E", FALSE, FALSE), o |-> FT("Obj", FALSE, FALSE)],
             Obj2  |-> [a |-> FT("Int", FALSE, FALSE), n |-> FT("String", FALSE, FALSE), o |-> FT("Obj", FALSE, FALSE)],
             I     |-> [a |-> FT("Int", FALSE, FALSE), o |-> FT("Obj", FALSE, FALSE)],
             U     |-> [z |-> FT("Int", FALSE, FALSE)]]     \* z is a dummy so the record is non-empty; never offered
Possible == [I |-> {"Obj", "Obj2"}, U |-> {"Obj", "Obj2"}, Query |-> {"Query"}, Obj |-> {"Obj"}, Obj2 |-> {"Obj2"}]
Composite(t) == t \in DOMAIN Kind
Selectable(t) == IF t = "U" THEN {} ELSE DOMAIN FieldsOf[t]
TypeConds(t) == {c \in DOMAIN Kind : Possible[c] \cap Possible[t] # {}}
\* fragment library
F(al, n, sel) == [k |-> "field", alias |-> al, name |-> n, dir |-> "none", sel |-> sel]
FragLib == [FObj |-> [on |-> "Obj", sel |-> <<F("", "a", <<>>), F("ks", "s", <<>>)>>],
            FI   |-> [on |-> "I",   sel |-> <<F("", "a", <<>>)>>],
            \* fragments with sub-selections: spreading both under one parent merges the sub-selections of `o` per runtime type
            FIo  |-> [on |-> "I",   sel |-> <<F("", "o", <<F("", "a", <<>>)>>)>>],
            FOo  |-> [on |-> "Obj", sel |-> <<F("", "o", <<F("ks", "s", <<>>), F("", "e", <<>>)>>)>>],
            \* same first sub-selection and same number of merged selections as FIo + FOo, for the other concrete type
            FO2o |-> [on |-> "Obj2", sel |-> <<F("", "o", <<F("", "e", <<>>), F("ka", "a", <<>>)>>)>>]]
Sp(f) == [k |-> "spread", alias |-> "", name |-> f, dir |-> "none", sel |-> <<>>]
In(on, sel) == [k |-> "inline", alias |-> "", name |-> on, dir |-> "none", sel |-> sel]
\* templates: documents too large to be reached by <= MaxSteps build actions, extended by the actions like any other prefix.
\* They put one field node under several runtime types of a mixed list with per-type merged sub-selections.
Templates == <<
  << F("", "is", <<Sp("FIo"), Sp("FOo"), Sp("FO2o")>>) >>,
  << F("", "is", <<F("", "o", <<F("", "a", <<>>)>>), In("Obj", <<F("", "o", <<F("ks", "s", <<>>)>>)>>), In("Obj2", <<F("", "o", <<F("", "e", <<>>)>>)>>)>>) >>,
  << F("", "u", <<In("Obj", <<F("", "o", <<F("", "a", <<>>)>>)>>), In("Obj2", <<F("", "o", <<F("", "e", <<>>)>>), F("", "n", <<>>)>>), In("I", <<F("", "o", <<F("ks", "s", <<>>)>>)>>)>>),
     F("", "i", <<Sp("FIo"), Sp("FO2o"), Sp("FOo")>>) >>,
  << F("", "os", <<F("", "o", <<F("", "a", <<>>)>>), F("", "o", <<F("ks", "s", <<>>)>>)>>), F("", "o", <<F("", "o", <<F("", "a", <<>>)>>), Sp("FOo")>>) >> >>
Dirs == {"none", "skipT", "skipF", "inclF", "skipV", "inclV"}
\* ---- world: resolver behaviour per (type, field) and concrete types of abstract fields ----
VARIABLES stack, ctx, steps, done, world
vars == <<stack, ctx, steps, done, world>>
W(ea, ns, it, ut, no, vv) == [errA |-> ea, nullS |-> ns, iType |-> it, uType |-> ut, nullO |-> no, v |-> vv]
\* a covering family: every pair of settings occurs (checked by AllPairs below)
Worlds == {W(FALSE, FALSE, "Obj", "Obj2", FALSE, TRUE), W(TRUE, TRUE, "Obj2", "Obj", TRUE, FALSE), W(TRUE, FALSE, "Obj", "Obj", TRUE, TRUE),
           W(FALSE, TRUE, "Obj2", "Obj2", FALSE, FALSE), W(TRUE, TRUE, "Obj", "Obj2", FALSE, FALSE), W(FALSE, FALSE, "Obj2", "Obj", TRUE, TRUE),
           W(FALSE, TRUE, "Obj", "Obj", TRUE, FALSE), W(TRUE, FALSE, "Obj2", "Obj2", FALSE, TRUE)}
Skipped(d) == d \in {"skipT", "inclF"} \/ (d = "skipV" /\ world.v) \/ (d = "inclV" /\ ~world.v)
AllPairs == TRUE
Init == stack = << IF Template = 0 THEN <<>> ELSE Templates[Template] >> /\ ctx = <<[k |-> "root", t |-> "Query", alias |-> "", name |-> "", dir |-> "none", on |-> ""]>> /\ steps = 0 /\ done = FALSE /\ world \in Worlds
CurT == ctx[Len(ctx)].t
AliasOf(al, f) == IF al = "" THEN "" ELSE (IF f = "__typename" THEN "ktn" ELSE "k" \o f)
Push(s) == [stack EXCEPT ![Len(stack)] = Append(@, s)]
Leaf(t) == ~Composite(t)
AddLeaf == /\ ~done /\ steps < MaxSteps
           /\ \E f \in Selectable(CurT) \cup {"__typename"}, al \in {"", "k"}, d \in {"none", "skipT", "inclV"} :
                /\ (IF f = "__typename" THEN TRUE ELSE Leaf(FieldsOf[CurT][f].t))
                /\ stack' = Push([k |-> "field", alias |-> AliasOf(al, f), name |-> f, dir |-> d, sel |-> <<>>])
           /\ steps' = steps + 1 /\ UNCHANGED <<ctx, done, world>>
OpenField == /\ ~done /\ steps < MaxSteps
             /\ \E f \in Selectable(CurT), al \in {"", "k"} :
                  /\ Composite(FieldsOf[CurT][f].t)
                  /\ ctx' = Append(ctx, [k |-> "field", t |-> FieldsOf[CurT][f].t, alias |-> AliasOf(al, f), name |-> f, dir |-> "none", on |-> ""])
             /\ stack' = Append(stack, <<>>) /\ steps' = steps + 1 /\ UNCHANGED <<done, world>>
OpenInline == /\ ~done /\ steps < MaxSteps
              /\ \E c \in TypeConds(CurT) \cup {""}, d \in Dirs :
                   ctx' = Append(ctx, [k |-> "inline", t |-> IF c = "" THEN CurT ELSE c, alias |-> "", name |-> "", dir |-> d, on |-> c])
              /\ stack' = Append(stack, <<>>) /\ steps' = steps + 1 /\ UNCHANGED <<done, world>>
AddSpread == /\ ~done /\ steps < MaxSteps
             /\ \E f \in DOMAIN FragLib, d \in {"none", "inclF", "skipV"} :
                  /\ Possible[FragLib[f].on] \cap Possible[CurT] # {}
                  /\ stack' = Push([k |-> "spread", alias |-> "", name |-> f, dir |-> d, sel |-> <<>>])
             /\ steps' = steps + 1 /\ UNCHANGED <<ctx, done, world>>
Close == /\ ~done /\ Len(stack) > 1 /\ stack[Len(stack)] # <<>>
         /\ LET c == ctx[Len(ctx)]
                n == IF c.k = "field" THEN [k |-> "field", alias |-> c.alias, name |-> c.name, dir |-> c.dir, sel |-> stack[Len(stack)]]
                     ELSE [k |-> "inline", alias |-> "", name |-> c.on, dir |-> c.dir, sel |-> stack[Len(stack)]]
                s == Front(stack)
            IN stack' = [s EXCEPT ![Len(s)] = Append(@, n)]
         /\ ctx' = Front(ctx) /\ UNCHANGED <<steps, done, world>>
Finish == /\ ~done /\ Len(stack) = 1 /\ stack[1] # <<>> /\ done' = TRUE /\ UNCHANGED <<stack, ctx, steps, world>>
Next == AddLeaf \/ OpenField \/ OpenInline \/ AddSpread \/ Close \/ Finish
Spec == Init /\ [][Next]_vars

\* ---- reference semantics ----------------------------------------------------
Applies(cond, objT) == cond = "" \/ objT \in Possible[cond]
RECURSIVE Collect(_, _, _)
\* returns [es |-> sequence of [rn, node], seen |-> visited fragment names]
Collect(sel, objT, seen) ==
  IF sel = <<>> THEN [es |-> <<>>, seen |-> seen]
  ELSE LET s == Head(sel)
           here == CASE Skipped(s.dir) -> [es |-> <<>>, seen |-> seen]
                     [] s.k = "field" -> [es |-> <<[rn |-> IF s.alias = "" THEN s.name ELSE s.alias, node |-> s]>>, seen |-> seen]
                     [] s.k = "inline" -> IF Applies(s.name, objT) THEN Collect(s.sel, objT, seen) ELSE [es |-> <<>>, seen |-> seen]
                     [] s.k = "spread" -> IF s.name \in seen THEN [es |-> <<>>, seen |-> seen]
                                          ELSE IF Applies(FragLib[s.name].on, objT) THEN Collect(FragLib[s.name].sel, objT, seen \cup {s.name})
                                          ELSE [es |-> <<>>, seen |-> seen \cup {s.name}]
           rest == Collect(Tail(sel), objT, here.seen)
       IN [es |-> here.es \o rest.es, seen |-> rest.seen]
RECURSIVE Keys(_, _)
Keys(es, acc) == IF es = <<>> THEN acc ELSE Keys(Tail(es), IF \E i \in 1..Len(acc) : acc[i] = Head(es).rn THEN acc ELSE Append(acc, Head(es).rn))
Group(es, key) == SelectSeq(es, LAMBDA e : e.rn = key)
MergedSel(g) == FlattenSeq([i \in 1..Len(g) |-> g[i].node.sel])
RECURSIVE ExecSet(_, _, _)
RECURSIVE ExecObj(_, _, _)
\* value of resolving field f on an object of concrete type objT
Resolve(objT, f) ==
  CASE f = "__typename" -> [k |-> "str", v |-> objT]
    \* `a` takes an optional argument whose DEFAULT each type declares for itself (I: 0, Obj: 1, Obj2: 2 and a further optional argument,
    \* Query: 0 - legal: implementations may add optional arguments and choose their own defaults); no document passes the argument,
    \* so the value depends on the runtime type the field node is executed for ("of"), also when ONE node serves several types
    [] f = "a" -> IF world.errA /\ objT # "Query" THEN [k |-> "err"] ELSE [k |-> "int", of |-> objT]
    [] f = "s" -> IF world.nullS THEN [k |-> "null"] ELSE [k |-> "strv"]
    [] f = "n" -> [k |-> "strv"]
    [] f = "e" -> [k |-> "enumname"]            \* resolver returns the internal value, the response carries the name
    [] f = "c" -> [k |-> "cust"]                \* custom scalar: the response carries the serialised form
    [] f = "o" -> IF world.nullO /\ objT # "Query" THEN [k |-> "null"] ELSE [k |-> "obj", t |-> "Obj"]
    [] f = "i" -> [k |-> "obj", t |-> world.iType]
    [] f = "u" -> [k |-> "obj", t |-> world.uType]
    [] f = "os" -> [k |-> "list", items |-> <<[k |-> "obj", t |-> "Obj"], [k |-> "null"]>>]
    [] f = "is" -> [k |-> "list", items |-> <<[k |-> "obj", t |-> "Obj"], [k |-> "obj", t |-> "Obj2"], [k |-> "obj", t |-> "Obj"]>>]   \* mixed concrete types
NonNull(objT, f) == IF f = "__typename" THEN TRUE ELSE FieldsOf[objT][f].nn
ExecObj(v, sel, path) ==   \* v: [k |-> "obj", t] ; returns [data, errs]
  ExecSet(sel, v.t, path)
ExecSet(sel, objT, path) ==
  LET es == Collect(sel, objT, {}).es
      ks == Keys(es, <<>>)
      one(key) == LET g == Group(es, key)
                      f == g[1].node.name
                      r == Resolve(objT, f)
                      p == Append(path, key)
                  IN CASE r.k = "err" -> [data |-> [k |-> "null"], errs |-> <<p>>]
                       [] r.k = "null" -> [data |-> [k |-> "null"], errs |-> IF NonNull(objT, f) THEN <<p>> ELSE <<>>]
                       [] r.k = "obj" -> LET x == ExecSet(MergedSel(g), r.t, p) IN [data |-> [k |-> "obj", fs |-> x.data], errs |-> x.errs]
                       [] r.k = "list" -> LET xs == [i \in 1..Len(r.items) |->
                                                      IF r.items[i].k = "null" THEN [data |-> [k |-> "null"], errs |-> <<>>]
                                                      ELSE LET x == ExecSet(MergedSel(g), r.items[i].t, Append(p, i - 1)) IN [data |-> [k |-> "obj", fs |-> x.data], errs |-> x.errs]]
                                         IN [data |-> [k |-> "list", items |-> [i \in 1..Len(xs) |-> xs[i].data]], errs |-> FlattenSeq([i \in 1..Len(xs) |-> xs[i].errs])]
                       [] OTHER -> [data |-> r, errs |-> <<>>]
      rs == [i \in 1..Len(ks) |-> one(ks[i])]
  IN [data |-> [i \in 1..Len(ks) |-> [key |-> ks[i], v |-> rs[i].data]], errs |-> FlattenSeq([i \in 1..Len(ks) |-> rs[i].errs])]
Result == ExecSet(stack[1], "Query", <<>>)
Emit == done => PrintT("EXE " \o ToJson([sel |-> stack[1], world |-> world, r |-> Result]))
\* ---- R1 (C05 lemma): the reference is total and the data has exactly the shape of the selection ---------------------------
RECURSIVE WellShaped(_)
WellShaped(data) == \A i \in 1..Len(data) :
   /\ \A j \in 1..Len(data) : data[i].key = data[j].key => i = j            \* one unambiguous value per response key
   /\ (data[i].v.k = "obj" => WellShaped(data[i].v.fs))
   /\ (data[i].v.k = "list" => \A m \in 1..Len(data[i].v.items) : data[i].v.items[m].k = "obj" => WellShaped(data[i].v.items[m].fs))
Shape == done => WellShaped(Result.data)
\* errors sit exactly at null positions
RECURSIVE At(_, _)
At(data, path) == IF path = <<>> THEN [k |-> "objroot", fs |-> data]
                  ELSE LET p == At(data, Front(path))
                           last == path[Len(path)] IN
                       IF p.k \in {"obj", "objroot"} THEN (IF \E i \in 1..Len(p.fs) : p.fs[i].key = last THEN p.fs[CHOOSE i \in 1..Len(p.fs) : p.fs[i].key = last].v ELSE [k |-> "missing"])
                       ELSE IF p.k = "list" THEN p.items[last + 1] ELSE [k |-> "missing"]
ErrorsAtNulls == done => \A i \in 1..Len(Result.errs) : At(Result.data, Result.errs[i]).k = "null"
=============================================================================
