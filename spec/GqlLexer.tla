---------------------------- MODULE GqlLexer ----------------------------
(* Lexical grammar of GraphQL (June 2018, section 2.1) as a character-class automaton.

   The automaton consumes one character CLASS per step (TLC cannot index strings); the
   harness concretises every class with several code points (gamma in harness/lexgamma.py)
   and replays the behaviour into py_gql.lang.lexer.Lexer.  One behaviour = one source
   text (class string) + the token list the specification prescribes, or a lexical error.

   Deliberate, documented deviations from the June-2018 text (DESIGN Appendix B.2):
     * RFC 601 look-ahead: a number followed by a digit, '.' or a name start is an error.
       June 2018 itself would re-split such texts ("1a" -> Int Name); the library documents
       that it follows the RFC (CHANGES 0.5.0).  Every failure that only exists because of
       this look-ahead or because a number stopped half-way is flagged `contested`: the
       harness then accepts either verdict and compares no tokens.
     * RFC 599: `""` followed by `"` opens a block string.

   Token values: strings carry a sequence of ITEMS, each naming the source position the
   character comes from and how it is decoded (src: verbatim, esc: simple escape, uni:
   \uXXXX starting at p, q: a quote, lf: a line feed inserted by BlockStringValue).   *)
EXTENDS Naturals, Sequences, FiniteSets, TLC, Json, SequencesExt

CONSTANTS MaxLen,     \* maximal length of the text
          Prefix,     \* forced first classes (<<>> for whole-text mode)
          Alphabet    \* classes allowed after the prefix

Letters   == {"L_e", "L_u", "L_bf", "L_hex", "L_nrt", "L_x", "L_other"}   \* L_x: x X (not hex; "0x1f" is what int(s, 16) also accepts)
Digits    == {"D0", "D19"}
HexCls    == Digits \cup {"L_e", "L_bf", "L_hex"}
NameStart == Letters
NameCont  == Letters \cup Digits
Ignored   == {"Blank", "Ign", "LF", "CR"}
NonAscii  == {"UDigit", "UAlnum", "ULineSep", "UBlank", "UOther"}
Classes   == Letters \cup Digits \cup Ignored \cup NonAscii \cup
             {"Minus", "Plus", "Dot", "Quote", "Bslash", "Slash", "Hash", "Punct", "Ctrl", "AsciiBad"}

VARIABLES inp, mode, k, ts, acc, toks, err, fin, contested, how
vars == <<inp, mode, k, ts, acc, toks, err, fin, contested, how>>
Pos == Len(inp)            \* 0-based index of the character being consumed

Item(t, p, c) == [t |-> t, p |-> p, c |-> c]
Tok(kind, s, e, v) == [kind |-> kind, s |-> s, e |-> e, v |-> v]

\* ---------- BlockStringValue (spec section 2.9.4) over item sequences --------------
IsLT(i) == i.t = "src" /\ i.c \in {"LF", "CR"}
IsWS(i) == i.t = "src" /\ i.c = "Blank"
RECURSIVE SplitLines(_, _)
SplitLines(raw, cur) ==
  IF raw = <<>> THEN <<cur>>
  ELSE LET h == Head(raw) IN
       IF IsLT(h) THEN
         IF h.c = "CR" /\ Len(raw) > 1 /\ IsLT(raw[2]) /\ raw[2].c = "LF"
           THEN <<cur>> \o SplitLines(Tail(Tail(raw)), <<>>)
           ELSE <<cur>> \o SplitLines(Tail(raw), <<>>)
       ELSE SplitLines(Tail(raw), Append(cur, h))
RECURSIVE Lead(_)
Lead(line) == IF line # <<>> /\ IsWS(Head(line)) THEN 1 + Lead(Tail(line)) ELSE 0
Blankline(line) == Lead(line) = Len(line)
MinOf(S) == CHOOSE x \in S : \A y \in S : x <= y
RECURSIVE DropN(_, _)
DropN(s, n) == IF n = 0 \/ s = <<>> THEN s ELSE DropN(Tail(s), n - 1)
RECURSIVE TrimFront(_)
TrimFront(ls) == IF ls # <<>> /\ Blankline(Head(ls)) THEN TrimFront(Tail(ls)) ELSE ls
RECURSIVE TrimBack(_)
TrimBack(ls) == IF ls # <<>> /\ Blankline(Last(ls)) THEN TrimBack(Front(ls)) ELSE ls
RECURSIVE Join(_)
Join(ls) == IF ls = <<>> THEN <<>> ELSE IF Len(ls) = 1 THEN ls[1]
            ELSE ls[1] \o <<Item("lf", 0, "LF")>> \o Join(Tail(ls))
BlockStringValue(raw) ==
  LET lines == SplitLines(raw, <<>>)
      cands == {Lead(lines[i]) : i \in {j \in 2..Len(lines) : ~Blankline(lines[j])}}
      ci == IF cands = {} THEN 0 ELSE MinOf(cands)
      ded == [i \in 1..Len(lines) |-> IF i = 1 THEN lines[i] ELSE DropN(lines[i], ci)]
  IN Join(TrimBack(TrimFront(ded)))

\* ---------- automaton ------------------------------------------------------
Init == /\ inp = <<>> /\ mode = "Start" /\ k = 0 /\ ts = 0 /\ acc = <<>> /\ toks = <<>>
        /\ err = FALSE /\ fin = FALSE /\ contested = FALSE /\ how = "run"

Fail    == /\ err' = TRUE /\ fin' = TRUE /\ UNCHANGED <<mode, k, ts, acc, toks, contested>>
FailNum == /\ err' = TRUE /\ fin' = TRUE /\ contested' = TRUE /\ UNCHANGED <<mode, k, ts, acc, toks>>
Emit(kind, s, e, v, m2, ts2, acc2, k2) ==
  /\ toks' = Append(toks, Tok(kind, s, e, v))
  /\ mode' = m2 /\ ts' = ts2 /\ acc' = acc2 /\ k' = k2 /\ UNCHANGED <<err, fin, contested>>
Go(m2, k2, acc2) == /\ mode' = m2 /\ k' = k2 /\ acc' = acc2 /\ UNCHANGED <<toks, err, fin, ts, contested>>

\* class c arrives at a token boundary (position Pos), the token list so far being tk
AtStart(c, tk) ==
  LET base == /\ toks' = tk /\ UNCHANGED <<err, fin, contested>> IN
  CASE c \in Ignored  -> base /\ mode' = "Start" /\ k' = 0 /\ acc' = <<>> /\ ts' = ts
    [] c = "Hash"     -> base /\ mode' = "Comment" /\ k' = 0 /\ acc' = <<>> /\ ts' = ts
    [] c = "Punct"    -> /\ toks' = Append(tk, Tok("Punct", Pos, Pos + 1, <<>>)) /\ mode' = "Start"
                         /\ k' = 0 /\ acc' = <<>> /\ ts' = ts /\ UNCHANGED <<err, fin, contested>>
    [] c = "Dot"      -> base /\ mode' = "Dots" /\ k' = 1 /\ acc' = <<>> /\ ts' = Pos
    [] c = "Quote"    -> base /\ mode' = "Q1" /\ k' = 0 /\ acc' = <<>> /\ ts' = Pos
    [] c = "Minus"    -> base /\ mode' = "NumMinus" /\ k' = 0 /\ acc' = <<>> /\ ts' = Pos
    [] c = "D0"       -> base /\ mode' = "NumZero" /\ k' = 0 /\ acc' = <<>> /\ ts' = Pos
    [] c = "D19"      -> base /\ mode' = "NumInt" /\ k' = 0 /\ acc' = <<>> /\ ts' = Pos
    [] c \in NameStart -> base /\ mode' = "Name" /\ k' = 0 /\ acc' = <<>> /\ ts' = Pos
    [] OTHER          -> /\ toks' = tk /\ err' = TRUE /\ fin' = TRUE /\ UNCHANGED <<mode, k, ts, acc, contested>>

EndTok(kind, v, c) == AtStart(c, Append(toks, Tok(kind, ts, Pos, v)))
NumEnd(kind, c) == IF c \in NameStart \/ c \in Digits \/ c = "Dot" THEN FailNum ELSE EndTok(kind, <<>>, c)
StrChar(c) == c \notin {"Quote", "Bslash", "LF", "CR", "Ctrl"}
InBlock(c, a) ==
  CASE c = "Quote"  -> Go("BQ", 1, a)
    [] c = "Bslash" -> Go("BEsc", 0, a)
    [] c = "Ctrl"   -> Fail
    [] OTHER        -> Go("Block", 0, Append(a, Item("src", Pos, c)))
Quotes(n, p) == [i \in 1..n |-> Item("q", p + i - 1, "Quote")]

Allowed(c) == IF Len(inp) < Len(Prefix) THEN c = Prefix[Len(inp) + 1] ELSE c \in Alphabet

Step(c) ==
  /\ ~fin /\ Len(inp) < MaxLen /\ Allowed(c)
  /\ inp' = Append(inp, c) /\ how' = "step"
  /\ CASE mode = "Start"   -> AtStart(c, toks)
       [] mode = "Comment" -> IF c \in {"LF", "CR"} THEN AtStart(c, toks)
                              ELSE IF c = "Ctrl" THEN Fail ELSE Go("Comment", 0, <<>>)
       [] mode = "Name"    -> IF c \in NameCont THEN Go("Name", 0, <<>>) ELSE EndTok("Name", <<>>, c)
       [] mode = "NumMinus" -> IF c = "D0" THEN Go("NumZero", 0, <<>>) ELSE IF c = "D19" THEN Go("NumInt", 0, <<>>) ELSE Fail
       [] mode = "NumZero" -> IF c = "Dot" THEN Go("FracStart", 0, <<>>) ELSE IF c = "L_e" THEN Go("ExpStart", 0, <<>>) ELSE NumEnd("Int", c)
       [] mode = "NumInt"  -> IF c \in Digits THEN Go("NumInt", 0, <<>>) ELSE IF c = "Dot" THEN Go("FracStart", 0, <<>>)
                              ELSE IF c = "L_e" THEN Go("ExpStart", 0, <<>>) ELSE NumEnd("Int", c)
       [] mode = "FracStart" -> IF c \in Digits THEN Go("Frac", 0, <<>>) ELSE FailNum
       [] mode = "Frac"    -> IF c \in Digits THEN Go("Frac", 0, <<>>) ELSE IF c = "L_e" THEN Go("ExpStart", 0, <<>>) ELSE NumEnd("Float", c)
       [] mode = "ExpStart" -> IF c \in {"Plus", "Minus"} THEN Go("ExpSign", 0, <<>>) ELSE IF c \in Digits THEN Go("Exp", 0, <<>>) ELSE FailNum
       [] mode = "ExpSign" -> IF c \in Digits THEN Go("Exp", 0, <<>>) ELSE FailNum
       [] mode = "Exp"     -> IF c \in Digits THEN Go("Exp", 0, <<>>) ELSE NumEnd("Float", c)
       [] mode = "Dots"    -> IF c # "Dot" THEN Fail
                              ELSE IF k = 2 THEN Emit("Ellip", ts, Pos + 1, <<>>, "Start", ts, <<>>, 0) ELSE Go("Dots", k + 1, <<>>)
       [] mode = "Q1"      -> IF c = "Quote" THEN Go("Q2", 0, <<>>)
                              ELSE IF c = "Bslash" THEN Go("Esc", 0, <<>>)
                              ELSE IF StrChar(c) THEN Go("Str", 0, <<Item("src", Pos, c)>>) ELSE Fail
       [] mode = "Q2"      -> IF c = "Quote" THEN Go("Block", 0, <<>>) ELSE EndTok("String", <<>>, c)
       [] mode = "Str"     -> IF c = "Quote" THEN Emit("String", ts, Pos + 1, acc, "Start", ts, <<>>, 0)
                              ELSE IF c = "Bslash" THEN Go("Esc", 0, acc)
                              ELSE IF StrChar(c) THEN Go("Str", 0, Append(acc, Item("src", Pos, c))) ELSE Fail
       [] mode = "Esc"     -> IF c \in {"Quote", "Bslash", "Slash", "L_bf", "L_nrt"} THEN Go("Str", 0, Append(acc, Item("esc", Pos, c)))
                              ELSE IF c = "L_u" THEN Go("Uni", 0, acc) ELSE Fail
       [] mode = "Uni"     -> IF c \notin HexCls THEN Fail
                              ELSE IF k = 3 THEN Go("Str", 0, Append(acc, Item("uni", Pos - 3, "hex"))) ELSE Go("Uni", k + 1, acc)
       [] mode = "Block"   -> InBlock(c, acc)
       [] mode = "BQ"      -> IF c = "Quote" THEN (IF k = 2 THEN Emit("BlockString", ts, Pos + 1, BlockStringValue(acc), "Start", ts, <<>>, 0) ELSE Go("BQ", 2, acc))
                              ELSE InBlock(c, acc \o Quotes(k, Pos - k))
       [] mode = "BEsc"    -> IF c = "Quote" THEN Go("BEQ", 1, acc) ELSE InBlock(c, Append(acc, Item("src", Pos - 1, "Bslash")))
       [] mode = "BEQ"     -> IF c = "Quote" THEN (IF k = 2 THEN Go("Block", 0, acc \o Quotes(3, Pos - 2)) ELSE Go("BEQ", 2, acc))
                              ELSE InBlock(c, Append(acc, Item("src", Pos - k - 1, "Bslash")) \o Quotes(k, Pos - k))

\* end of input
Eof ==
  /\ ~fin
  /\ inp' = inp /\ fin' = TRUE /\ how' = "eof"
  /\ CASE mode \in {"Start", "Comment"} -> UNCHANGED <<mode, k, ts, acc, toks, err, contested>>
       [] mode = "Name" -> toks' = Append(toks, Tok("Name", ts, Pos, <<>>)) /\ UNCHANGED <<mode, k, ts, acc, err, contested>>
       [] mode \in {"NumZero", "NumInt"} -> toks' = Append(toks, Tok("Int", ts, Pos, <<>>)) /\ UNCHANGED <<mode, k, ts, acc, err, contested>>
       [] mode \in {"Frac", "Exp"} -> toks' = Append(toks, Tok("Float", ts, Pos, <<>>)) /\ UNCHANGED <<mode, k, ts, acc, err, contested>>
       [] mode = "Q2" -> toks' = Append(toks, Tok("String", ts, Pos, <<>>)) /\ UNCHANGED <<mode, k, ts, acc, err, contested>>
       [] mode \in {"FracStart", "ExpStart", "ExpSign"} -> err' = TRUE /\ contested' = TRUE /\ UNCHANGED <<mode, k, ts, acc, toks>>
       [] OTHER -> err' = TRUE /\ UNCHANGED <<mode, k, ts, acc, toks, contested>>

Next == (\E c \in Classes : Step(c)) \/ Eof
Spec == Init /\ [][Next]_vars

\* R2 channel: one line per terminal state
Out == fin => PrintT("LEX " \o ToJson([inp |-> inp, err |-> err, c |-> contested, toks |-> toks, mode |-> mode, how |-> how]))

\* R1, design-level sanity of the reference itself
Sane == \A i \in 1..Len(toks) : toks[i].s < toks[i].e /\ toks[i].e <= Len(inp) /\ (i > 1 => toks[i-1].e <= toks[i].s)
\* every item of a decoded value refers to a position inside its token
ItemsInside == \A i \in 1..Len(toks) : \A j \in 1..Len(toks[i].v) :
                  toks[i].v[j].t = "lf" \/ (toks[i].s <= toks[i].v[j].p /\ toks[i].v[j].p < toks[i].e)
\* block-string values never start or end with a blank line and BlockStringValue is idempotent on them
RECURSIVE AsRaw(_)
AsRaw(v) == IF v = <<>> THEN <<>> ELSE
            <<(IF Head(v).t = "lf" THEN Item("src", 0, "LF") ELSE IF Head(v).t = "q" THEN Item("src", Head(v).p, "Quote") ELSE Head(v))>> \o AsRaw(Tail(v))
BlockIdem == \A i \in 1..Len(toks) : toks[i].kind = "BlockString" =>
               LET v == toks[i].v
                   ls == SplitLines(AsRaw(v), <<>>) IN
               /\ (v # <<>> => ~Blankline(Head(ls)) /\ ~Blankline(Last(ls)))
=============================================================================
