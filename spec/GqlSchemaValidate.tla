---------------------------- MODULE GqlSchemaValidate ----------------------------
(* C13, part 1: labelled rule violations injected into the valid base schema of GqlDiff.  TLC enumerates every single
   violation, every pair of different violations, and the 6 x 6 wrapper matrix of (interface field type, implementing field
   type) whose validity is decided by the covariance predicate D!OutOk.  The harness realises each schema in code (also with
   the type list reversed) and requires: validate_schema raises exactly for the invalid ones, and for pairs the error list
   mentions both injected elements (all violations are reported together).                                            *)
EXTENDS Naturals, Sequences, FiniteSets, TLC, Json, SequencesExt
D == INSTANCE GqlDiff WITH e <- 0, f <- 0, Pairs <- FALSE
Named(n) == D!Named(n)
ListOf(t) == D!ListOf(t)
NN(t) == D!NN(t)
Base == D!Base
T(s, n) == s.types[D!TIdx(s, n)]
Set(s, n, t) == D!WithType(s, D!TIdx(s, n), t)
\* each violation: [label, new]
Violations(s) == {
  [label |-> "empty-object", new |-> Set(s, "B", [T(s, "B") EXCEPT !.fields = <<>>])],
  [label |-> "duplicate-field", new |-> Set(s, "B", [T(s, "B") EXCEPT !.fields = Append(@, D!Fld("id", Named("ID"), <<>>))])],
  [label |-> "bad-field-name", new |-> Set(s, "B", [T(s, "B") EXCEPT !.fields = Append(@, D!Fld("__bad", Named("ID"), <<>>))])],
  [label |-> "bad-type-name", new |-> [s EXCEPT !.types = Append(@, [k |-> "scalar", name |-> "__Bad"])]],
  \* the name rule holds for EVERY named element: arguments, input fields, enum values; a name is the WHOLE string
  \* (/[_A-Za-z][_0-9A-Za-z]*/ anchored at both ends: a trailing line feed is not part of a name)
  [label |-> "bad-argument-name", new |-> Set(s, "B", [T(s, "B") EXCEPT !.fields = Append(@, D!Fld("wa", Named("Int"), <<D!Arg("__badarg", Named("Int"))>>))])],
  [label |-> "bad-input-field-name", new |-> Set(s, "In", [T(s, "In") EXCEPT !.fields = Append(@, D!Arg("__badin", Named("Int")))])],
  [label |-> "bad-input-field-name-dash", new |-> Set(s, "In", [T(s, "In") EXCEPT !.fields = Append(@, D!Arg("bad-dash", Named("Int")))])],
  [label |-> "bad-enum-value-name", new |-> Set(s, "E", [T(s, "E") EXCEPT !.values = Append(@, [name |-> "__BADV", dep |-> "", py |-> "bv"])])],
  [label |-> "field-name-with-trailing-newline", new |-> Set(s, "B", [T(s, "B") EXCEPT !.fields = Append(@, D!Fld("nlname\n", Named("ID"), <<>>))])],
  [label |-> "type-name-with-trailing-newline", new |-> [s EXCEPT !.types = Append(@, [k |-> "scalar", name |-> "NlType\n"])]],
  [label |-> "input-type-in-output-position", new |-> Set(s, "B", [T(s, "B") EXCEPT !.fields = Append(@, D!Fld("w", Named("In"), <<>>))])],
  [label |-> "output-type-in-argument", new |-> Set(s, "B", [T(s, "B") EXCEPT !.fields = Append(@, D!Fld("w", Named("Int"), <<D!Arg("q", Named("A"))>>))])],
  [label |-> "output-type-in-input-field", new |-> Set(s, "In", [T(s, "In") EXCEPT !.fields = Append(@, D!Arg("q", ListOf(Named("A"))))])],
  [label |-> "interface-field-missing", new |-> Set(s, "A", [T(s, "A") EXCEPT !.fields = Tail(@)])],
  [label |-> "interface-field-not-covariant", new |-> Set(s, "A", [T(s, "A") EXCEPT !.fields[1].type = Named("Int")])],
  [label |-> "interface-field-not-covariant-nullability", new |-> Set(Set(s, "Node", [T(s, "Node") EXCEPT !.fields[1].type = NN(Named("ID"))]), "A", T(s, "A"))],
  [label |-> "interface-field-not-covariant-list", new |-> Set(Set(s, "Node", [T(s, "Node") EXCEPT !.fields[1].type = ListOf(NN(Named("ID")))]), "A", [T(s, "A") EXCEPT !.fields[1].type = ListOf(Named("ID"))])],
  [label |-> "interface-arg-missing", new |-> Set(s, "Node", [T(s, "Node") EXCEPT !.fields[1].args = <<D!Arg("q", Named("Int"))>>])],
  [label |-> "interface-arg-type-differs", new |-> Set(Set(s, "Node", [T(s, "Node") EXCEPT !.fields[1].args = <<D!Arg("q", Named("Int"))>>]), "A", [T(s, "A") EXCEPT !.fields[1].args = <<D!Arg("q", Named("String"))>>])],
  [label |-> "extra-required-arg", new |-> Set(s, "A", [T(s, "A") EXCEPT !.fields[1].args = <<D!Arg("q", NN(Named("Int")))>>])],
  [label |-> "union-member-not-object", new |-> Set(s, "U", [T(s, "U") EXCEPT !.members = Append(@, "Node")])],
  [label |-> "union-duplicate-member", new |-> Set(s, "U", [T(s, "U") EXCEPT !.members = Append(@, "A")])],
  [label |-> "empty-union", new |-> Set(s, "U", [T(s, "U") EXCEPT !.members = <<>>])],
  [label |-> "empty-enum", new |-> Set(s, "E", [T(s, "E") EXCEPT !.values = <<>>])],
  [label |-> "empty-input", new |-> Set(s, "In", [T(s, "In") EXCEPT !.fields = <<>>])],
  [label |-> "duplicate-input-field", new |-> Set(s, "In", [T(s, "In") EXCEPT !.fields = Append(@, D!Arg("f", Named("Int")))])],
  [label |-> "root-not-object", new |-> [s EXCEPT !.query = "Node"]],
  [label |-> "no-query-root", new |-> [s EXCEPT !.query = ""]],
  [label |-> "valid-covariant-object-for-interface", new |-> Set(s, "Query", [T(s, "Query") EXCEPT !.fields = Append(@, D!Fld("nn", NN(Named("A")), <<>>))])] }
Valid(l) == l \in {"valid-covariant-object-for-interface"}
\* every label names the element an error message must mention (attribution for pairs)
Mention == [x \in {v.label : v \in Violations(Base)} |->
   CASE x \in {"empty-object", "duplicate-field", "input-type-in-output-position", "output-type-in-argument"} -> "B"
     [] x = "bad-field-name" -> "__bad"  [] x = "bad-type-name" -> "__Bad"
     [] x = "bad-argument-name" -> "__badarg"  [] x = "bad-input-field-name" -> "__badin"  [] x = "bad-input-field-name-dash" -> "bad-dash"
     [] x = "bad-enum-value-name" -> "__BADV"  [] x = "field-name-with-trailing-newline" -> "nlname"  [] x = "type-name-with-trailing-newline" -> "NlType"
     [] x \in {"output-type-in-input-field", "empty-input", "duplicate-input-field"} -> "In"
     [] x \in {"union-member-not-object", "union-duplicate-member", "empty-union"} -> "U"
     [] x = "empty-enum" -> "E"
     [] x \in {"root-not-object", "no-query-root"} -> "uery"
     [] OTHER -> "Node"]
\* which types a violation edits (pairs are only combined when they edit different types, so both stay injected)
Edits(x) == CASE x \in {"empty-object", "duplicate-field", "bad-field-name", "input-type-in-output-position", "output-type-in-argument",
                         "bad-argument-name", "field-name-with-trailing-newline"} -> {"B"}
              [] x = "bad-type-name" -> {"__Bad"}
              [] x = "type-name-with-trailing-newline" -> {"NlType"}
              [] x = "bad-enum-value-name" -> {"E"}
              [] x \in {"output-type-in-input-field", "empty-input", "duplicate-input-field", "bad-input-field-name", "bad-input-field-name-dash"} -> {"In"}
              [] x \in {"union-member-not-object", "union-duplicate-member", "empty-union"} -> {"U"}
              [] x = "empty-enum" -> {"E"}
              [] x \in {"root-not-object", "no-query-root", "valid-covariant-object-for-interface"} -> {"Query"}
              [] OTHER -> {"A", "Node"}
\* covariance matrix: interface Node.id : it, object A.id : ot
Matrix == {[label |-> "covariance", it |-> it, ot |-> ot,
            new |-> Set(Set(s0, "Node", [T(s0, "Node") EXCEPT !.fields[1].type = it]), "A", [T(s0, "A") EXCEPT !.fields[1].type = ot]),
            valid |-> D!OutOk(it, ot)] : it \in D!Variants("ID"), ot \in D!Variants("ID"), s0 \in {Base}}
VARIABLES v, w, mode
vars == <<v, w, mode>>
Compose(a, b) ==   \* apply b's type edits on top of a (different types, so order is irrelevant)
  [a.new EXCEPT !.types = [i \in 1..Len(@) |-> IF @[i].name \in Edits(b.label) /\ \E j \in 1..Len(b.new.types) : b.new.types[j].name = @[i].name
                                                   THEN b.new.types[CHOOSE j \in 1..Len(b.new.types) : b.new.types[j].name = @[i].name] ELSE @[i]]]
Init == \/ /\ mode = "single" /\ v \in Violations(Base) /\ w = [label |-> "none"]
        \/ /\ mode = "pair" /\ v \in {x \in Violations(Base) : ~Valid(x.label)}
            /\ w \in {x \in Violations(Base) : ~Valid(x.label) /\ Edits(x.label) \cap Edits(v.label) = {} /\ x.label \notin {"bad-type-name", "type-name-with-trailing-newline", "root-not-object", "no-query-root"}
                                                  /\ v.label \notin {"bad-type-name", "type-name-with-trailing-newline", "root-not-object", "no-query-root"}}
        \/ /\ mode = "matrix" /\ v \in Matrix /\ w = [label |-> "none"]
        \* two violations on ONE field of one implementation: its type is not covariant AND an interface argument is missing
        \/ /\ mode = "double" /\ w = [label |-> "none"]
            /\ v = [label |-> "double", new |-> Set(Set(Base, "Node", [T(Base, "Node") EXCEPT !.fields[1].args = <<D!Arg("q", Named("Int"))>>]),
                                                    "A", [T(Base, "A") EXCEPT !.fields[1].type = Named("Int")])]
Next == FALSE /\ UNCHANGED vars
Spec == Init /\ [][Next]_vars
Emit == PrintT("VIO " \o ToJson(
   IF mode = "single" THEN [mode |-> mode, labels |-> <<v.label>>, mention |-> <<Mention[v.label]>>, new |-> v.new, valid |-> Valid(v.label)]
   ELSE IF mode = "pair" THEN [mode |-> mode, labels |-> <<v.label, w.label>>, mention |-> <<Mention[v.label], Mention[w.label]>>, new |-> Compose(v, w), valid |-> FALSE]
   ELSE IF mode = "double" THEN [mode |-> "pair", labels |-> <<"interface-field-not-covariant", "interface-arg-missing-on-the-same-field">>,
                                 mention |-> <<"expects type", "is not provided by">>, new |-> v.new, valid |-> FALSE]
   ELSE [mode |-> mode, labels |-> <<"covariance">>, mention |-> <<"Node">>, new |-> v.new, valid |-> v.valid, it |-> v.it, ot |-> v.ot]))
=============================================================================
