---------------------------- MODULE GqlPrintHistory ----------------------------
(* C12, history part: schema serialisation is a PURE FUNCTION of (schema value, option set).

   The process holds NS schema objects; the only action is Serialise(i, o): serialise schema i with option set o.  The text it
   returns must be F(i, o) for one fixed F whatever was printed before - in this process or in any other.  TLC enumerates
   every call sequence of length <= MaxCalls; the harness runs every sequence in a FRESH process (forked before anything was
   printed), records the returned texts and requires that all texts recorded for the same (i, o) - across all positions of
   all sequences - are identical, parse, and rebuild to the same schema.
   `first` is the history variable that states the requirement inside the model: once a text identity has been observed for
   (i, o) every later Serialise(i, o) must return the same identity (texts are abstracted to the pair itself).            *)
EXTENDS Naturals, Sequences, FiniteSets, TLC, Json
CONSTANTS NS, NO, MaxCalls
VARIABLES calls, first
vars == <<calls, first>>
Init == calls = <<>> /\ first = [p \in (1..NS) \X (1..NO) |-> 0]
Serialise(i, o) == /\ Len(calls) < MaxCalls
               /\ calls' = Append(calls, <<i, o>>)
               /\ first' = IF first[<<i, o>>] = 0 THEN [first EXCEPT ![<<i, o>>] = Len(calls) + 1] ELSE first
Next == \E i \in 1..NS, o \in 1..NO : Serialise(i, o)
Spec == Init /\ [][Next]_vars
\* the requirement: the k-th call returns the text of the first call with the same arguments
SameAsFirst == \A k \in 1..Len(calls) : first[calls[k]] # 0 /\ first[calls[k]] <= k /\ calls[first[calls[k]]] = calls[k]
Emit == Len(calls) = MaxCalls => PrintT("PRN " \o ToJson(calls))
=============================================================================
