---------------------------- MODULE GqlGrammarGen ----------------------------
(* R2 generator: every sentence (token-kind skeleton) of at most MaxTok tokens derivable from
   Start, together with its derivation events  <<"enter"|"leave", NodeKind, tokenIndex>>.
   One behaviour = one leftmost derivation; the terminal state prints one SENT line.        *)
EXTENDS GqlGrammar, Json
CONSTANTS MaxTok, Start, TS, FV,
          Prefix      \* focus: only sentences whose first tokens are Prefix (<<>> = no focus)
VARIABLES stack, out, ev, ban
vars == <<stack, out, ev, ban>>
Init == stack = <<N(Start)>> /\ out = <<>> /\ ev = <<>> /\ ban = ""
top == Head(stack)
rest == Tail(stack)
Expand  == /\ top[1] = "N"
           /\ \E i \in 1..Len(Prods(top[2], TS, FV)) : stack' = Prods(top[2], TS, FV)[i] \o rest
           /\ UNCHANGED <<out, ev, ban>>
Enter   == /\ top[1] = "Node"
           /\ stack' = top[3] \o <<<<"End", top[2]>>>> \o rest
           /\ ev' = Append(ev, <<"enter", top[2], Len(out) + 1>>)
           /\ UNCHANGED <<out, ban>>
Leave   == /\ top[1] = "End"
           /\ stack' = rest
           /\ ev' = Append(ev, <<"leave", top[2], Len(out)>>)
           /\ UNCHANGED <<out, ban>>
OptStep == /\ top[1] = "Opt"
           /\ (stack' = rest \/ stack' = <<top[2]>> \o rest)
           /\ UNCHANGED <<out, ev, ban>>
PlusStep == /\ top[1] = "Plus"
            /\ stack' = <<top[2], Star(top[2])>> \o rest
            /\ UNCHANGED <<out, ev, ban>>
StarStep == /\ top[1] = "Star"
            /\ (stack' = rest \/ stack' = <<top[2], Star(top[2])>> \o rest)
            /\ UNCHANGED <<out, ev, ban>>
Shift   == /\ top[1] = "T" /\ top[2] # ban
           /\ out' = Append(out, top[2])
           /\ stack' = rest /\ ban' = ""
           /\ UNCHANGED ev
BanStep == /\ top[1] = "Ban"
           /\ stack' = rest /\ ban' = top[2]
           /\ UNCHANGED <<out, ev>>
Next == stack # <<>> /\ (Expand \/ Enter \/ Leave \/ OptStep \/ PlusStep \/ StarStep \/ Shift \/ BanStep)
Spec == Init /\ [][Next]_vars
Bound == /\ Len(out) + MinLen(stack) <= MaxTok
         /\ \A i \in 1..Len(out) : i <= Len(Prefix) => out[i] = Prefix[i]
Emit == (stack = <<>> /\ Len(out) >= Len(Prefix)) => PrintT("SENT " \o ToJson([toks |-> out, ev |-> ev]))
\* R1: derivation events are balanced and token indices are monotone
RECURSIVE Balanced(_, _)
Balanced(e, st) == IF e = <<>> THEN st = <<>>
                   ELSE IF Head(e)[1] = "enter" THEN Balanced(Tail(e), <<Head(e)[2]>> \o st)
                   ELSE st # <<>> /\ Head(st) = Head(e)[2] /\ Balanced(Tail(e), Tail(st))
WellNested == stack = <<>> => Balanced(ev, <<>>)
=============================================================================
