---------------------------- MODULE GqlSchemaMemo ----------------------------
(* C13, part 2: the verdict of Schema.validate() is recomputed after resolvers are (re)assigned.

   Schema of the harness:  type Query { strict(a: String!): Int   loose(a: String): Int   plain: Int }
   Resolver signature classes (realised as Python functions by the harness):
     exact     (root, ctx, info, a)        compatible with `strict`, NOT with `loose` (optional argument without default
                                           needs a parameter default), not needed by `plain`... and incompatible with `plain`
                                           (a required parameter that matches no argument)
     default   (root, ctx, info, a=None)   compatible with every field
     kwargs    (root, ctx, info, **kw)     compatible with every field
     missing   (root, ctx, info)           incompatible with `strict` and `loose` (no parameter for a), fine for `plain`
     few       (root, ctx)                 incompatible with every field (fewer than 3 positional parameters)
     varargs   (root, ctx, info, *args)    like missing: field arguments are passed by keyword, *args cannot receive them
     short     (root, ctx, a=None)         for a field with argument a only two positionals remain for (root, ctx, info): incompatible;
                                           for `plain` the parameter a is the third positional: compatible
     argfirst  (a, root, ctx, info)        resolvers are called as resolver(root, ctx, info, **arguments): a parameter named like an
                                           argument among the first three positionals receives two values - incompatible with `strict`
                                           and `loose`; for `plain` the fourth positional matches no argument: incompatible
   State: res[f] = signature class assigned to field f ("none" = no resolver), memo = what validate() last concluded.
   Actions: Register(f, c) (with override), Validate.  The specification's verdict is a function of the CURRENT state:
   every Validate step records whether validate() must raise.  The same function object may be assigned to several fields
   (harness: one object per class), which exposes verdict caches keyed too coarsely.
   The machine is bound twice: to a freshly built schema, and to a CLONE of a schema that was validated and queried before - a
   clone is a machine of its own (Init is its state whatever its source was told) and nothing it is told reaches the source,
   which must validate after every step.                                                                                *)
EXTENDS Naturals, Sequences, FiniteSets, TLC, Json
CONSTANT MaxOps
Fields == {"strict", "loose", "plain"}
Classes == {"exact", "default", "kwargs", "missing", "few", "varargs", "short", "argfirst"}
Compatible(f, c) ==
  CASE c = "none" -> TRUE
    [] c \in {"default", "kwargs"} -> TRUE
    [] c = "exact" -> f = "strict"
    [] c \in {"missing", "varargs", "short"} -> f = "plain"
    [] c \in {"few", "argfirst"} -> FALSE
\* Three levels of resolvers: the field's own (res[f]), the default resolver of its type (tdef: register_default_resolver) and the
\* schema wide default (sdef: schema.default_resolver = f, the documented assignment).  The resolver that SERVES a field - and whose
\* signature therefore matters - is the first one set in that order, as in the executor; without any, the library's own default
\* resolver serves it (always compatible).
DefaultClasses == {"kwargs", "missing"}
VARIABLES res, tdef, sdef, hist
vars == <<res, tdef, sdef, hist>>
Init == res = [f \in Fields |-> "none"] /\ tdef = "none" /\ sdef = "none" /\ hist = <<>>
Serving(f) == IF res[f] # "none" THEN res[f] ELSE IF tdef # "none" THEN tdef ELSE sdef
MustRaise == \E f \in Fields : ~Compatible(f, Serving(f))
Register(f, c) == /\ Len(hist) < MaxOps
                  /\ res' = [res EXCEPT ![f] = c]
                  /\ hist' = Append(hist, [op |-> "register", f |-> f, c |-> c, raises |-> FALSE])
                  /\ UNCHANGED <<tdef, sdef>>
RegisterTypeDefault(c) == /\ Len(hist) < MaxOps
                          /\ tdef' = c
                          /\ hist' = Append(hist, [op |-> "type-default", f |-> "", c |-> c, raises |-> FALSE])
                          /\ UNCHANGED <<res, sdef>>
\* assigning the schema wide default is a reassignment of resolvers like the others: the next verdict is that of the new state
\* (building a schema from SDL already validates it once, so the documented assignment always comes after a validation)
SetSchemaDefault(c) == /\ Len(hist) < MaxOps
                       /\ sdef' = c
                       /\ hist' = Append(hist, [op |-> "schema-default", f |-> "", c |-> c, raises |-> FALSE])
                       /\ UNCHANGED <<res, tdef>>
Validate == /\ Len(hist) < MaxOps
            /\ hist' = Append(hist, [op |-> "validate", f |-> "", c |-> "", raises |-> MustRaise])
            /\ UNCHANGED <<res, tdef, sdef>>
Next == Validate \/ (\E f \in Fields, c \in Classes : Register(f, c)) \/ (\E c \in DefaultClasses : RegisterTypeDefault(c) \/ SetSchemaDefault(c))
Spec == Init /\ [][Next]_vars
\* a register directly followed by another register of the same field is subsumed; keep sequences that end with validate
Interesting == Len(hist) = MaxOps /\ hist[Len(hist)].op = "validate" /\ \E i \in 1..Len(hist) : hist[i].op # "validate"
Emit == Interesting => PrintT("MEM " \o ToJson(hist))
=============================================================================
