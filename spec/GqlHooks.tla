---------------------------- MODULE GqlHooks ----------------------------
(* C16 trace judge: instrumentation hooks, middlewares and resolver calls of ONE request, as recorded from the real
   code by harness/schedreplay.Recorder (every event carries its arguments, so the search is linear).

   Event record: [e, i, m, p]
     e in qs qe (query) ps pe (parsing) vs ve (validation) es ee (execution): stage start / end of instrumentation i
          fs fe : field start / end hook of instrumentation i for response path p
          mwin mwout : middleware m entered / left for path p      res : the resolver body ran for path p
   Trace record: [events, ninstr, nmw, crash]  (crash: an unexpected resolver exception aborts the request; then only
   the prefix discipline is required, not completion).

   Discipline (the property):
     * stage hooks form a stack: starts of the ninstr stacked instrumentations in index order, ends in reverse order;
       everything nests inside the query stage; each stage at most once; a started stage is ended.
     * per field path: fs (all instrumentations, in order) -> middlewares entered last-listed first -> resolver
       -> fe (reverse order), each exactly once; fields of different paths may interleave; field events only inside the
       execution stage.
   Subscription traces (sub = TRUE, recorded around py_gql.execution.subscribe): there is no query / parsing / validation
   stage; the execution stage brackets the set-up of the source stream and is over when the stream is returned; the field
   hooks of every delivered event then form one segment closed by the pseudo event "ev" (written by the harness when the result
   of that event is delivered).  Every stage still fires AT MOST ONCE for the whole subscription, every segment obeys the field
   discipline, and a segment leaves no field open.
   A trace is accepted when all events are consumed and the terminal condition holds; otherwise Reject fires at the first
   event no rule allows and the verdict line names position, event and reason.                                       *)
EXTENDS Naturals, Sequences, FiniteSets, TLC, Json, IOUtils
Traces == JsonDeserialize(IOEnv.TRACE_FILE)
VARIABLES tid, l, stack, fld, seen, verdict
vars == <<tid, l, stack, fld, seen, verdict>>
Tr == Traces[tid].events
NI == Traces[tid].ninstr
NM == Traces[tid].nmw
Sub == Traces[tid].sub
Ev == Tr[l]
StageOf(e) == CASE e \in {"qs", "qe"} -> "q" [] e \in {"ps", "pe"} -> "p" [] e \in {"vs", "ve"} -> "v" [] e \in {"es", "ee"} -> "x" [] OTHER -> "-"
IsStart(e) == e \in {"qs", "ps", "vs", "es"}
IsEnd(e) == e \in {"qe", "pe", "ve", "ee"}
Init == tid \in 1..Len(Traces) /\ l = 1 /\ stack = <<>> /\ fld = <<>> /\ seen = {} /\ verdict = "run"
\* stack: sequence of [s |-> stage, n |-> instrumentations started, m |-> instrumentations ended]
Top == stack[Len(stack)]
FIdx(p) == {k \in 1..Len(fld) : fld[k].p = p}
FRec(p) == IF FIdx(p) = {} THEN [p |-> p, fs |-> 0, depth |-> 0, res |-> 0, out |-> 0, fe |-> 0] ELSE fld[CHOOSE k \in FIdx(p) : TRUE]
SetF(r) == IF FIdx(r.p) = {} THEN Append(fld, r) ELSE [fld EXCEPT ![CHOOSE k \in FIdx(r.p) : TRUE] = r]
InExec == \/ \E k \in 1..Len(stack) : stack[k].s = "x" /\ stack[k].n = NI /\ stack[k].m = 0
          \/ (Sub /\ "x" \in seen /\ stack = <<>>)
More == verdict = "run" /\ l <= Len(Tr)

\* ---- guards (one per rule) ---------------------------------------------------------------------------------------
GStageStart1 == /\ IsStart(Ev.e) /\ Ev.i = 1
                /\ StageOf(Ev.e) \notin seen
                /\ (IF stack = <<>> THEN TRUE ELSE (Top.n = NI /\ Top.m = 0))
                /\ (IF Sub THEN (stack = <<>> /\ StageOf(Ev.e) = "x") ELSE (StageOf(Ev.e) = "q" <=> stack = <<>>))
GStageStartN == /\ IsStart(Ev.e) /\ Ev.i > 1
                /\ stack # <<>> /\ Top.s = StageOf(Ev.e) /\ Top.n = Ev.i - 1 /\ Top.m = 0
GStageEnd == /\ IsEnd(Ev.e) /\ stack # <<>> /\ Top.s = StageOf(Ev.e) /\ Top.n = NI /\ Ev.i = NI - Top.m
GFieldStart == /\ Ev.e = "fs" /\ InExec /\ FRec(Ev.p).fs = Ev.i - 1 /\ FRec(Ev.p).res = 0 /\ FRec(Ev.p).depth = 0
GMwIn == /\ Ev.e = "mwin" /\ FRec(Ev.p).fs = NI /\ FRec(Ev.p).res = 0 /\ Ev.m = NM - FRec(Ev.p).depth
GRes == /\ Ev.e = "res" /\ FRec(Ev.p).fs = NI /\ FRec(Ev.p).depth = NM /\ FRec(Ev.p).res = 0 /\ FRec(Ev.p).fe = 0
GMwOut == /\ Ev.e = "mwout" /\ FRec(Ev.p).depth = NM /\ Ev.m = FRec(Ev.p).out + 1
GFieldEnd == /\ Ev.e = "fe" /\ InExec /\ FRec(Ev.p).fs = NI /\ Ev.i = NI - FRec(Ev.p).fe
             /\ (FRec(Ev.p).res = 1 \/ FRec(Ev.p).depth = 0)     \* after the resolver ran (or argument coercion failed before any call)

Consume == l' = l + 1 /\ UNCHANGED <<tid, verdict>>
StageStart1 == /\ More /\ GStageStart1 /\ Consume
               /\ stack' = Append(stack, [s |-> StageOf(Ev.e), n |-> 1, m |-> 0])
               /\ seen' = seen \cup {StageOf(Ev.e)} /\ UNCHANGED fld
StageStartN == /\ More /\ GStageStartN /\ Consume
               /\ stack' = [stack EXCEPT ![Len(stack)].n = Ev.i] /\ UNCHANGED <<seen, fld>>
StageEnd == /\ More /\ GStageEnd /\ Consume
            /\ (IF Top.m + 1 = NI THEN stack' = SubSeq(stack, 1, Len(stack) - 1) ELSE stack' = [stack EXCEPT ![Len(stack)].m = Top.m + 1])
            /\ UNCHANGED <<fld, seen>>
FieldStart == /\ More /\ GFieldStart /\ Consume
              /\ fld' = SetF([FRec(Ev.p) EXCEPT !.fs = Ev.i]) /\ UNCHANGED <<stack, seen>>
MwIn == /\ More /\ GMwIn /\ Consume
        /\ fld' = SetF([FRec(Ev.p) EXCEPT !.depth = @ + 1]) /\ UNCHANGED <<stack, seen>>
Res == /\ More /\ GRes /\ Consume
       /\ fld' = SetF([FRec(Ev.p) EXCEPT !.res = 1]) /\ UNCHANGED <<stack, seen>>
MwOut == /\ More /\ GMwOut /\ Consume
         /\ fld' = SetF([FRec(Ev.p) EXCEPT !.out = @ + 1]) /\ UNCHANGED <<stack, seen>>
FieldEnd == /\ More /\ GFieldEnd /\ Consume
            /\ fld' = SetF([FRec(Ev.p) EXCEPT !.fe = @ + 1]) /\ UNCHANGED <<stack, seen>>
\* end of the segment of one delivered event (subscriptions): nothing may be left open, the next event starts afresh
GBoundary == Ev.e = "ev" /\ Sub /\ stack = <<>> /\ "x" \in seen /\ {k \in 1..Len(fld) : fld[k].fe # NI \/ fld[k].out # fld[k].depth} = {}
Boundary == /\ More /\ GBoundary /\ Consume /\ fld' = <<>> /\ UNCHANGED <<stack, seen>>
AnyGuard == GBoundary \/ GStageStart1 \/ GStageStartN \/ GStageEnd \/ GFieldStart \/ GMwIn \/ GRes \/ GMwOut \/ GFieldEnd
Reject == /\ More /\ ~AnyGuard /\ verdict' = "rejected-at-event" /\ UNCHANGED <<tid, l, stack, fld, seen>>
\* terminal condition once every event is consumed
OpenFields == {k \in 1..Len(fld) : fld[k].fe # NI \/ fld[k].out # fld[k].depth}
Finish == /\ verdict = "run" /\ l = Len(Tr) + 1
          /\ verdict' = (IF Traces[tid].crash THEN "ok"
                         ELSE IF stack # <<>> THEN "stage-left-open"
                         ELSE IF OpenFields # {} THEN "field-left-open"
                         ELSE "ok")
          /\ UNCHANGED <<tid, l, stack, fld, seen>>
Next == Boundary \/ StageStart1 \/ StageStartN \/ StageEnd \/ FieldStart \/ MwIn \/ Res \/ MwOut \/ FieldEnd \/ Reject \/ Finish
Spec == Init /\ [][Next]_vars

Where == IF l <= Len(Tr) THEN [l |-> l, e |-> Ev.e, i |-> Ev.i, m |-> Ev.m, p |-> Ev.p,
                               top |-> (IF stack = <<>> THEN "-" ELSE Top.s)]
         ELSE [l |-> l, e |-> "END", i |-> 0, m |-> 0, p |-> (IF OpenFields # {} THEN fld[CHOOSE k \in OpenFields : TRUE].p ELSE ""),
               top |-> (IF stack = <<>> THEN "-" ELSE Top.s)]
Verdict == verdict # "run" => PrintT("HK " \o ToJson([tid |-> tid, v |-> verdict, at |-> Where]))
=============================================================================
