---------------------------- MODULE GqlGrammarTrace ----------------------------
(* R3 judge: is a recorded token sequence (from the REAL lexer, or built by the harness) a sentence
   of the grammar, and - when the trace carries events - is the recorded tree (projected from the
   real parser's AST by the harness walker) the derivation?  Batched: one JVM judges the whole file.
   Trace record: [toks |-> seq of [k, v], ev |-> seq of <<tag, kind, idx>>, ce |-> BOOLEAN (events with token indices must match), ck |-> BOOLEAN (event kinds only),
                  start |-> start symbol, ts |-> BOOLEAN, fv |-> BOOLEAN]                                  *)
EXTENDS GqlGrammar, Json, IOUtils
Traces == JsonDeserialize(IOEnv.TRACE_FILE)
VARIABLES tid, st, pos, epos, ban
vars == <<tid, st, pos, epos, ban>>
Tr == Traces[tid]
Init == tid \in 1..Len(Traces) /\ st = <<N(Traces[tid].start)>> /\ pos = 1 /\ epos = 1 /\ ban = ""
top == Head(st)
rest == Tail(st)
Fits(s) == MinLen(s) <= Len(Tr.toks) - pos + 1
EvOk(tag, kind, idx) == IF Tr.ce THEN epos <= Len(Tr.ev) /\ Tr.ev[epos] = <<tag, kind, idx>>
                        ELSE IF Tr.ck THEN epos <= Len(Tr.ev) /\ Tr.ev[epos][1] = tag /\ Tr.ev[epos][2] = kind
                        ELSE TRUE
Expand  == /\ top[1] = "N"
           /\ \E i \in 1..Len(Prods(top[2], Tr.ts, Tr.fv)) : st' = Prods(top[2], Tr.ts, Tr.fv)[i] \o rest
           /\ UNCHANGED <<pos, epos, ban>>
Enter   == /\ top[1] = "Node"
           /\ EvOk("enter", top[2], pos)
           /\ st' = top[3] \o <<<<"End", top[2]>>>> \o rest
           /\ epos' = epos + 1 /\ UNCHANGED <<pos, ban>>
Leave   == /\ top[1] = "End"
           /\ EvOk("leave", top[2], pos - 1)
           /\ st' = rest
           /\ epos' = epos + 1 /\ UNCHANGED <<pos, ban>>
OptStep == /\ top[1] = "Opt"
           /\ (st' = rest \/ st' = <<top[2]>> \o rest)
           /\ UNCHANGED <<pos, epos, ban>>
PlusStep == /\ top[1] = "Plus"
            /\ st' = <<top[2], Star(top[2])>> \o rest
            /\ UNCHANGED <<pos, epos, ban>>
StarStep == /\ top[1] = "Star"
            /\ (st' = rest \/ st' = <<top[2], Star(top[2])>> \o rest)
            /\ UNCHANGED <<pos, epos, ban>>
Shift   == /\ top[1] = "T"
           /\ pos <= Len(Tr.toks)
           /\ Match(top[2], Tr.toks[pos]) /\ Tr.toks[pos].k # ban
           /\ pos' = pos + 1
           /\ st' = rest /\ ban' = ""
           /\ UNCHANGED epos
BanStep == /\ top[1] = "Ban"
           /\ st' = rest /\ ban' = top[2]
           /\ UNCHANGED <<pos, epos>>
Next == /\ st # <<>> /\ UNCHANGED tid
        /\ (Expand \/ Enter \/ Leave \/ OptStep \/ PlusStep \/ StarStep \/ Shift \/ BanStep)
        /\ Fits(st')
Spec == Init /\ [][Next]_vars
Accepting == st = <<>> /\ pos = Len(Tr.toks) + 1 /\ ((Tr.ce \/ Tr.ck) => epos = Len(Tr.ev) + 1)
Acc == Accepting => PrintT("ACC " \o ToString(tid))
=============================================================================
