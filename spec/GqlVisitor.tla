---------------------------- MODULE GqlVisitor ----------------------------
(* Event semantics of py_gql.lang.visitor (C18) over role-labelled syntax trees.

   A case is a flat node table (ids = pre-order index of the harness walker over the real AST, whose shape
   C02 has shown to be the derivation):
     nodes[i] = [k |-> node kind, role |-> attribute of the parent holding it, ch |-> child ids in SOURCE order
                 (Name nodes excluded), lm |-> TRUE iff the node is a member of a list attribute]
     rep[i]   = id of the replacement node the harness will return from enter(i) under a "replace" edit (0 = none)
     vis      = the visitor chain as a sequence of visitor INSTANCE ids (<<1>> = plain visitor; <<1, 2, 1>> = the same
                instance at both ends of a ChainedVisitor); m = Len(vis)
   TLC chooses the edit plan: the empty plan, every single edit and every pair of edits (small trees), each edit
   being <<node, action, visitor>> with action in {skip, delete (list members only), replace}.
   Visit() is the property's semantics when Dev = {}; each element of Dev switches on one NAMED deviation that
   the implementation is known to have (recorded in known_findings.json); the harness first compares the real
   event log / resulting tree with Dev = {} and only then with Dev = KnownDev, reporting the deviations that fired. *)
EXTENDS Naturals, Sequences, FiniteSets, TLC, Json, IOUtils, SequencesExt

CONSTANTS MaxPairNodes,   \* pairs of edits are enumerated for trees with at most this many nodes
          MaxEditNodes    \* single edits are enumerated for trees with at most this many nodes
Cases == JsonDeserialize(IOEnv.TRACE_FILE)

KnownDev == {"no-type-condition", "no-inner-type", "no-vardef-variable", "no-vardef-directives", "no-fragment-vardefs",
             "no-description", "vardef-default-before-type", "fielddef-type-before-args", "schema-ops-before-directives"}
\* "inputvalue-default-edit-discarded" was a tenth deviation until fix 628cc67; its definition is kept below (EditDiscarded)
\* so that the old behaviour can still be named, but it is no longer part of KnownDev: a regression is a VIOLATION.

VARIABLES cid, plan
vars == <<cid, plan>>

C == Cases[cid]
Orig(c) == 1..c.n

\* ---- plans -------------------------------------------------------------------------------------------------
Actions(c, i) == {"skip"} \cup (IF c.nodes[i].lm THEN {"delete"} ELSE {}) \cup (IF c.rep[i] # 0 THEN {"replace"} ELSE {})
Insts(c) == {c.vis[j] : j \in 1..c.m}
FirstPos(c, v) == CHOOSE j \in 1..c.m : c.vis[j] = v /\ \A i \in 1..(j - 1) : c.vis[i] # v
Edits(c) == {<<i, a, v>> : i \in Orig(c), a \in {"skip", "delete", "replace"}, v \in Insts(c)}
EditOk(c, e) == e[2] \in Actions(c, e[1]) /\ (c.m > 1 => e[2] = "skip") /\ e[1] # c.root
Singles(c) == {{e} : e \in {x \in Edits(c) : EditOk(c, x)}}
Pairs(c) == {{e, f} : e \in {x \in Edits(c) : EditOk(c, x)}, f \in {x \in Edits(c) : EditOk(c, x)}}
PlanSet(c) == {{}} \cup (IF c.n <= MaxEditNodes THEN Singles(c) ELSE {})
                   \cup (IF c.n <= MaxPairNodes THEN {p \in Pairs(c) : Cardinality(p) = 2 /\ \A e, f \in p : e # f => e[1] # f[1]} ELSE {})

Act(p, i) == IF \E e \in p : e[1] = i THEN (CHOOSE e \in p : e[1] = i)[2] ELSE "keep"
ActV(p, i) == IF \E e \in p : e[1] = i THEN (CHOOSE e \in p : e[1] = i)[3] ELSE 0

\* ---- deviations ----------------------------------------------------------------------------------------------
Hidden(c, par, x, dev) ==
  LET pk == c.nodes[par].k
      r  == c.nodes[x].role IN
  \/ "no-type-condition" \in dev /\ r = "type_condition"
  \/ "no-inner-type" \in dev /\ pk \in {"ListType", "NonNullType"} /\ r = "type"
  \/ "no-vardef-variable" \in dev /\ pk = "VariableDefinition" /\ r = "variable"
  \/ "no-vardef-directives" \in dev /\ pk = "VariableDefinition" /\ r = "directives"
  \/ "no-fragment-vardefs" \in dev /\ pk = "FragmentDefinition" /\ r = "variable_definitions"
  \/ "no-description" \in dev /\ r = "description"

Rank(c, par, x, dev) ==
  LET pk == c.nodes[par].k
      r  == c.nodes[x].role IN
  IF "vardef-default-before-type" \in dev /\ pk = "VariableDefinition" THEN (IF r = "default_value" THEN 0 ELSE 1)
  ELSE IF "fielddef-type-before-args" \in dev /\ pk = "FieldDefinition" THEN (IF r = "type" THEN 0 ELSE 1)
  ELSE IF "schema-ops-before-directives" \in dev /\ pk \in {"SchemaDefinition", "SchemaExtension"} THEN (IF r = "operation_types" THEN 0 ELSE 1)
  ELSE 0

\* children of `par` in the order the visitor reaches them
RECURSIVE Pick(_, _, _, _, _)
Pick(c, par, ch, dev, rank) ==
  IF ch = <<>> THEN <<>>
  ELSE (IF ~Hidden(c, par, Head(ch), dev) /\ Rank(c, par, Head(ch), dev) = rank THEN <<Head(ch)>> ELSE <<>>)
       \o Pick(c, par, Tail(ch), dev, rank)
Order(c, par, dev) == Pick(c, par, c.nodes[par].ch, dev, 0) \o Pick(c, par, c.nodes[par].ch, dev, 1)

EditDiscarded(c, par, x, dev) ==
  "inputvalue-default-edit-discarded" \in dev /\ c.nodes[par].k = "InputValueDefinition" /\ c.nodes[x].role = "default_value"

\* ---- events ----------------------------------------------------------------------------------------------------
E(tag, n, v) == <<tag, n, v>>
Enters(c, n, upto) == [j \in 1..upto |-> E("enter", n, c.vis[j])]
Leaves(c, n) == [j \in 1..c.m |-> E("leave", n, c.vis[c.m - j + 1])]

RECURSIVE Ev(_, _, _, _)
RECURSIVE EvSeq(_, _, _, _)
EvSeq(c, s, p, dev) == IF s = <<>> THEN <<>> ELSE Ev(c, Head(s), p, dev) \o EvSeq(c, Tail(s), p, dev)
Ev(c, n, p, dev) ==
  LET a == Act(p, n) IN
  IF a \in {"skip", "delete"} THEN Enters(c, n, FirstPos(c, ActV(p, n)))
  ELSE LET t == IF a = "replace" THEN c.rep[n] ELSE n IN
       Enters(c, n, c.m) \o EvSeq(c, Order(c, t, dev), p, dev) \o Leaves(c, t)

\* ---- resulting tree (pre-order ids, source order) ---------------------------------------------------------------
RECURSIVE Sub(_, _)
RECURSIVE SubAll(_, _)
SubAll(c, s) == IF s = <<>> THEN <<>> ELSE Sub(c, Head(s)) \o SubAll(c, Tail(s))
Sub(c, n) == <<n>> \o SubAll(c, c.nodes[n].ch)

RECURSIVE Res(_, _, _, _, _)
RECURSIVE ResSeq(_, _, _, _, _)
ResSeq(c, par, s, p, dev) == IF s = <<>> THEN <<>> ELSE Res(c, par, Head(s), p, dev) \o ResSeq(c, par, Tail(s), p, dev)
\* Res(c, par, n, ...): what remains of node n (child of par, 0 for the root) after the visit
Res(c, par, n, p, dev) ==
  LET a == Act(p, n) IN
  IF par # 0 /\ Hidden(c, par, n, dev) THEN Sub(c, n)
  ELSE IF a = "skip" THEN Sub(c, n)
  ELSE IF par # 0 /\ EditDiscarded(c, par, n, dev) /\ a \in {"delete", "replace"} THEN Sub(c, n)
  ELSE IF a = "delete" THEN <<>>
  ELSE LET t == IF a = "replace" THEN c.rep[n] ELSE n IN
       <<t>> \o ResSeq(c, t, c.nodes[t].ch, p, dev)

\* which named deviations change the outcome of this case (reported as KNOWN-FINDING keys)
Fired(c, p) == IF Ev(c, c.root, p, {}) = Ev(c, c.root, p, KnownDev) /\ Res(c, 0, c.root, p, {}) = Res(c, 0, c.root, p, KnownDev) THEN {} ELSE
              {d \in KnownDev : Ev(c, c.root, p, {d}) # Ev(c, c.root, p, {}) \/ Res(c, 0, c.root, p, {d}) # Res(c, 0, c.root, p, {})}

Init == cid \in 1..Len(Cases) /\ plan \in PlanSet(Cases[cid])
Next == UNCHANGED vars
Spec == Init /\ [][Next]_vars

PlanSeq == SetToSeq(plan)
Out == PrintT("VIS " \o ToJson([cid |-> cid, plan |-> PlanSeq,
                                ev |-> Ev(C, C.root, plan, {}), res |-> Res(C, 0, C.root, plan, {}),
                                evd |-> Ev(C, C.root, plan, KnownDev), resd |-> Res(C, 0, C.root, plan, KnownDev),
                                fired |-> SetToSeq(Fired(C, plan))]))

\* ---- R1: design-level properties of the semantics itself (checked by TLC on every enumerated case/plan) -----------
Evs == Ev(C, C.root, plan, {})
\* every entered node that is neither skipped nor deleted is left exactly once by every visitor, after its enter
Balanced == \A i \in 1..Len(Evs) : Evs[i][1] = "leave" =>
              \E j \in 1..(i - 1) : Evs[j][1] = "enter" /\ Evs[j][3] = Evs[i][3] /\
                 (Evs[j][2] = Evs[i][2] \/ C.rep[Evs[j][2]] = Evs[i][2])
\* with the empty plan every original node is entered and left exactly once per visitor, and nothing changes
NoopComplete == plan = {} =>
   /\ Res(C, 0, C.root, plan, {}) = Sub(C, C.root)
   /\ \A n \in Orig(C) : \A v \in Insts(C) :
        LET k == Cardinality({j \in 1..C.m : C.vis[j] = v}) IN
        Cardinality({i \in 1..Len(Evs) : Evs[i] = E("enter", n, v)}) = k /\ Cardinality({i \in 1..Len(Evs) : Evs[i] = E("leave", n, v)}) = k
\* a single delete removes exactly the subtree of that member; a single skip changes nothing
EditLocal == (Cardinality(plan) = 1) =>
   LET e == CHOOSE x \in plan : TRUE
       r == Res(C, 0, C.root, plan, {}) IN
   /\ e[2] = "skip" => r = Sub(C, C.root)
   /\ e[2] = "delete" => Len(r) = Len(Sub(C, C.root)) - Len(Sub(C, e[1]))
=============================================================================
