------------------------ MODULE GqlSchemaDirectives ------------------------
(* C14, the "schema directives" and generic SchemaVisitor part: what a visitor-based transform may do to a schema VALUE.

   A PLAN is a sequence of annotations built by actions, one annotation = (site, effect):
     site   : a type, an object / interface field, a field argument, an enum value or an input field of the base schema
     effect : "drop"  the visitor hook of that element returns None
              "tag"   the hook returns a REBUILT element that only differs by a marker text (n = 1 when the directive is written
                      without argument - the declared default - or the written n)
              "up"    (object fields only) the hook returns a rebuilt field whose resolver wraps the previous one
   The plan is bound to the code in two ways by the harness:
     (a) as SDL:  the base schema is printed with @drop / @tag(n:) / @up written at the sites (in plan order at one site) and
                  built with build_schema(..., schema_directives=...) or build_schema + apply_schema_directives;
     (b) as a SchemaVisitor subclass applied with transform_schema (clone-based: the source must stay intact).
   Apply(plan) is the schema value both must produce:  local edits first, then the closure every removal implies (an element
   whose type is gone goes too: fields, arguments, input fields, union members, implemented interfaces) - the same closure as
   GqlSchemaOps.Hide.  Everything no annotation targets is unchanged (NonTargetsKept, checked on the model), the result is
   closed (Closed), and the order of annotations at DIFFERENT sites is irrelevant (plans are generated in site order; the
   harness writes them anywhere).                                                                                      *)
EXTENDS Naturals, Sequences, FiniteSets, TLC, Json, SequencesExt
CONSTANT MaxAnn
Named(n) == [k |-> "named", n |-> n]
ListOf(t) == [k |-> "list", of |-> t]
NN(t) == [k |-> "nn", of |-> t]
NoDef == [k |-> "null"]
Arg(w, t) == [w |-> <<w>>, type |-> t, hasDef |-> FALSE, def |-> NoDef, py |-> w, desc |-> ""]
ArgD(w, t, d) == [w |-> <<w>>, type |-> t, hasDef |-> TRUE, def |-> d, py |-> w, desc |-> ""]
Fld(w, t, as, res, dep) == [w |-> <<w>>, type |-> t, args |-> as, py |-> w, res |-> res, dep |-> dep, desc |-> ""]
AllLocs == <<"SCHEMA", "SCALAR", "OBJECT", "FIELD_DEFINITION", "ARGUMENT_DEFINITION", "INTERFACE", "UNION", "ENUM", "ENUM_VALUE",
             "INPUT_OBJECT", "INPUT_FIELD_DEFINITION">>
Base == [camel |-> FALSE, query |-> "Query", mutation |-> "", subscription |-> "", sdres |-> "dr_schema",
  types |-> <<
    [k |-> "object", name |-> "Query", ifaces |-> <<>>, desc |-> "the root", dres |-> "", rt |-> "",
       fields |-> << Fld("items", ListOf(Named("Item")), <<Arg("filter", Named("Filter")), ArgD("first", Named("Int"), [k |-> "int", v |-> "10"])>>, "r_items", ""),
                     Fld("any", Named("U"), <<>>, "", ""),
                     Fld("node", Named("Node"), <<Arg("id", Named("ID"))>>, "r_node", "old way"),
                     Fld("level", Named("Level"), <<>>, "r_level", ""),
                     Fld("now", Named("Date"), <<>>, "", "") >>],
    [k |-> "scalar", name |-> "Date"],
    [k |-> "interface", name |-> "Node", ifaces |-> <<>>, desc |-> "a node", dres |-> "", rt |-> "rt_node",
       fields |-> << Fld("id", Named("ID"), <<>>, "", ""), Fld("label", Named("String"), <<>>, "", "") >>],
    [k |-> "object", name |-> "Item", ifaces |-> <<"Node">>, desc |-> "an item", dres |-> "dr_item", rt |-> "",
       fields |-> << Fld("id", Named("ID"), <<>>, "", ""), Fld("label", Named("String"), <<>>, "", ""), Fld("owner", Named("Person"), <<>>, "r_owner", ""),
                     Fld("level", NN(Named("Level")), <<>>, "", ""), Fld("when", Named("Date"), <<Arg("zone", Named("Level"))>>, "r_when", "") >>],
    [k |-> "object", name |-> "Person", ifaces |-> <<"Node">>, desc |-> "", dres |-> "", rt |-> "",
       fields |-> << Fld("id", Named("ID"), <<>>, "", ""), Fld("label", Named("String"), <<>>, "", ""), Fld("things", ListOf(NN(Named("Item"))), <<>>, "", "") >>],
    [k |-> "union", name |-> "U", members |-> <<"Item", "Person">>, desc |-> "either", rt |-> "rt_u"],
    \* a second union that shares exactly ONE possible type with the interface Node (Item): removing Item leaves Node = {Person} and
    \* W = {Query}, which no longer overlap - what operations may spread where depends on the schema value AFTER the plan
    [k |-> "union", name |-> "W", members |-> <<"Item", "Query">>, desc |-> "", rt |-> "rt_w"],
    [k |-> "enum", name |-> "Level", values |-> << [name |-> "LOW", dep |-> ""], [name |-> "MID", dep |-> ""], [name |-> "HIGH", dep |-> "too high"] >>, desc |-> ""],
    [k |-> "input", name |-> "Filter", desc |-> "",
       fields |-> << ArgD("min", Named("Int"), [k |-> "int", v |-> "1"]), Arg("level", Named("Level")), Arg("at", Named("Date")),
                     Arg("tags", ListOf(Named("String"))) >>] >>,
  directives |-> << [name |-> "drop", locs |-> AllLocs, args |-> <<>>],
                    [name |-> "tag", locs |-> AllLocs, args |-> <<ArgD("n", Named("Int"), [k |-> "int", v |-> "1"])>>],
                    [name |-> "up", locs |-> <<"FIELD_DEFINITION">>, args |-> <<>>] >>]

RECURSIVE Inner(_)
Inner(t) == IF t.k = "named" THEN t.n ELSE Inner(t.of)
HasFields(t) == t.k \in {"object", "interface", "input"}
TypeNames(s) == {s.types[i].name : i \in 1..Len(s.types)}
Builtin == {"Int", "Float", "String", "Boolean", "ID"}
Known(s, n) == n \in Builtin \/ n \in TypeNames(s)

\* ---- sites ------------------------------------------------------------------------------------------------------------
TSite(t) == [s |-> "type", t |-> t, f |-> "", a |-> ""]
FSite(t, f) == [s |-> "field", t |-> t, f |-> f, a |-> ""]
ASite(t, f, a) == [s |-> "arg", t |-> t, f |-> f, a |-> a]
VSite(t, v) == [s |-> "value", t |-> t, f |-> v, a |-> ""]
ISite(t, f) == [s |-> "inputfield", t |-> t, f |-> f, a |-> ""]
\* the sites plans may target, in the order plans list them
Sites == << TSite("Date"), TSite("Node"), TSite("Item"), TSite("Person"), TSite("U"), TSite("Level"), TSite("Filter"),
            FSite("Query", "items"), FSite("Query", "node"), FSite("Query", "now"), FSite("Item", "owner"), FSite("Item", "when"), FSite("Node", "label"),
            FSite("Person", "things"),
            ASite("Query", "items", "filter"), ASite("Query", "items", "first"), ASite("Item", "when", "zone"),
            VSite("Level", "MID"), VSite("Level", "HIGH"),
            ISite("Filter", "min"), ISite("Filter", "level"), ISite("Filter", "tags") >>
ObjectFieldSite(st) == st.s = "field" /\ st.t \in {"Query", "Item", "Person"}
Effects(st) == {[d |-> "drop", n |-> 0], [d |-> "tag", n |-> 0], [d |-> "tag", n |-> 2]} \cup (IF ObjectFieldSite(st) THEN {[d |-> "up", n |-> 0]} ELSE {})

\* ---- the effect of a plan ---------------------------------------------------------------------------------------------
At(plan, st) == SelectSeq(plan, LAMBDA an : an.site = st)
Has(plan, st, d) == \E i \in 1..Len(plan) : plan[i].site = st /\ plan[i].e.d = d
TagN(plan, st) == LET an == SelectSeq(plan, LAMBDA x : x.site = st /\ x.e.d = "tag")[1] IN IF an.e.n = 0 THEN "tag1" ELSE "tag2"
\* a directive may be written once per site
Misuse(plan) == \E i, j \in 1..Len(plan) : i < j /\ plan[i].site = plan[j].site /\ plan[i].e.d = plan[j].e.d

EdArg(plan, st, a) == [a EXCEPT !.desc = IF Has(plan, st, "tag") THEN TagN(plan, st) ELSE @]
EdField(plan, tn, fl) ==
  LET st == FSite(tn, fl.w[1])
      kept == SelectSeq(fl.args, LAMBDA a : ~Has(plan, ASite(tn, fl.w[1], a.w[1]), "drop"))
  IN [fl EXCEPT !.args = [i \in 1..Len(kept) |-> EdArg(plan, ASite(tn, fl.w[1], kept[i].w[1]), kept[i])],
                !.desc = IF Has(plan, st, "tag") THEN TagN(plan, st) ELSE @,
                !.res = IF Has(plan, st, "up") THEN "up(" \o @ \o ")" ELSE @]
EdType(plan, t) ==
  LET st == TSite(t.name)
      d(x) == IF Has(plan, st, "tag") THEN TagN(plan, st) ELSE x
  IN CASE t.k \in {"object", "interface"} ->
            LET kept == SelectSeq(t.fields, LAMBDA fl : ~Has(plan, FSite(t.name, fl.w[1]), "drop"))
            IN [t EXCEPT !.fields = [i \in 1..Len(kept) |-> EdField(plan, t.name, kept[i])], !.desc = d(@)]
       [] t.k = "input" ->
            LET kept == SelectSeq(t.fields, LAMBDA a : ~Has(plan, ISite(t.name, a.w[1]), "drop"))
            IN [t EXCEPT !.fields = [i \in 1..Len(kept) |-> EdArg(plan, ISite(t.name, kept[i].w[1]), kept[i])], !.desc = d(@)]
       [] t.k = "enum" ->
            LET kept == SelectSeq(t.values, LAMBDA v : ~Has(plan, VSite(t.name, v.name), "drop"))
            IN [t EXCEPT !.values = [i \in 1..Len(kept) |-> [kept[i] EXCEPT !.dep = IF Has(plan, VSite(t.name, kept[i].name), "tag")
                                                                                    THEN TagN(plan, VSite(t.name, kept[i].name)) ELSE @]],
                         !.desc = d(@)]
       [] t.k = "union" -> [t EXCEPT !.desc = d(@)]
       [] OTHER -> t          \* scalars carry nothing the projection shows
\* closure of the removals: what refers to a removed type disappears with it
Gone(plan, n) == Has(plan, TSite(n), "drop")
Close(plan, t) ==
  CASE t.k \in {"object", "interface"} ->
         LET kept == SelectSeq(t.fields, LAMBDA fl : ~Gone(plan, Inner(fl.type)))
         IN [t EXCEPT !.fields = [i \in 1..Len(kept) |-> [kept[i] EXCEPT !.args = SelectSeq(@, LAMBDA a : ~Gone(plan, Inner(a.type)))]],
                      !.ifaces = IF t.k = "object" THEN SelectSeq(@, LAMBDA n : ~Gone(plan, n)) ELSE @]
    [] t.k = "union" -> [t EXCEPT !.members = SelectSeq(@, LAMBDA n : ~Gone(plan, n))]
    [] t.k = "input" -> [t EXCEPT !.fields = SelectSeq(@, LAMBDA a : ~Gone(plan, Inner(a.type)))]
    [] OTHER -> t
Apply(plan) == LET alive == SelectSeq(Base.types, LAMBDA t : ~Gone(plan, t.name))
               IN [Base EXCEPT !.types = [i \in 1..Len(alive) |-> Close(plan, EdType(plan, alive[i]))]]

\* a plan is in the domain when it leaves a valid schema: no empty type, interfaces still implemented
FieldNames(t) == {t.fields[j].w : j \in 1..Len(t.fields)}
Valid(s) == /\ \A i \in 1..Len(s.types) : /\ (HasFields(s.types[i]) => s.types[i].fields # <<>>)
                                          /\ (s.types[i].k = "union" => s.types[i].members # <<>>)
                                          /\ (s.types[i].k = "enum" => s.types[i].values # <<>>)
            /\ \A i \in 1..Len(s.types) : s.types[i].k = "object" => \A m \in 1..Len(s.types[i].ifaces) :
                  \E j \in 1..Len(s.types) : s.types[j].name = s.types[i].ifaces[m] /\ FieldNames(s.types[j]) \subseteq FieldNames(s.types[i])

\* ---- plans built by actions --------------------------------------------------------------------------------------------
VARIABLES plan, last
vars == <<plan, last>>
Init == plan = <<>> /\ last = 1
Annotate == /\ Len(plan) < MaxAnn
            /\ \E i \in last..Len(Sites) : \E e \in Effects(Sites[i]) :
                  /\ plan' = Append(plan, [site |-> Sites[i], e |-> e])
                  /\ last' = i
Next == Annotate
Spec == Init /\ [][Next]_vars

\* ---- properties of the design -------------------------------------------------------------------------------------------
Closed(s) == \A i \in 1..Len(s.types) :
   /\ (HasFields(s.types[i]) => \A j \in 1..Len(s.types[i].fields) :
          /\ Known(s, Inner(s.types[i].fields[j].type))
          /\ (s.types[i].k # "input" => \A a \in 1..Len(s.types[i].fields[j].args) : Known(s, Inner(s.types[i].fields[j].args[a].type))))
   /\ (s.types[i].k = "object" => \A m \in 1..Len(s.types[i].ifaces) : s.types[i].ifaces[m] \in TypeNames(s))
   /\ (s.types[i].k = "union" => \A m \in 1..Len(s.types[i].members) : s.types[i].members[m] \in TypeNames(s))
ResultClosed == Closed(Apply(plan))
\* a type no annotation touches (itself, its members, or - through the closure - the types its members refer to) is unchanged
Touched(t) == \/ \E i \in 1..Len(plan) : plan[i].site.t = t.name
              \/ \E i \in 1..Len(plan) : plan[i].site.s = "type" /\ plan[i].e.d = "drop" /\
                    ( \/ (HasFields(t) /\ \E j \in 1..Len(t.fields) : \/ Inner(t.fields[j].type) = plan[i].site.t
                                                                      \/ (t.k # "input" /\ \E a \in 1..Len(t.fields[j].args) : Inner(t.fields[j].args[a].type) = plan[i].site.t))
                      \/ (t.k = "object" /\ \E m \in 1..Len(t.ifaces) : t.ifaces[m] = plan[i].site.t)
                      \/ (t.k = "union" /\ \E m \in 1..Len(t.members) : t.members[m] = plan[i].site.t) )
NonTargetsKept == LET r == Apply(plan) IN \A i \in 1..Len(Base.types) : ~Touched(Base.types[i]) =>
                     \E j \in 1..Len(r.types) : r.types[j] = Base.types[i]
\* the order of annotations at different sites is irrelevant, so is a repeated application of the closure
Emit == LET r == Apply(plan) IN (Len(plan) >= 1 /\ (Misuse(plan) \/ Valid(r))) =>
           PrintT("PLAN " \o ToJson([plan |-> plan, misuse |-> Misuse(plan), value |-> IF Misuse(plan) THEN Base ELSE r]))
EmitBase == Len(plan) = 0 => PrintT("BASE " \o ToJson([value |-> Base, sites |-> Sites]))
=============================================================================
