---------------------------- MODULE GqlIntrospect ----------------------------
(* C15: what the standard introspection query must report for a schema value.

   Introspection(s, incl) is the schema value itself with (i) deprecated fields and enum values removed unless incl
   (includeDeprecated), (ii) possibleTypes of every interface (its implementing object types) and union (its members),
   (iii) interfaces of every object type.  Schemas: the base of GqlDiff (defaults of every input kind, deprecations with
   reasons, custom directive) and every schema produced by a single edit.  The harness runs the library's own
   introspection query on the realised schema, projects the JSON (collections keyed by name) and compares; each reported
   defaultValue must PARSE as a constant value and coerce to the declared default.                                   *)
EXTENDS Naturals, Sequences, FiniteSets, TLC, Json, SequencesExt
D == INSTANCE GqlDiff WITH e <- 0, f <- 0, Pairs <- FALSE
CONSTANT TwoEdits      \* TRUE: also the schemas reached by a second edit of another element (thorough tier)
VARIABLES s, incl
vars == <<s, incl>>
\* edits of In's fields would leave the In-typed argument default of Query.d uncoerced (generator hygiene, as in C12)
Skip == {"retype-input", "add-required-input", "add-null-default-input"}
One == {y \in D!Edits(D!Base) : y.kind \notin Skip}
Two == UNION {{z.new : z \in {w \in D!Edits(y.new) : w.kind \notin Skip /\ D!Touch(w) \cap D!Touch(y) = {}}} : y \in {v \in One : v.kind \in D!StableKinds}}
Init == s \in ({D!Base} \cup {x.new : x \in One} \cup (IF TwoEdits THEN Two ELSE {})) /\ incl \in BOOLEAN
Next == FALSE /\ UNCHANGED vars
Spec == Init /\ [][Next]_vars
Has(r, fld) == fld \in DOMAIN r
Dep(x) == Has(x, "dep") /\ x.dep # ""
KeepF(t) == IF Has(t, "fields") /\ t.k \in {"object", "interface"} THEN [t EXCEPT !.fields = SelectSeq(@, LAMBDA x : incl \/ ~Dep(x))] ELSE t
KeepV(t) == IF t.k = "enum" THEN [t EXCEPT !.values = SelectSeq(@, LAMBDA x : incl \/ ~Dep(x))] ELSE t
Implementors(n) == {s.types[i].name : i \in {j \in 1..Len(s.types) : s.types[j].k = "object" /\ Has(s.types[j], "ifaces") /\ \E m \in 1..Len(s.types[j].ifaces) : s.types[j].ifaces[m] = n}}
Possible(t) == CASE t.k = "interface" -> Implementors(t.name)
                 [] t.k = "union" -> {t.members[m] : m \in 1..Len(t.members)}
                 [] OTHER -> {}
Report == [types |-> [i \in 1..Len(s.types) |-> [t |-> KeepV(KeepF(s.types[i])), possible |-> SetToSeq(Possible(s.types[i]))]],
           directives |-> s.directives, query |-> s.query, mutation |-> s.mutation, subscription |-> s.subscription]
Emit == PrintT("INT " \o ToJson([schema |-> s, incl |-> incl, report |-> Report]))
\* R1: hiding deprecated members never removes a non-deprecated one, and possible types are object types of the schema
Sound == \A i \in 1..Len(s.types) : \A n \in Possible(s.types[i]) : \E j \in 1..Len(s.types) : s.types[j].name = n /\ s.types[j].k = "object"
=============================================================================
