---------------------------- MODULE GqlValidate ----------------------------
(* C06 / C05: validation rules of the June-2018 specification (section 5) as predicates over abstract documents, one per rule,
   keyed by the name of the library's rule class so that verdicts can be compared rule by rule
   (default_validator(validators = [Rule])).  Judge mode: cases are abstract documents recorded by the harness
   (valid-by-construction documents of the GqlExec builder, structured random documents, single labelled injections and
   their metamorphic variants); TLC evaluates every rule on every case.
   Schema (the harness builds the same one):
     type Query { a: Int  b(x: Int, l: [Int]): String  o: Obj  i: I  u: U  os: [Obj]  r(req: Int!): Int  d(nd: Int! = 1, nl: [Int!]): Int  is: [I]
                  k(j: Any, js: [Any]): Int }     scalar Any
     type Obj implements I { a: Int  o: Obj  s: String  b(x: Int): String  c(p: Int = 1, q: Int = 5): Int }
     type Obj2 implements I { a: Int  s: Int!  n: String  c(p: Int = 2): Int }      interface I { a: Int  c(p: Int = 1): Int }
     union U = Obj | Obj2     union U2 = Obj2     interface J { s: String }  (implemented by Obj only)     Query.j: J   Query.u2: U2
     (partially overlapping abstract types: J ~ {Obj}, U2 ~ {Obj2}, so J and U2 never overlap while each overlaps I and U)
     enum E { A B }     input In { x: Int = 3  y: Int!  n: In  l: [Int!] }     Query.f(in: In, ins: [In!]): Int
     type Mutation { m(x: Int): Int  o: Obj }     type Subscription { s1: Int  s2(x: Int): Int  o: Obj }
     directives: @skip(if: Boolean!) @include(if: Boolean!) on fields, spreads, inline fragments
   Document: [defs |-> seq of  [k |-> "op", name, op, vars (seq of [name, type, def: value | [k |-> "none"]]), sel]  |  [k |-> "frag", name, on, sel]]
   Selection: [k |-> "field", alias, name, args (seq of [name, value]), hasSel, sel, dirs] | [k |-> "inline", on, sel, dirs] | [k |-> "spread", name, dirs]
   dirs: seq of [name, args (seq of [name, value])];  value: [k |-> "int" | "bool" | "null" | "var" | "list" | "obj", ...] *)
EXTENDS Naturals, Sequences, FiniteSets, TLC, Json, IOUtils, SequencesExt
Cases == JsonDeserialize(IOEnv.TRACE_FILE)
\* ---------------- fixed schema (prototype) ---------------------------------
Named(n) == [k |-> "named", n |-> n]
ListOf(t) == [k |-> "list", of |-> t]
NN(t) == [k |-> "nn", of |-> t]
RECURSIVE Unwrap(_)
Unwrap(t) == IF t.k = "named" THEN t.n ELSE Unwrap(t.of)
F(n, t, args) == [name |-> n, type |-> t, args |-> args]
A(n, t) == [name |-> n, type |-> t, hasDef |-> FALSE]
D(n, t) == [name |-> n, type |-> t, hasDef |-> TRUE]
Kind == [J |-> "interface", U2 |-> "union", Query |-> "object", Mutation |-> "object", Subscription |-> "object", In |-> "input", Obj |-> "object", Obj2 |-> "object", I |-> "interface", U |-> "union",
         Int |-> "scalar", String |-> "scalar", Boolean |-> "scalar", ID |-> "scalar", Float |-> "scalar", E |-> "enum",
         Any |-> "scalar"]      \* a custom scalar whose coercion accepts every leaf literal (ValidValue: no constraint)
Fields == [Query |-> << F("a", Named("Int"), <<>>), F("b", Named("String"), <<A("x", Named("Int")), A("l", ListOf(Named("Int")))>>),
                        F("o", Named("Obj"), <<>>), F("i", Named("I"), <<>>), F("u", Named("U"), <<>>), F("os", ListOf(Named("Obj")), <<>>),
                        F("r", Named("Int"), <<A("req", NN(Named("Int")))>>),
                        F("d", Named("Int"), <<D("nd", NN(Named("Int"))), A("nl", ListOf(NN(Named("Int"))))>>), F("is", ListOf(Named("I")), <<>>), F("j", Named("J"), <<>>), F("u2", Named("U2"), <<>>),
                        F("f", Named("Int"), <<A("in", Named("In")), A("ins", ListOf(NN(Named("In"))))>>),
                        F("k", Named("Int"), <<A("j", Named("Any")), A("js", ListOf(Named("Any")))>>) >>,
           Mutation |-> << F("m", Named("Int"), <<A("x", Named("Int"))>>), F("o", Named("Obj"), <<>>) >>,
           Subscription |-> << F("s1", Named("Int"), <<>>), F("s2", Named("Int"), <<A("x", Named("Int"))>>), F("o", Named("Obj"), <<>>) >>,
           In |-> <<>>,
           Obj   |-> << F("a", Named("Int"), <<>>), F("o", Named("Obj"), <<>>), F("s", Named("String"), <<>>), F("b", Named("String"), <<A("x", Named("Int"))>>),
                        F("c", Named("Int"), <<D("p", Named("Int")), D("q", Named("Int"))>>) >>,
           Obj2  |-> << F("a", Named("Int"), <<>>), F("s", NN(Named("Int")), <<>>), F("n", Named("String"), <<>>), F("c", Named("Int"), <<D("p", Named("Int"))>>) >>,
           I     |-> << F("a", Named("Int"), <<>>), F("c", Named("Int"), <<D("p", Named("Int"))>>) >>,
           J     |-> << F("s", Named("String"), <<>>) >>, U2 |-> <<>>,
           U     |-> <<>>, Int |-> <<>>, String |-> <<>>, Boolean |-> <<>>, ID |-> <<>>, Float |-> <<>>, E |-> <<>>, Any |-> <<>>]
Possible == [J |-> {"Obj"}, U2 |-> {"Obj2"}, I |-> {"Obj", "Obj2"}, U |-> {"Obj", "Obj2"}, Query |-> {"Query"}, Mutation |-> {"Mutation"}, Subscription |-> {"Subscription"}, Obj |-> {"Obj"}, Obj2 |-> {"Obj2"}]
InFields == << D("x", Named("Int")), A("y", NN(Named("Int"))), A("n", Named("In")), A("l", ListOf(NN(Named("Int")))) >>
InField(n) == LET idx == {k \in 1..Len(InFields) : InFields[k].name = n}
              IN IF idx = {} THEN [name |-> "", type |-> Named(""), hasDef |-> FALSE] ELSE InFields[CHOOSE k \in idx : TRUE]
Known(t) == t \in DOMAIN Kind
Composite(t) == Known(t) /\ Kind[t] \in {"object", "interface", "union"}
Leaf(t) == Known(t) /\ Kind[t] \in {"scalar", "enum"}
NoDef == [name |-> "", type |-> Named(""), args |-> <<>>]
TypenameDef == [name |-> "__typename", type |-> NN(Named("String")), args |-> <<>>]
FieldDef(t, f) ==
  IF ~Composite(t) THEN NoDef
  ELSE IF f = "__typename" THEN TypenameDef
  ELSE LET idx == {i \in 1..Len(Fields[t]) : Fields[t][i].name = f}
       IN IF idx = {} THEN NoDef ELSE Fields[t][CHOOSE i \in idx : TRUE]
HasDef(d) == d.name # ""
KnownDir(n) == n \in {"skip", "include"}
IfType == NN(Named("Boolean"))

\* ---------------- document helpers ------------------------------------------
Rng(q) == {q[n] : n \in 1..Len(q)}          \* quantifying over Rng(X(doc)) evaluates X(doc) once (TLC does not memoise operator applications)
Frags(doc) == SelectSeq(doc.defs, LAMBDA d : d.k = "frag")
Ops(doc) == SelectSeq(doc.defs, LAMBDA d : d.k = "op")
FragNames(doc) == {f.name : f \in Rng(Frags(doc))}
Frag(doc, n) == LET fs == Frags(doc) IN fs[CHOOSE i \in 1..Len(fs) : fs[i].name = n /\ \A j \in 1..(i-1) : fs[j].name # n]   \* first with that name
RootType(op) == CASE op.op = "query" -> "Query" [] op.op = "mutation" -> "Mutation" [] op.op = "subscription" -> "Subscription" [] OTHER -> ""

\* all (parentType, fieldNode) pairs reachable syntactically inside a selection list (not through spreads)
RECURSIVE FieldsIn(_, _)
FieldsIn(sel, pt) ==
  FlattenSeq([i \in 1..Len(sel) |->
     LET s == sel[i] IN
     CASE s.k = "field" -> <<[pt |-> pt, node |-> s]>> \o
                            FieldsIn(s.sel, IF HasDef(FieldDef(pt, s.name)) /\ Composite(Unwrap(FieldDef(pt, s.name).type))
                                            THEN Unwrap(FieldDef(pt, s.name).type) ELSE "")
       [] s.k = "inline" -> FieldsIn(s.sel, IF s.on = "" THEN pt ELSE IF Composite(s.on) THEN s.on ELSE "")
       [] s.k = "spread" -> <<>>])
AllFields(doc) == FlattenSeq([i \in 1..Len(doc.defs) |->
                    LET d == doc.defs[i] IN
                    FieldsIn(d.sel, IF d.k = "op" THEN RootType(d) ELSE IF Composite(d.on) THEN d.on ELSE "")])

SubTypeOf(pt, f) == IF HasDef(FieldDef(pt, f)) /\ Composite(Unwrap(FieldDef(pt, f).type)) THEN Unwrap(FieldDef(pt, f).type) ELSE ""
\* Rule: FieldsOnCorrectType
R_FieldsOnCorrectType(doc) == \A e \in Rng(AllFields(doc)) :
   e.pt = "" \/ HasDef(FieldDef(e.pt, e.node.name))
\* Rule: ScalarLeafs
R_ScalarLeafs(doc) == \A e \in Rng(AllFields(doc)) :
   LET d == FieldDef(e.pt, e.node.name) IN
   (e.pt = "" \/ ~HasDef(d)) \/ (IF Leaf(Unwrap(d.type)) THEN ~e.node.hasSel ELSE IF Composite(Unwrap(d.type)) THEN e.node.hasSel ELSE TRUE)

\* spreads directly inside a selection list
RECURSIVE SpreadsIn(_)
SpreadsIn(sel) == UNION {LET s == sel[i] IN
     CASE s.k = "spread" -> {s.name} [] s.k = "field" -> SpreadsIn(s.sel) [] s.k = "inline" -> SpreadsIn(s.sel) : i \in 1..Len(sel)}
RECURSIVE Reach(_, _, _)
Reach(doc, frontier, seen) ==
  IF frontier \subseteq seen THEN seen
  ELSE LET new == frontier \ seen
           nxt == UNION {IF n \in FragNames(doc) THEN SpreadsIn(Frag(doc, n).sel) ELSE {} : n \in new}
       IN Reach(doc, nxt, seen \cup new)
ReachFrom(doc, sel) == Reach(doc, SpreadsIn(sel), {})
\* Rule: NoFragmentCycles
R_NoFragmentCycles(doc) == \A n \in FragNames(doc) : n \notin ReachFrom(doc, Frag(doc, n).sel)

RECURSIVE VarsInValue(_)
VarsInValue(v) == CASE v.k = "var" -> {v.n}
                    [] v.k = "list" -> UNION {VarsInValue(v.vs[i]) : i \in 1..Len(v.vs)}
                    [] v.k = "obj" -> UNION {VarsInValue(v.fs[i].val) : i \in 1..Len(v.fs)}
                    [] OTHER -> {}
DirVars(dirs) == UNION {UNION {VarsInValue(dirs[d].args[j].value) : j \in 1..Len(dirs[d].args)} : d \in 1..Len(dirs)}
RECURSIVE VarsIn(_)
VarsIn(sel) == UNION {LET s == sel[i] IN
     CASE s.k = "spread" -> DirVars(s.dirs)
       [] s.k = "inline" -> DirVars(s.dirs) \cup VarsIn(s.sel)
       [] s.k = "field" -> UNION {VarsInValue(s.args[j].value) : j \in 1..Len(s.args)} \cup DirVars(s.dirs) \cup VarsIn(s.sel) : i \in 1..Len(sel)}
UsedBy(doc, op) == VarsIn(op.sel) \cup UNION {IF n \in FragNames(doc) THEN VarsIn(Frag(doc, n).sel) ELSE {} : n \in ReachFrom(doc, op.sel)}
Defined(op) == {op.vars[i].name : i \in 1..Len(op.vars)}
R_NoUndefinedVariables(doc) == \A op \in Rng(Ops(doc)) : UsedBy(doc, op) \subseteq Defined(op)
R_NoUnusedVariables(doc) == \A op \in Rng(Ops(doc)) : Defined(op) \subseteq UsedBy(doc, op)

\* ---- OverlappingFieldsCanBeMerged (spec 5.3.2) ------------------------------
RECURSIVE CollectV(_, _, _, _)
CollectV(doc, sel, pt, visited) ==   \* sequence of [rn, node, pt]
  FlattenSeq([i \in 1..Len(sel) |->
     LET s == sel[i] IN
     CASE s.k = "field" -> <<[rn |-> IF s.alias = "" THEN s.name ELSE s.alias, node |-> s, pt |-> pt]>>
       [] s.k = "inline" -> CollectV(doc, s.sel, IF s.on = "" THEN pt ELSE IF Composite(s.on) THEN s.on ELSE "", visited)
       [] s.k = "spread" -> IF s.name \in visited \/ s.name \notin FragNames(doc) THEN <<>>
                            ELSE LET f == Frag(doc, s.name) IN CollectV(doc, f.sel, IF Composite(f.on) THEN f.on ELSE "", visited \cup {s.name})])
TypeOf(e) == LET d == FieldDef(e.pt, e.node.name) IN IF e.pt # "" /\ HasDef(d) THEN d.type ELSE Named("")
SubType(e) == LET t == TypeOf(e) IN IF Unwrap(t) # "" /\ Composite(Unwrap(t)) THEN Unwrap(t) ELSE ""
RECURSIVE SameShapeT(_, _)
SameShapeT(ta, tb) ==
  IF ta.k = "nn" \/ tb.k = "nn" THEN ta.k = "nn" /\ tb.k = "nn" /\ SameShapeT(ta.of, tb.of)
  ELSE IF ta.k = "list" \/ tb.k = "list" THEN ta.k = "list" /\ tb.k = "list" /\ SameShapeT(ta.of, tb.of)
  ELSE IF Leaf(ta.n) \/ Leaf(tb.n) THEN ta.n = tb.n
  ELSE TRUE
ArgSet(node) == {<<node.args[j].name, node.args[j].value>> : j \in 1..Len(node.args)}
IsObj(t) == Known(t) /\ Kind[t] = "object"
RECURSIVE CanMerge(_, _, _)
PairOk(doc, a, b, depth) ==
  LET ta == TypeOf(a)  tb == TypeOf(b)
      shape == (Unwrap(ta) = "" \/ Unwrap(tb) = "") \/ SameShapeT(ta, tb)
      mustMatch == a.pt = b.pt \/ ~IsObj(a.pt) \/ ~IsObj(b.pt)
      merged == CollectV(doc, a.node.sel, SubType(a), {}) \o CollectV(doc, b.node.sel, SubType(b), {})
  IN /\ shape
     /\ mustMatch => (a.node.name = b.node.name /\ ArgSet(a.node) = ArgSet(b.node))
     /\ (a.node.hasSel /\ b.node.hasSel /\ depth > 0) => CanMerge(doc, merged, depth - 1)
CanMerge(doc, es, depth) == \A i \in 1..Len(es) : \A j \in (i+1)..Len(es) :
     es[i].rn = es[j].rn => PairOk(doc, es[i], es[j], depth)
RECURSIVE SetsIn(_, _, _)
\* every selection set of the document with its parent type
SetsIn(doc, sel, pt) == <<[sel |-> sel, pt |-> pt]>> \o FlattenSeq([i \in 1..Len(sel) |->
     LET s == sel[i] IN
     CASE s.k = "field" -> IF s.hasSel THEN SetsIn(doc, s.sel, SubType([pt |-> pt, node |-> s])) ELSE <<>>
       [] s.k = "inline" -> SetsIn(doc, s.sel, IF s.on = "" THEN pt ELSE IF Composite(s.on) THEN s.on ELSE "")
       [] s.k = "spread" -> <<>>])
AllSets(doc) == FlattenSeq([i \in 1..Len(doc.defs) |-> LET d == doc.defs[i] IN
                   SetsIn(doc, d.sel, IF d.k = "op" THEN RootType(d) ELSE IF Composite(d.on) THEN d.on ELSE "")])
R_Overlapping(doc) == \A x \in Rng(AllSets(doc)) : CanMerge(doc, CollectV(doc, x.sel, x.pt, {}), 6)


\* ---- further rules ------------------------------------------------------------------------------------------------
OpNames(doc) == LET os == Ops(doc) IN [i \in 1..Len(os) |-> os[i].name]
NoDup(seq) == \A i, j \in 1..Len(seq) : (i # j /\ seq[i] = seq[j]) => FALSE
R_UniqueOperationName(doc) == NoDup(SelectSeq(OpNames(doc), LAMBDA n : n # ""))
R_LoneAnonymousOperation(doc) == LET os == Ops(doc) IN (\E i \in 1..Len(os) : os[i].name = "") => Len(os) = 1
R_UniqueFragmentNames(doc) == LET fs == Frags(doc) IN NoDup([i \in 1..Len(fs) |-> fs[i].name])
AllSpreadNames(doc) == UNION {SpreadsIn(doc.defs[i].sel) : i \in 1..Len(doc.defs)}
R_KnownFragmentNames(doc) == AllSpreadNames(doc) \subseteq FragNames(doc)
R_NoUnusedFragments(doc) == FragNames(doc) \subseteq UNION {ReachFrom(doc, op.sel) : op \in Rng(Ops(doc))}
\* type conditions (fragments and inline fragments) and variable types
RECURSIVE CondsIn(_)
CondsIn(sel) == UNION {LET s == sel[i] IN
     CASE s.k = "inline" -> (IF s.on = "" THEN {} ELSE {s.on}) \cup CondsIn(s.sel)
       [] s.k = "field" -> CondsIn(s.sel)
       [] OTHER -> {} : i \in 1..Len(sel)}
AllConds(doc) == UNION {CondsIn(doc.defs[i].sel) \cup (IF doc.defs[i].k = "frag" THEN {doc.defs[i].on} ELSE {}) : i \in 1..Len(doc.defs)}
VarTypes(doc) == UNION {{Unwrap(vd.type) : vd \in Rng(op.vars)} : op \in Rng(Ops(doc))}
R_KnownTypeNames(doc) == \A t \in AllConds(doc) \cup VarTypes(doc) : Known(t)
R_FragmentsOnCompositeTypes(doc) == \A t \in AllConds(doc) : Known(t) => Composite(t)
InputType(t) == Known(t) /\ Kind[t] \in {"scalar", "enum", "input"}
R_VariablesAreInputTypes(doc) == \A t \in VarTypes(doc) : Known(t) => InputType(t)
R_UniqueVariableNames(doc) == \A op \in Rng(Ops(doc)) : NoDup([j \in 1..Len(op.vars) |-> op.vars[j].name])
\* fragment spreads must be possible: the type condition and the parent type share a possible object type
RECURSIVE SpreadSites(_, _, _)
SpreadSites(doc, sel, pt) ==
  FlattenSeq([i \in 1..Len(sel) |->
     LET s == sel[i] IN
     CASE s.k = "field" -> SpreadSites(doc, s.sel, SubTypeOf(pt, s.name))
       [] s.k = "inline" -> (IF s.on = "" THEN <<>> ELSE <<[pt |-> pt, cond |-> s.on]>>) \o SpreadSites(doc, s.sel, IF s.on = "" THEN pt ELSE IF Composite(s.on) THEN s.on ELSE "")
       [] s.k = "spread" -> IF s.name \in FragNames(doc) THEN <<[pt |-> pt, cond |-> Frag(doc, s.name).on]>> ELSE <<>>])
AllSpreadSites(doc) == FlattenSeq([i \in 1..Len(doc.defs) |-> LET d == doc.defs[i] IN
                          SpreadSites(doc, d.sel, IF d.k = "op" THEN RootType(d) ELSE IF Composite(d.on) THEN d.on ELSE "")])
R_PossibleFragmentSpreads(doc) == \A x \in Rng(AllSpreadSites(doc)) :
   (x.pt = "" \/ ~Composite(x.cond)) \/ Possible[x.cond] \cap Possible[x.pt] # {}
\* every selection node (field, inline fragment, spread) of the document: the places that carry directives
RECURSIVE NodesIn(_)
NodesIn(sel) == FlattenSeq([i \in 1..Len(sel) |-> <<sel[i]>> \o (IF sel[i].k = "spread" THEN <<>> ELSE NodesIn(sel[i].sel))])
AllNodes(doc) == FlattenSeq([i \in 1..Len(doc.defs) |-> NodesIn(doc.defs[i].sel)])
AllDirs(doc) == LET ns == AllNodes(doc) IN FlattenSeq([i \in 1..Len(ns) |-> ns[i].dirs])
R_KnownDirectives(doc) == \A d \in Rng(AllDirs(doc)) : KnownDir(d.name)
R_UniqueDirectivesPerLocation(doc) == \A x \in Rng(AllNodes(doc)) : NoDup([d \in 1..Len(x.dirs) |-> x.dirs[d].name])
DirArgsKnown(doc) == \A d \in Rng(AllDirs(doc)) : KnownDir(d.name) => \A j \in 1..Len(d.args) : d.args[j].name = "if"
DirArgsUnique(doc) == \A d \in Rng(AllDirs(doc)) : NoDup([j \in 1..Len(d.args) |-> d.args[j].name])
DirArgsProvided(doc) == \A d \in Rng(AllDirs(doc)) : KnownDir(d.name) => \E j \in 1..Len(d.args) : d.args[j].name = "if"
\* arguments
R_KnownArgumentNames(doc) == DirArgsKnown(doc) /\ \A e \in Rng(AllFields(doc)) :
   LET d == FieldDef(e.pt, e.node.name) IN
   (e.pt = "" \/ ~HasDef(d)) \/ \A j \in 1..Len(e.node.args) : \E k \in 1..Len(d.args) : d.args[k].name = e.node.args[j].name
R_UniqueArgumentNames(doc) == DirArgsUnique(doc) /\ \A e \in Rng(AllFields(doc)) : NoDup([j \in 1..Len(e.node.args) |-> e.node.args[j].name])
R_ProvidedRequiredArguments(doc) == DirArgsProvided(doc) /\ \A e \in Rng(AllFields(doc)) :
   LET d == FieldDef(e.pt, e.node.name) IN
   (e.pt = "" \/ ~HasDef(d)) \/ \A k \in 1..Len(d.args) : (d.args[k].type.k = "nn" /\ ~d.args[k].hasDef) => \E j \in 1..Len(e.node.args) : e.node.args[j].name = d.args[k].name

\* ---- values and variable positions (5.6.1 Values of Correct Type, 5.8.5 All Variable Usages are Allowed) ----------------------
\* literals of the documents: int, null, list, obj, var; input types of the schema: Int, [Int], Int!, [Int!]
RECURSIVE ValidValue(_, _)
ValidValue(v, t) ==
  IF v.k = "var" THEN TRUE
  ELSE IF t.k = "nn" THEN v.k # "null" /\ ValidValue(v, t.of)
  ELSE IF v.k = "null" THEN TRUE
  ELSE IF t.k = "list" THEN (IF v.k = "list" THEN \A i \in 1..Len(v.vs) : ValidValue(v.vs[i], t.of) ELSE ValidValue(v, t.of))
  ELSE IF ~Known(t.n) THEN TRUE
  ELSE IF t.n = "In" THEN
       /\ v.k = "obj"
       /\ \A f \in Rng(v.fs) : InField(f.key).name # "" /\ ValidValue(f.val, InField(f.key).type)
       /\ \A d \in Rng(InFields) : (d.type.k = "nn" /\ ~d.hasDef) => \E f \in Rng(v.fs) : f.key = d.name
  ELSE IF t.n = "Int" THEN v.k = "int"
  ELSE IF t.n = "String" THEN v.k = "str"
  ELSE IF t.n = "Boolean" THEN v.k = "bool"
  ELSE TRUE
ArgDef(d, n) == LET idx == {k \in 1..Len(d.args) : d.args[k].name = n}
                IN IF idx = {} THEN [name |-> "", type |-> Named(""), hasDef |-> FALSE] ELSE d.args[CHOOSE k \in idx : TRUE]
RECURSIVE InputOk(_)
InputOk(t) == IF t.k = "named" THEN InputType(t.n) ELSE InputOk(t.of)
R_ValuesOfCorrectType(doc) ==
  /\ \A d \in Rng(AllDirs(doc)) :
        KnownDir(d.name) => \A j \in 1..Len(d.args) : d.args[j].name = "if" => ValidValue(d.args[j].value, IfType)
  /\ \A e \in Rng(AllFields(doc)) :
        LET d == FieldDef(e.pt, e.node.name) IN
        (e.pt = "" \/ ~HasDef(d)) \/ \A j \in 1..Len(e.node.args) :
            LET ad == ArgDef(d, e.node.args[j].name) IN ad.name = "" \/ ValidValue(e.node.args[j].value, ad.type)
  /\ \A op \in Rng(Ops(doc)) : \A vd \in Rng(op.vars) :
        (vd.def.k = "none" \/ ~InputOk(vd.type)) \/ ValidValue(vd.def, vd.type)
\* usages: [n |-> variable, t |-> location type, locDef |-> location has a default]
RECURSIVE UsagesInValue(_, _, _)
UsagesInValue(v, t, locDef) ==
  CASE v.k = "var" -> <<[n |-> v.n, t |-> t, locDef |-> locDef]>>
    [] v.k = "list" -> FlattenSeq([i \in 1..Len(v.vs) |->
                          UsagesInValue(v.vs[i], IF t.k = "nn" /\ t.of.k = "list" THEN t.of.of ELSE IF t.k = "list" THEN t.of ELSE Named(""), FALSE)])
    [] v.k = "obj" -> LET nt == Named(Unwrap(t)) IN       \* an object literal in a list position is the single item of that list (3.11 input coercion)
                      IF nt.k = "named" /\ nt.n = "In"
                      THEN FlattenSeq([i \in 1..Len(v.fs) |-> LET fd == InField(v.fs[i].key) IN
                                         IF fd.name = "" THEN <<>> ELSE UsagesInValue(v.fs[i].val, fd.type, fd.hasDef)])
                      ELSE <<>>
    [] OTHER -> <<>>
DirUsages(dirs) == FlattenSeq([d \in 1..Len(dirs) |->
     IF ~KnownDir(dirs[d].name) THEN <<>>
     ELSE FlattenSeq([j \in 1..Len(dirs[d].args) |-> IF dirs[d].args[j].name = "if" THEN UsagesInValue(dirs[d].args[j].value, IfType, FALSE) ELSE <<>>])])
RECURSIVE UsagesIn(_, _)
UsagesIn(sel, pt) ==
  FlattenSeq([i \in 1..Len(sel) |->
     LET s == sel[i] IN
     CASE s.k = "spread" -> DirUsages(s.dirs)
       [] s.k = "inline" -> DirUsages(s.dirs) \o UsagesIn(s.sel, IF s.on = "" THEN pt ELSE IF Composite(s.on) THEN s.on ELSE "")
       [] s.k = "field" -> LET d == FieldDef(pt, s.name) IN
            DirUsages(s.dirs) \o
            (IF pt = "" \/ ~HasDef(d) THEN <<>>
             ELSE FlattenSeq([j \in 1..Len(s.args) |-> LET ad == ArgDef(d, s.args[j].name) IN
                                IF ad.name = "" THEN <<>> ELSE UsagesInValue(s.args[j].value, ad.type, ad.hasDef)]))
            \o UsagesIn(s.sel, SubTypeOf(pt, s.name))])
FragUsages(doc, n) == LET f == Frag(doc, n) IN UsagesIn(f.sel, IF Composite(f.on) THEN f.on ELSE "")
OpUsages(doc, op) == LET rs == ReachFrom(doc, op.sel) \cap FragNames(doc)
                         rseq == SetToSeq(rs)
                     IN UsagesIn(op.sel, RootType(op)) \o FlattenSeq([k \in 1..Len(rseq) |-> FragUsages(doc, rseq[k])])
RECURSIVE Compatible(_, _)
Compatible(v, l) ==
  IF l.k = "nn" THEN v.k = "nn" /\ Compatible(v.of, l.of)
  ELSE IF v.k = "nn" THEN Compatible(v.of, l)
  ELSE IF l.k = "list" THEN v.k = "list" /\ Compatible(v.of, l.of)
  ELSE IF v.k = "list" THEN FALSE
  ELSE v.n = l.n
UsageAllowed(vd, u) ==
  IF u.t.k = "nn" /\ vd.type.k # "nn"
  THEN (vd.def.k \notin {"none", "null"} \/ u.locDef) /\ Compatible(vd.type, u.t.of)
  ELSE Compatible(vd.type, u.t)
R_VariablesInAllowedPosition(doc) == \A op \in Rng(Ops(doc)) :
  LET us == OpUsages(doc, op) IN
  \A k \in 1..Len(us) : \A j \in 1..Len(op.vars) :
     \* the first definition of a name is the one that counts when the name is defined twice (another rule reports that)
     (op.vars[j].name = us[k].n /\ (\A j2 \in 1..(j-1) : op.vars[j2].name # us[k].n) /\ Unwrap(us[k].t) # "" /\ InputOk(op.vars[j].type))
        => UsageAllowed(op.vars[j], us[k])

\* ---- C05: what execution of an accepted document must produce (6.3 CollectFields / ExecuteSelectionSet) -----------------------
\* conc: the concrete object type every abstract-typed (I, U) field resolves to.  Shape = ordered response keys with their kind;
\* amb: some response key groups fields that differ in name or arguments ON THE RUNTIME TYPE (then no single value can answer it).
Applies(objType, cond) == cond = "" \/ cond = objType \/ (cond \in DOMAIN Possible /\ objType \in Possible[cond])
\* @skip / @include: Boolean variables are always supplied (or defaulted) as true by the harness
Truth(v) == IF v.k = "bool" THEN v.v = "true" ELSE TRUE
DirKeeps(d) == LET idx == {j \in 1..Len(d.args) : d.args[j].name = "if"} IN
               IF idx = {} \/ ~KnownDir(d.name) THEN TRUE
               ELSE LET v == d.args[CHOOSE j \in idx : TRUE].value IN IF d.name = "skip" THEN ~Truth(v) ELSE Truth(v)
Kept(s) == \A d \in 1..Len(s.dirs) : DirKeeps(s.dirs[d])
RECURSIVE CollectF(_, _, _, _)
CollectF(doc, sel, objType, fuel) ==
  IF fuel = 0 THEN <<>> ELSE
  FlattenSeq([i \in 1..Len(sel) |->
     LET s == sel[i] IN
     CASE ~Kept(s) -> <<>>
       [] s.k = "field" -> <<s>>
       [] s.k = "inline" -> IF Applies(objType, s.on) THEN CollectF(doc, s.sel, objType, fuel) ELSE <<>>
       [] s.k = "spread" -> IF s.name \in FragNames(doc) /\ Applies(objType, Frag(doc, s.name).on)
                            THEN CollectF(doc, Frag(doc, s.name).sel, objType, fuel - 1) ELSE <<>>])
RKey(s) == IF s.alias = "" THEN s.name ELSE s.alias
RECURSIVE IsListT(_)
IsListT(t) == IF t.k = "list" THEN TRUE ELSE IF t.k = "nn" THEN IsListT(t.of) ELSE FALSE
RECURSIVE Shape(_, _, _, _, _)
Shape(doc, sel, objType, conc, fuel) ==
  LET fs == CollectF(doc, sel, objType, 8)
      idxs == SelectSeq([i \in 1..Len(fs) |-> i], LAMBDA i : \A j \in 1..(i-1) : RKey(fs[j]) # RKey(fs[i]))
  IN [n \in 1..Len(idxs) |->
        LET f == fs[idxs[n]]
            key == RKey(f)
            d == FieldDef(objType, f.name)
            group == SelectSeq(fs, LAMBDA g : RKey(g) = key)
            subsel == FlattenSeq([m \in 1..Len(group) |-> group[m].sel])
            tn == Unwrap(d.type)
            abstract == Known(tn) /\ Kind[tn] \in {"interface", "union"}
            rt == IF abstract THEN (IF conc \in Possible[tn] THEN conc ELSE CHOOSE x \in Possible[tn] : TRUE) ELSE tn   \* J and U2 have one possible type
            rt2 == IF abstract THEN (IF conc = "Obj" THEN "Obj2" ELSE "Obj") ELSE tn     \* lists of abstract types alternate
            amb == \E m \in 1..Len(group) : group[m].name # f.name \/ ArgSet(group[m]) # ArgSet(f)
        IN IF ~HasDef(d) THEN [key |-> key, kind |-> "unknown", amb |-> amb, sub |-> <<>>, sub2 |-> <<>>]
           ELSE IF Leaf(tn) \/ fuel = 0 THEN [key |-> key, kind |-> "leaf", amb |-> amb, sub |-> <<>>, sub2 |-> <<>>]
           ELSE IF IsListT(d.type) THEN [key |-> key, kind |-> "list", amb |-> amb, sub |-> Shape(doc, subsel, rt, conc, fuel - 1),
                                         sub2 |-> Shape(doc, subsel, rt2, conc, fuel - 1)]
           ELSE [key |-> key, kind |-> "obj", amb |-> amb, sub |-> Shape(doc, subsel, rt, conc, fuel - 1), sub2 |-> <<>>]]
Shapes(doc) == IF ~R_NoFragmentCycles(doc) THEN <<>>
               ELSE LET os == Ops(doc) IN
                    [i \in 1..Len(os) |-> [name |-> os[i].name, Obj |-> Shape(doc, os[i].sel, RootType(os[i]), "Obj", 8), Obj2 |-> Shape(doc, os[i].sel, RootType(os[i]), "Obj2", 8)]]

\* ---- 5.1.1 Executable Definitions: a document submitted for execution only holds operations and fragments -------------------
\* (a type-system definition is a def record with k = "typedef": name, no selections; only reachable with allow_type_system)
R_ExecutableDefinitions(doc) == \A d \in Rng(doc.defs) : d.k \in {"op", "frag"}

\* ---- input object literals: 5.6.3 Input Object Field Uniqueness -------------------------------------------------------------------
RECURSIVE ObjsIn(_)
ObjsIn(v) == CASE v.k = "obj" -> <<v>> \o FlattenSeq([i \in 1..Len(v.fs) |-> ObjsIn(v.fs[i].val)])
               [] v.k = "list" -> FlattenSeq([i \in 1..Len(v.vs) |-> ObjsIn(v.vs[i])])
               [] OTHER -> <<>>
ArgObjs(args) == FlattenSeq([j \in 1..Len(args) |-> ObjsIn(args[j].value)])
AllObjs(doc) == LET ns == AllNodes(doc)  os == Ops(doc) IN
    FlattenSeq([i \in 1..Len(ns) |-> (IF ns[i].k = "field" THEN ArgObjs(ns[i].args) ELSE <<>>)
                                       \o FlattenSeq([d \in 1..Len(ns[i].dirs) |-> ArgObjs(ns[i].dirs[d].args)])])
    \o FlattenSeq([i \in 1..Len(os) |-> FlattenSeq([j \in 1..Len(os[i].vars) |-> IF os[i].vars[j].def.k = "none" THEN <<>> ELSE ObjsIn(os[i].vars[j].def)])])
R_UniqueInputFieldNames(doc) == \A o \in Rng(AllObjs(doc)) : NoDup([j \in 1..Len(o.fs) |-> o.fs[j].key])
\* ---- 5.2.3.1 Single root field: CollectFields of a subscription's selection set yields exactly one response key -----------------
R_SingleFieldSubscriptions(doc) == \A op \in Rng(Ops(doc)) : op.op = "subscription" =>
    Cardinality({RKey(f) : f \in Rng(CollectF(doc, op.sel, "Subscription", 8))}) = 1

Verdict(doc) == [FieldsOnCorrectTypeChecker |-> R_FieldsOnCorrectType(doc), ScalarLeafsChecker |-> R_ScalarLeafs(doc),
                 NoFragmentCyclesChecker |-> R_NoFragmentCycles(doc), NoUndefinedVariablesChecker |-> R_NoUndefinedVariables(doc),
                 NoUnusedVariablesChecker |-> R_NoUnusedVariables(doc), OverlappingFieldsCanBeMergedChecker |-> R_Overlapping(doc),
                 UniqueOperationNameChecker |-> R_UniqueOperationName(doc), LoneAnonymousOperationChecker |-> R_LoneAnonymousOperation(doc),
                 UniqueFragmentNamesChecker |-> R_UniqueFragmentNames(doc), KnownFragmentNamesChecker |-> R_KnownFragmentNames(doc),
                 NoUnusedFragmentsChecker |-> R_NoUnusedFragments(doc), KnownTypeNamesChecker |-> R_KnownTypeNames(doc),
                 FragmentsOnCompositeTypesChecker |-> R_FragmentsOnCompositeTypes(doc), VariablesAreInputTypesChecker |-> R_VariablesAreInputTypes(doc),
                 UniqueVariableNamesChecker |-> R_UniqueVariableNames(doc), PossibleFragmentSpreadsChecker |-> R_PossibleFragmentSpreads(doc),
                 KnownArgumentNamesChecker |-> R_KnownArgumentNames(doc), UniqueArgumentNamesChecker |-> R_UniqueArgumentNames(doc),
                 ProvidedRequiredArgumentsChecker |-> R_ProvidedRequiredArguments(doc),
                 ValuesOfCorrectTypeChecker |-> R_ValuesOfCorrectType(doc), VariablesInAllowedPositionChecker |-> R_VariablesInAllowedPosition(doc),
                 KnownDirectivesChecker |-> R_KnownDirectives(doc), UniqueDirectivesPerLocationChecker |-> R_UniqueDirectivesPerLocation(doc),
                 UniqueInputFieldNamesChecker |-> R_UniqueInputFieldNames(doc), SingleFieldSubscriptionsChecker |-> R_SingleFieldSubscriptions(doc),
                 ExecutableDefinitionsChecker |-> R_ExecutableDefinitions(doc)]
VARIABLE i
Init == i \in 1..Len(Cases)
Next == FALSE /\ UNCHANGED i
Spec == Init /\ [][Next]_i
Out == PrintT("VAL " \o ToJson([id |-> i, v |-> Verdict(Cases[i]), sh |-> Shapes(Cases[i])]))
=============================================================================
