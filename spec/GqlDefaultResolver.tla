---------------------------- MODULE GqlDefaultResolver ----------------------------
(* Supplementary (beyond the twenty listed properties): the resolver that serves every field without a resolver of its own
   (py_gql.execution.default_resolver), as documented in its docstring.

   A case = the parent value (root), the field definition and the coerced arguments:
     root   : "none" (the root value is None) | "mapping" (a Mapping, not necessarily a dict) | "object"
     where  : which name the member is stored under - "name" (the GraphQL field name), "python" (the field's python_name),
              "both" (different values under both) or "absent"
     member : "value" | "falsy" (0: present, not to be confused with absent) | "none" | "callable"
     named  : whether the field definition carries a python_name different from its name
     args   : the coerced arguments handed over (none / one)
   Documented lookup: the key / attribute consulted is the python_name (equal to the name unless configured); a Mapping
   returns what is stored there (a callable stored in a Mapping is RETURNED, not called); an object attribute that is
   callable is treated like a method and called with (context, info, **args); everything else - absent key, absent
   attribute, None root - gives None.
   Expected: [k |-> "none"] | [k |-> "value", of |-> "name" | "python"] | [k |-> "falsy"] | [k |-> "callable-returned", of]
             | [k |-> "called", of, args]                                                                           *)
EXTENDS Naturals, Sequences, FiniteSets, TLC, Json
Roots == {"none", "mapping", "object"}
Wheres == {"name", "python", "both", "absent"}
Members == {"value", "falsy", "none", "callable"}
VARIABLES root, where, member, named, args
vars == <<root, where, member, named, args>>
Init == /\ root \in Roots /\ where \in Wheres /\ member \in Members /\ named \in BOOLEAN /\ args \in {0, 1}
        /\ (root = "none" => where = "absent")
        /\ (~named => where \in {"name", "absent"})       \* without a configured python name there is only one name
Next == FALSE /\ UNCHANGED vars
Spec == Init /\ [][Next]_vars
\* the name the resolver consults
Key == IF named THEN "python" ELSE "name"
Found == where = "both" \/ where = Key
Stored == IF ~Found THEN [k |-> "none"]
          ELSE CASE member = "value" -> [k |-> "value", of |-> Key]
                 [] member = "falsy" -> [k |-> "falsy"]
                 [] member = "none" -> [k |-> "none"]
                 [] member = "callable" -> [k |-> "callable", of |-> Key]
Expected == IF root = "none" THEN [k |-> "none"]
            ELSE IF Stored.k # "callable" THEN Stored
            ELSE IF root = "mapping" THEN [k |-> "callable-returned", of |-> Stored.of]
            ELSE [k |-> "called", of |-> Stored.of, args |-> args]
\* R1: a member stored under the OTHER name only is never served; nothing is invented for an absent member
NoInvention == (~Found => Expected.k = "none") /\ (Expected.k \in {"value", "called", "callable-returned"} => Expected.of = Key)
Emit == PrintT("DRS " \o ToJson([root |-> root, where |-> where, member |-> member, named |-> named, args |-> args, r |-> Expected]))
=============================================================================
