---------------------------- MODULE GqlCoerce ----------------------------
(* C07: input coercion (June 2018, 3.x "Input Coercion" of each type, 6.1.2 CoerceVariableValues, 6.4.1 CoerceArgumentValues)
   as a reference function over abstract values, with the library's documented deltas: input objects become dicts keyed
   by the configured Python names, enum names become their internal values.

   One case = (argument type t, route, supplied value).  Routes by which a value reaches a field argument `arg: t`:
     literal      { f(arg: <literal of the value>) }
     variable     query($v: t) { f(arg: $v) }            variables = {v: value}
     vardefault   query($v: t = <literal>) { f(arg: $v) } variables = {}
     omitted      { f }                                   (no argument; nothing to coerce)
     objvar       { f(arg: {y: 0, x: $w}) }  with $w: Int supplied (value) or not supplied (absent) - In-typed args only
     listvar      query($w: Int) { f(arg: [0, $w]) }  for arg: [Int], with $w supplied (value) or not supplied (absent: the item is null)
     nullvar      query($v: Int) { g(arg: $v) }  for  g(arg: Int! = 3), variables = {v: null}: null must not reach a non-null arg
     argdef-nullvar / argdef-novar   query($v: Int) { g2(arg: $v) }  for  g2(arg: Int = 3): an explicit null variable gives null,
                  a variable without runtime value gives the argument default
     pertype      { items { x } }  items: [I] of concrete types T1, T2 declaring x(arg: Int = 1) and x(arg: Int = 2): every
                  resolver receives the default of ITS OWN field definition (no carry-over inside one request)
   Expected result: [ok |-> TRUE, v |-> PyValue] (what the resolver must receive), [ok |-> FALSE] (rejected before any
   resolver runs) or v.k = "dontcare" (scalar-to-scalar leniency the specification leaves to the implementation:
   reported, not judged - DESIGN Appendix B.9).
   Schema of the harness:  enum E { A  B }  with internal values A -> 1 ("e1"), B -> "b" ("eb")
                           input In { x: Int = 3   y: Int!   e: E = A   z: In   l: [In!]   d: Int = null }  python names px py pe pz pl pd *)
EXTENDS Naturals, Sequences, FiniteSets, TLC, Json, SequencesExt
CONSTANT Depth          \* wrapper depth of argument types (1, 2 or 3)
\* ---- type language --------------------------------------------------------
Named(n) == [k |-> "named", n |-> n]
ListOf(t) == [k |-> "list", of |-> t]
NN(t) == [k |-> "nn", of |-> t]
Base == {Named("Int"), Named("Str"), Named("E"), Named("In")}
Wrap1(S) == S \cup {ListOf(t) : t \in S} \cup {NN(t) : t \in {x \in S : x.k # "nn"}}
Types == IF Depth = 1 THEN Wrap1(Base) ELSE IF Depth = 2 THEN Wrap1(Wrap1(Base)) ELSE IF Depth = 3 THEN Wrap1(Wrap1(Wrap1(Base))) ELSE Wrap1(Wrap1(Wrap1(Wrap1(Base))))
EnumInternal == [A |-> "e1", B |-> "eb"]
InFields == << [name |-> "x", py |-> "px", type |-> Named("Int"), hasDef |-> TRUE,  def |-> [k |-> "int", v |-> "3"]],
               [name |-> "y", py |-> "py", type |-> NN(Named("Int")), hasDef |-> FALSE, def |-> [k |-> "null"]],
               [name |-> "e", py |-> "pe", type |-> Named("E"), hasDef |-> TRUE,  def |-> [k |-> "enumv", v |-> "e1"]],
               [name |-> "z", py |-> "pz", type |-> Named("In"), hasDef |-> FALSE, def |-> [k |-> "null"]],
               [name |-> "l", py |-> "pl", type |-> ListOf(NN(Named("In"))), hasDef |-> FALSE, def |-> [k |-> "null"]],
               [name |-> "d", py |-> "pd", type |-> Named("Int"), hasDef |-> TRUE, def |-> [k |-> "null"]] >>      \* an explicit "= null" default is a default
\* ---- supplied values (JSON / literal shaped) --------------------------------
IntAtoms == {"MININT-1", "MININT", "0", "MAXINT", "MAXINT+1", "HUGE"}     \* HUGE: the number 1e999 (no integer, beyond every range)
InRange(a) == a \in {"MININT", "0", "MAXINT"}
Scalars == {[k |-> "null"]} \cup {[k |-> "int", v |-> a] : a \in IntAtoms} \cup {[k |-> "str", v |-> s] : s \in {"A", "q"}}
Obj(fs) == [k |-> "obj", fs |-> fs]            \* fs: sequence of [key, val]
Keys == {"x", "y", "e", "u"}                    \* u is not a field of In
Y0 == [key |-> "y", val |-> [k |-> "int", v |-> "0"]]
Objs(V) == {Obj(<<>>)} \cup {Obj(<<[key |-> a, val |-> w]>>) : a \in Keys, w \in V}
           \cup {Obj(<<Y0, [key |-> a, val |-> w]>>) : a \in {"x", "e", "u", "z", "l"}, w \in V}
Lists(V) == {[k |-> "list", vs |-> <<>>]} \cup {[k |-> "list", vs |-> <<w>>] : w \in V} \cup {[k |-> "list", vs |-> <<w, [k |-> "int", v |-> "0"]>>] : w \in V}
V1 == Scalars \cup Objs(Scalars) \cup Lists(Scalars)
Values == V1 \cup Objs({Obj(<<Y0>>), Obj(<<>>)}) \cup Lists(Objs(Scalars)) \cup Objs({[k |-> "list", vs |-> <<Obj(<<Y0>>)>>], [k |-> "list", vs |-> <<Obj(<<>>)>>]})

\* ---- reference coercion ----------------------------------------------------------
Ok(w) == [ok |-> TRUE, v |-> w]
Bad == [ok |-> FALSE, v |-> [k |-> "null"]]
DontCare == [ok |-> TRUE, v |-> [k |-> "dontcare"]]
RECURSIVE Coerce(_, _)
CoerceFields(val) ==
  LET has(n) == \E i \in 1..Len(val.fs) : val.fs[i].key = n
      get(n) == val.fs[CHOOSE i \in 1..Len(val.fs) : val.fs[i].key = n].val
      unknown == \E i \in 1..Len(val.fs) : \A j \in 1..Len(InFields) : InFields[j].name # val.fs[i].key
      res == [j \in 1..Len(InFields) |->
                IF has(InFields[j].name) THEN Coerce(InFields[j].type, get(InFields[j].name))
                ELSE IF InFields[j].hasDef THEN Ok(InFields[j].def)
                ELSE IF InFields[j].type.k = "nn" THEN Bad ELSE [ok |-> TRUE, v |-> [k |-> "absent"]]]
  IN IF unknown \/ \E j \in 1..Len(InFields) : ~res[j].ok THEN Bad
     ELSE IF \E j \in 1..Len(InFields) : res[j].v.k = "dontcare" THEN DontCare
     ELSE Ok([k |-> "dict", fs |-> SelectSeq([j \in 1..Len(InFields) |-> [key |-> InFields[j].py, val |-> res[j].v]],
                                              LAMBDA f : f.val.k # "absent")])
Coerce(t, val) ==
  IF t.k = "nn" THEN (IF val.k = "null" THEN Bad ELSE Coerce(t.of, val))
  ELSE IF val.k = "null" THEN Ok([k |-> "null"])
  ELSE IF t.k = "list" THEN
     IF val.k = "list" THEN LET rs == [i \in 1..Len(val.vs) |-> Coerce(t.of, val.vs[i])]
                            IN IF \E i \in 1..Len(rs) : ~rs[i].ok THEN Bad
                               ELSE IF \E i \in 1..Len(rs) : rs[i].v.k = "dontcare" THEN DontCare
                               ELSE Ok([k |-> "list", vs |-> [i \in 1..Len(rs) |-> rs[i].v]])
     ELSE LET r == Coerce(t.of, val) IN IF ~r.ok THEN Bad ELSE IF r.v.k = "dontcare" THEN DontCare ELSE Ok([k |-> "list", vs |-> <<r.v>>])
  ELSE IF t.n = "Int" THEN
     IF val.k = "int" THEN (IF InRange(val.v) THEN Ok(val) ELSE Bad)
     ELSE IF val.k \in {"obj", "list"} THEN Bad ELSE DontCare
  ELSE IF t.n = "Str" THEN
     IF val.k = "str" THEN Ok(val)
     ELSE IF val.k \in {"obj", "list"} THEN Bad ELSE DontCare
  ELSE IF t.n = "E" THEN
     IF val.k = "str" THEN (IF val.v \in DOMAIN EnumInternal THEN Ok([k |-> "enumv", v |-> EnumInternal[val.v]]) ELSE Bad) ELSE Bad
  ELSE \* In
     IF val.k = "obj" THEN CoerceFields(val) ELSE Bad

Routes == {"literal", "variable", "vardefault", "omitted", "objvar-given", "objvar-absent", "listvar-given", "listvar-absent", "nullvar", "argdef-nullvar", "argdef-novar", "pertype"}
VARIABLES ty, val, route
vars == <<ty, val, route>>
Init == /\ route \in Routes
        /\ ty \in (IF route \in {"objvar-given", "objvar-absent"} THEN {Named("In"), NN(Named("In"))}
                   ELSE IF route \in {"listvar-given", "listvar-absent"} THEN {ListOf(Named("Int"))}
                   ELSE IF route = "nullvar" THEN {NN(Named("Int"))}
                   ELSE IF route \in {"argdef-nullvar", "argdef-novar", "pertype"} THEN {Named("Int")}
                   ELSE IF route = "omitted" THEN {t \in Types : t.k # "nn"}
                   ELSE Types)
        /\ val \in (IF route \in {"objvar-given", "listvar-given"} THEN {w \in Scalars : w.k \in {"int", "null"}}
                    ELSE IF route \in {"objvar-absent", "listvar-absent", "nullvar", "omitted", "argdef-nullvar", "argdef-novar", "pertype"} THEN {[k |-> "null"]}
                    ELSE Values)
Next == FALSE /\ UNCHANGED vars
Spec == Init /\ [][Next]_vars

Expected ==
  CASE route \in {"literal", "variable", "vardefault"} -> Coerce(ty, val)
    [] route = "omitted" -> [ok |-> TRUE, v |-> [k |-> "absent"]]        \* optional argument without default is omitted
    [] route = "objvar-given" -> Coerce(ty, Obj(<<Y0, [key |-> "x", val |-> val]>>))
    [] route = "objvar-absent" -> Coerce(ty, Obj(<<Y0>>))                  \* the field's default (3) is used
    [] route = "listvar-given" -> Coerce(ty, [k |-> "list", vs |-> <<[k |-> "int", v |-> "0"], val>>])
    [] route = "listvar-absent" -> Ok([k |-> "list", vs |-> <<[k |-> "int", v |-> "0"], [k |-> "null"]>>])   \* a variable without value is null in a list
    [] route = "nullvar" -> Bad                                            \* null for a non-null argument is rejected
    [] route = "argdef-nullvar" -> Ok([k |-> "null"])
    [] route = "argdef-novar" -> Ok([k |-> "int", v |-> "3"])
    [] route = "pertype" -> Ok([k |-> "list", vs |-> <<[k |-> "int", v |-> "1"], [k |-> "int", v |-> "2"], [k |-> "int", v |-> "1"]>>])
Out == PrintT("COE " \o ToJson([ty |-> ty, val |-> val, route |-> route, r |-> Expected]))

\* ---- R1: laws of the reference ----------------------------------------------------------------------------------
\* the same value supplied inline or through a variable gives the same arguments (both routes use Coerce by construction);
\* non-null positions never hold null; a single value in list position is wrapped; integers stay within 32 bits
RECURSIVE NoNullInNN(_, _)
NoNullInNN(t, w) ==
  IF w.k = "dontcare" THEN TRUE
  ELSE IF t.k = "nn" THEN w.k # "null" /\ NoNullInNN(t.of, w)
  ELSE IF w.k = "null" THEN TRUE
  ELSE IF t.k = "list" THEN w.k = "list" /\ \A i \in 1..Len(w.vs) : NoNullInNN(t.of, w.vs[i])
  ELSE IF t.n = "Int" THEN w.k = "int" /\ InRange(w.v)
  ELSE TRUE
Laws == LET r == Coerce(ty, val) IN (route \in {"literal", "variable"} /\ r.ok) => NoNullInNN(ty, r.v)
=============================================================================
