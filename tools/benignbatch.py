#!/usr/bin/env python3
"""tools/benignbatch.py [-j N] <dir>=<check,check,...> ...  - false-alarm measurement: every <dir>/patch.diff is a behaviour-preserving
refactoring of /repo (produced by an agent that only saw the source); it is applied to a private worktree of /repo HEAD, the test
suite is run, then the listed checks (quick tier).  A VIOLATION here is either a false alarm of the check or a refactoring that
is not behaviour preserving after all - each one has to be looked at.  Prints one line per patch."""
import concurrent.futures as cf
import json
import os
import subprocess
import sys


def sh(cmd):
    return subprocess.run(cmd, shell=True, stdout=subprocess.PIPE, stderr=subprocess.STDOUT, text=True)


def one(spec):
    d, _, cl = spec.partition("=")
    d = os.path.abspath(d)
    checks = [c for c in cl.split(",") if c]
    name = "-".join(d.split("/")[-2:])
    wt = "/tmp/seedwt/benign-%s-%d" % (name, os.getpid())
    os.makedirs("/tmp/seedwt", exist_ok=True)
    res = {"patch": d}
    a = sh("git -C /repo worktree add --detach %s HEAD" % wt)
    try:
        a = sh("git -C %s apply %s/patch.diff" % (wt, d))
        if a.returncode != 0:      # /repo has moved on (fix commits): merge
            a = sh("git -C %s apply --3way %s/patch.diff" % (wt, d))
            sh("git -C %s reset -q" % wt)
        if a.returncode != 0:
            return name, "PATCH DOES NOT APPLY", a.stdout[-200:]
        t = sh("cd %s && PYTHONPATH=%s/src /venv/bin/python -m pytest -q -p no:cacheprovider --color=no 2>&1 | tail -1" % (wt, wt))
        res["tests"] = t.stdout.strip()[-80:]
        out = []
        for c in checks:
            r = sh("cd /verif && VERIF_REPO=%s VERIF_EVIDENCE_DIR=%s-ev timeout 1800 ./check %s --tier quick" % (wt, wt, c))
            keys = [l.strip()[4:].split(" what=")[0] for l in r.stdout.splitlines() if l.strip().startswith("key=")]
            out.append("%s:rc=%d%s" % (c, r.returncode, (" " + ";".join(keys[:3])) if r.returncode else ""))
        return name, res["tests"], " ".join(out)
    finally:
        sh("git -C /repo worktree remove --force %s" % wt)
        sh("rm -rf %s-ev" % wt)


def main():
    args = sys.argv[1:]
    j = 3
    if args and args[0] == "-j":
        j = int(args[1])
        args = args[2:]
    with cf.ThreadPoolExecutor(j) as ex:
        for r in ex.map(one, args):
            print(*r, flush=True)


main()
