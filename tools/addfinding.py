#!/usr/bin/env python3
"""tools/addfinding.py <property> <status known|fixed> <key> <what> [commit]  - append an entry to known_findings.json"""
import json
import sys
p = "/verif/known_findings.json"
d = json.load(open(p))
e = {"property": sys.argv[1], "status": sys.argv[2]}
if sys.argv[2] == "fixed":
    e["commit"] = sys.argv[5]
e["key"] = sys.argv[3]
e["what"] = sys.argv[4]
d["findings"].append(e)
json.dump(d, open(p, "w"), indent=1)
print("added", e["property"], e["status"], e["key"])
