#!/venv/bin/python
"""Prints the markdown tables of DESIGN.md section 9 from evidence/*.json, seeded/*/meta.json and known_findings.json."""
import glob
import json
import os

V = os.path.dirname(os.path.dirname(os.path.abspath(__file__)))


def main():
    print("| Property | tier | TLC states (distinct, all runs) | behaviours / cases replayed or judged against the code | wall s |")
    print("|---|---|---|---|---|")
    for f in sorted(glob.glob(V + "/evidence/C*.json")):
        e = json.load(open(f))
        c = e["coverage"]
        print("| %s | %s | %s | %s | %s |" % (e["property_id"], e["tier"], c.get("states"), c.get("traces_validated_against_impl"), e.get("wall_s", c.get("wall_s", ""))))
    print()
    print("| Seeded change | property | what it changes | detected by |")
    print("|---|---|---|---|")
    for d in sorted(glob.glob(V + "/seeded/*")):
        m = json.load(open(d + "/meta.json"))
        what = (m.get("summary") or m.get("what") or "").replace("|", "/").replace("\n", " ")
        if len(what) > 160:
            what = what[:157] + "..."
        print("| %s | %s | %s | %s |" % (os.path.basename(d), m.get("property"), what, ", ".join(m.get("detected_by") or [])))
    print()
    kf = json.load(open(V + "/known_findings.json"))["findings"]
    print("| Property | status | key (pattern) | what |")
    print("|---|---|---|---|")
    for k in kf:
        print("| %s | %s%s | `%s` | %s |" % (k["property"], k["status"], (" " + k["commit"]) if k.get("commit") else "", k["key"], k["what"].replace("|", "/")))


main()
