#!/usr/bin/env python3
"""tools/seedimport.py <src-dir> <name> [checks...]: confirm a seeded change against the current /repo and keep it under seeded/<name>/."""
import json
import os
import shutil
import subprocess
import sys

src, name = sys.argv[1], sys.argv[2]
checks = sys.argv[3:]
dst = os.path.join("/verif/seeded", name)
os.makedirs(dst, exist_ok=True)
for f in ("patch.diff", "demo.py", "meta.json"):
    shutil.copy(os.path.join(src, f), os.path.join(dst, f))
env = dict(os.environ, SEEDRUN="--tests")
p = subprocess.run([sys.executable, "/verif/tools/seedrun.py", dst] + checks, stdout=subprocess.PIPE, text=True, env=env)
try:
    res = json.loads(p.stdout[p.stdout.index("{"):])
except Exception:
    print(p.stdout)
    shutil.rmtree(dst)
    sys.exit(1)
meta = json.load(open(os.path.join(dst, "meta.json")))
ok = res.get("demo_on_clean") == 0 and res.get("demo_with_change") not in (0, None) and "passed" in res.get("tests", "") and "failed" not in res.get("tests", "")
meta["confirmed"] = {"demo_passes_on_clean_tree": res.get("demo_on_clean") == 0, "demo_fails_with_change": res.get("demo_with_change") not in (0, None),
                     "test_suite_with_change": res.get("tests"), "ran": "tools/seedrun.py (git apply; demo; pytest tests; ./check <ids> --tier quick; git checkout -- .)"}
meta["checks"] = {c: {"rc": res[c]["rc"], "keys": [v.strip() for v in res[c]["violations"] if v.strip().startswith("key=")][:4]} for c in checks or [meta["property"]] if c in res}
meta["detected_by"] = [c for c, v in meta["checks"].items() if v["rc"] == 1]
json.dump(meta, open(os.path.join(dst, "meta.json"), "w"), indent=1)
print(name, "confirmed" if ok else "NOT CONFIRMED", "detected_by", meta["detected_by"], res.get("tests"))
if not ok:
    shutil.rmtree(dst)
