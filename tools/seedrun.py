#!/usr/bin/env python3
"""tools/seedrun.py <seed-dir> [check ids...]  - apply a seeded change to /repo, confirm the demo fails, run checks, revert.

Used while building to measure which checks catch which seeded changes (results recorded in seeded/*/meta.json)."""
import json
import os
import subprocess
import sys
import time

REPO = "/repo"


def sh(cmd, **kw):
    return subprocess.run(cmd, shell=True, stdout=subprocess.PIPE, stderr=subprocess.STDOUT, text=True, **kw)


def main():
    d = os.path.abspath(sys.argv[1])
    checks = sys.argv[2:]
    meta = json.load(open(os.path.join(d, "meta.json")))
    checks = checks or [meta["property"]]
    assert sh("git -C %s status --porcelain" % REPO).stdout.strip() == "", "repo dirty"
    env = "PYTHONPATH=%s/src" % REPO
    base = sh("%s /venv/bin/python %s/demo.py" % (env, d))
    res = {"demo_on_clean": base.returncode}
    a = sh("git -C %s apply %s/patch.diff" % (REPO, d))
    if a.returncode != 0:
        print("PATCH DOES NOT APPLY:", a.stdout[-500:])
        return 3
    try:
        dm = sh("%s /venv/bin/python %s/demo.py" % (env, d))
        res["demo_with_change"] = dm.returncode
        if "--tests" in os.environ.get("SEEDRUN", ""):
            t = sh("cd %s && /venv/bin/python -m pytest -q -p no:cacheprovider --color=no tests 2>&1 | tail -1" % REPO)
            res["tests"] = t.stdout.strip()[-120:]
        for c in checks:
            t0 = time.time()
            r = sh("cd /verif && ./check %s --tier %s" % (c, os.environ.get("SEED_TIER", "quick")))
            viol = [l for l in r.stdout.splitlines() if l.startswith("VIOLATION") or l.startswith("  key=")]
            res[c] = {"rc": r.returncode, "wall": round(time.time() - t0, 1), "violations": viol[:8]}
            if r.returncode == 2:
                res[c]["tail"] = r.stdout[-800:]
    finally:
        sh("git -C %s checkout -- ." % REPO)
        assert sh("git -C %s status --porcelain" % REPO).stdout.strip() == ""
    print(json.dumps(res, indent=1))
    return 0


sys.exit(main())
