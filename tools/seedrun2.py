#!/usr/bin/env python3
"""tools/seedrun2.py <seed-dir> [check ids...] - like seedrun.py but on a private worktree of /repo HEAD (VERIF_REPO), so that
several seeded changes can be measured concurrently and /repo itself is never touched.  Prints one JSON object."""
import json
import os
import subprocess
import sys
import time


def sh(cmd, **kw):
    return subprocess.run(cmd, shell=True, stdout=subprocess.PIPE, stderr=subprocess.STDOUT, text=True, **kw)


def main():
    d = os.path.abspath(sys.argv[1])
    checks = sys.argv[2:]
    meta = json.load(open(os.path.join(d, "meta.json")))
    checks = checks or [meta["property"]]
    wt = "/tmp/seedwt/%s-%d" % (os.path.basename(d), os.getpid())
    os.makedirs("/tmp/seedwt", exist_ok=True)
    ev = wt + "-evidence"
    res = {"seed": d}
    base = sh("PYTHONPATH=/repo/src /venv/bin/python %s/demo.py" % d)
    res["demo_on_clean"] = base.returncode
    a = sh("git -C /repo worktree add --detach %s HEAD" % wt)
    if a.returncode != 0:
        res["error"] = a.stdout[-300:]
        print(json.dumps(res))
        return 3
    try:
        a = sh("git -C %s apply %s/patch.diff" % (wt, d))
        if a.returncode != 0:      # /repo has moved on since the patch was written (fix commits): merge it
            a = sh("git -C %s apply --3way %s/patch.diff" % (wt, d))
            if a.returncode == 0:
                res["rebased"] = True
                sh("git -C %s reset -q" % wt)
                nd = sh("git -C %s diff" % wt)
                if nd.returncode == 0 and nd.stdout.strip() and "<<<<<<<" not in nd.stdout:
                    open(os.path.join(d, "patch.diff"), "w").write(nd.stdout)      # keep the patch that applies to /repo HEAD
        if a.returncode != 0:
            res["error"] = "PATCH DOES NOT APPLY: " + a.stdout[-300:]
            print(json.dumps(res))
            return 3
        dm = sh("PYTHONPATH=%s/src /venv/bin/python %s/demo.py" % (wt, d))
        res["demo_with_change"] = dm.returncode
        if "--tests" in os.environ.get("SEEDRUN", ""):
            t = sh("cd %s && PYTHONPATH=%s/src /venv/bin/python -m pytest -q -p no:cacheprovider --color=no 2>&1 | tail -1" % (wt, wt))
            res["tests"] = t.stdout.strip()[-120:]
        for c in checks:
            t0 = time.time()
            r = sh("cd /verif && VERIF_REPO=%s VERIF_EVIDENCE_DIR=%s timeout 1800 ./check %s --tier %s" % (wt, ev, c, os.environ.get("SEED_TIER", "quick")))
            viol = [l for l in r.stdout.splitlines() if l.startswith("VIOLATION") or l.startswith("  key=")]
            res[c] = {"rc": r.returncode, "wall": round(time.time() - t0, 1), "violations": viol[:8]}
            if r.returncode == 2:
                res[c]["tail"] = r.stdout[-800:]
    finally:
        sh("git -C /repo worktree remove --force %s" % wt)
        sh("rm -rf %s" % ev)
    print(json.dumps(res, indent=1))
    return 0


sys.exit(main())
