#!/usr/bin/env python3
"""tools/seedbatch.py [-j N] <src-dir>=<name>[:check,check...] ...  - confirm seeded changes concurrently (private worktrees, tools/seedrun2.py)
and keep the confirmed ones under seeded/<name>/ with the measured detection in meta.json.  With name already under seeded/ and src == that
directory the stored seed is re-measured in place."""
import concurrent.futures as cf
import json
import os
import shutil
import subprocess
import sys


def one(spec):
    src, rest = spec.split("=", 1)
    name, _, cl = rest.partition(":")
    checks = [c for c in cl.split(",") if c]
    dst = os.path.join("/verif/seeded", name)
    fresh = os.path.abspath(src) != dst
    if fresh:
        os.makedirs(dst, exist_ok=True)
        for f in ("patch.diff", "demo.py", "meta.json"):
            shutil.copy(os.path.join(src, f), os.path.join(dst, f))
    env = dict(os.environ, SEEDRUN="--tests")
    p = subprocess.run([sys.executable, "/verif/tools/seedrun2.py", dst] + checks, stdout=subprocess.PIPE, stderr=subprocess.STDOUT, text=True, env=env)
    try:
        res = json.loads(p.stdout[p.stdout.index("{"):])
    except Exception:
        return name, "MACHINERY", p.stdout[-400:]
    meta = json.load(open(os.path.join(dst, "meta.json")))
    checks = checks or [meta["property"]]
    ok = res.get("demo_on_clean") == 0 and res.get("demo_with_change") not in (0, None) and "passed" in res.get("tests", "") and "failed" not in res.get("tests", "")
    meta["confirmed"] = {"demo_passes_on_clean_tree": res.get("demo_on_clean") == 0, "demo_fails_with_change": res.get("demo_with_change") not in (0, None),
                         "test_suite_with_change": res.get("tests"),
                         "ran": "tools/seedrun2.py (private worktree of /repo HEAD; git apply; demo; pytest tests; VERIF_REPO=<worktree> ./check <ids> --tier quick)"}
    meta["checks"] = {c: {"rc": res[c]["rc"], "keys": [v.strip() for v in res[c]["violations"] if v.strip().startswith("key=")][:4]} for c in checks if c in res}
    meta["detected_by"] = [c for c, v in meta["checks"].items() if v["rc"] == 1]
    broken = [c for c, v in meta["checks"].items() if v["rc"] not in (0, 1)]
    json.dump(meta, open(os.path.join(dst, "meta.json"), "w"), indent=1)
    if not ok and fresh:
        shutil.rmtree(dst)
    return name, ("confirmed" if ok else "NOT CONFIRMED %s" % json.dumps({k: res.get(k) for k in ("demo_on_clean", "demo_with_change", "tests", "error")})), \
        "detected_by=%s%s" % (meta["detected_by"], (" MACHINERY-FAILURE in %s" % broken) if broken else "")


def main():
    args = sys.argv[1:]
    j = 3
    if args and args[0] == "-j":
        j = int(args[1])
        args = args[2:]
    with cf.ThreadPoolExecutor(j) as ex:
        for r in ex.map(one, args):
            print(*r, flush=True)


main()
