#!/venv/bin/python
"""Re-inserts section 9 (tools/design_section9.md + generated tables) into DESIGN.md, replacing an earlier copy."""
import re
import subprocess

V = "/verif"
s = open(V + "/DESIGN.md").read()
sec = open(V + "/tools/design_section9.md").read().rstrip() + "\n\n"
tables = subprocess.run(["/venv/bin/python", V + "/tools/results_table.py"], stdout=subprocess.PIPE, text=True).stdout
parts = tables.split("\n\n")
ev, seeds, kf = parts[0], parts[1], parts[2]
sec += seeds + "\n\n### 9.7 Evidence of the last committed quick runs\n\n" + ev + \
    "\n\n### 9.8 `known_findings.json` in full (known = still present, fixed = repaired in the commit named; fixed entries suppress nothing)\n\n" + kf + "\n"
begin = "<!-- BEGIN SECTION 9 -->\n"
end = "<!-- END SECTION 9 -->\n"
block = begin + sec + "\n" + end
if begin in s:
    s = s[:s.index(begin)] + block + s[s.index(end) + len(end):]
else:
    marker = "## Appendix A — validated specification sketches"
    s = s.replace(marker, block + "\n---------------------------------------------------------------------------\n\n" + marker, 1)
open(V + "/DESIGN.md", "w").write(s)
print("section 9:", len(block.splitlines()), "lines")
