"""pi for responses (C10) + batch judging by spec/GqlResponse.tla."""
import concurrent.futures as cf
import asyncio
import json
import math
import os
import re
import tempfile

from . import par, tlc

_LINES = re.compile(r"\r\n|\n|\r")


def line_lens(text):
    return [len(x) for x in _LINES.split(text)]


def _get(data, path):
    cur = data
    for k in path:
        try:
            cur = cur[k]
        except Exception:
            return "<missing>"
    return cur


def project(text, outcome, call, null_paths=(), ext_expect=None):
    """call() -> GraphQLResult (already awaited).  Returns the case record for the judge."""
    case = {"raised": "", "outcome": outcome, "hasData": False, "dataNull": False, "jsonOk": True, "lineLens": line_lens(text),
            "errors": [], "nullPaths": ["/".join(map(str, p)) for p in null_paths]}
    try:
        res = call()
        resp = res.response()
    except (Exception, asyncio.CancelledError) as e:      # CancelledError is a BaseException: an execution that never finishes
        case["raised"] = type(e).__name__
        return case
    try:
        json.dumps(resp, allow_nan=False)
        res.json(allow_nan=False)
    except Exception:
        case["jsonOk"] = False
    case["hasData"] = "data" in resp
    case["dataNull"] = resp.get("data") is None
    for e in resp.get("errors", []) or []:
        rec = {"msgIsStr": isinstance(e.get("message"), str), "locs": [], "hasPath": "path" in e, "pathOk": True, "path": "",
               "atNull": True, "extOk": True}
        for loc in e.get("locations", []) or []:
            keys = sorted(loc.keys()) if isinstance(loc, dict) else ["<notdict>"]
            ln = loc.get("line") if isinstance(loc, dict) else None
            col = next((loc[k] for k in loc if k != "line"), None) if isinstance(loc, dict) else None
            rec["locs"].append({"keys": keys, "line": ln if isinstance(ln, int) else 0, "column": col if isinstance(col, int) else 0})
        if "path" in e:
            p = e["path"]
            ok = isinstance(p, (list, tuple)) and all(isinstance(k, (str, int)) and not isinstance(k, bool) for k in p)
            rec["pathOk"] = bool(ok)
            rec["path"] = "/".join(map(str, p)) if ok else repr(p)
            if ok and "data" in resp and resp["data"] is not None:
                rec["atNull"] = _get(resp["data"], p) is None
        if ext_expect is not None and "extensions" in e:
            rec["extOk"] = e["extensions"] in ext_expect
        case["errors"].append(rec)
    return case


def judge(chk, cases, label="GqlResponse"):
    """-> list of verdict strings aligned with cases"""
    if not cases:
        return []
    shards = par.chunks(list(enumerate(cases)), min(par.NPROC, max(1, len(cases) // 1500)))
    cfg = tlc.cfg(invariants=["Verdict"])

    def one(part):
        fd, path = tempfile.mkstemp(prefix="rv-", suffix=".json")
        with os.fdopen(fd, "w") as f:
            json.dump([c for _, c in part], f)
        try:
            r = chk.tlc("GqlResponse", cfg, env={"TRACE_FILE": path}, tags=["RV"], workers=1, heap="3g", label="%s [%d cases]" % (label, len(part)))
            if r.rc != 0:
                raise tlc.TLCError("GqlResponse failed: %s\n%s" % (r.violated, r.tail))
            return [(part[v["i"] - 1][0], v["v"]) for v in r.tagged("RV")]
        finally:
            os.unlink(path)
    out = [None] * len(cases)
    with cf.ThreadPoolExecutor(len(shards)) as ex:
        for res in ex.map(one, shards):
            for idx, v in res:
                out[idx] = v
    if any(v is None for v in out):
        from .core import Machinery
        raise Machinery("GqlResponse: %d cases without verdict" % sum(v is None for v in out))
    return out
