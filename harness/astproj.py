"""pi for syntax trees: a harness-owned walker over py_gql.lang.ast nodes (never the library's visitor).

Children are listed in SOURCE order per node class; the walker is total: an attribute of an unexpected
type is reported instead of being skipped."""

CHILDREN = {
    "Document": ["definitions"],
    "OperationDefinition": ["name", "variable_definitions", "directives", "selection_set"],
    "VariableDefinition": ["variable", "type", "default_value", "directives"],
    "Variable": ["name"],
    "SelectionSet": ["selections"],
    "Field": ["alias", "name", "arguments", "directives", "selection_set"],
    "Argument": ["name", "value"],
    "FragmentSpread": ["name", "directives"],
    "InlineFragment": ["type_condition", "directives", "selection_set"],
    "FragmentDefinition": ["name", "variable_definitions", "type_condition", "directives", "selection_set"],
    "ListValue": ["values"],
    "ObjectValue": ["fields"],
    "ObjectField": ["name", "value"],
    "Directive": ["name", "arguments"],
    "NamedType": ["name"],
    "ListType": ["type"],
    "NonNullType": ["type"],
    "SchemaDefinition": ["directives", "operation_types"],
    "SchemaExtension": ["directives", "operation_types"],
    "OperationTypeDefinition": ["type"],
    "ScalarTypeDefinition": ["description", "name", "directives"],
    "ScalarTypeExtension": ["name", "directives"],
    "ObjectTypeDefinition": ["description", "name", "interfaces", "directives", "fields"],
    "ObjectTypeExtension": ["name", "interfaces", "directives", "fields"],
    "FieldDefinition": ["description", "name", "arguments", "type", "directives"],
    "InputValueDefinition": ["description", "name", "type", "default_value", "directives"],
    "InterfaceTypeDefinition": ["description", "name", "directives", "fields"],
    "InterfaceTypeExtension": ["name", "directives", "fields"],
    "UnionTypeDefinition": ["description", "name", "directives", "types"],
    "UnionTypeExtension": ["name", "directives", "types"],
    "EnumTypeDefinition": ["description", "name", "directives", "values"],
    "EnumTypeExtension": ["name", "directives", "values"],
    "EnumValueDefinition": ["description", "name", "directives"],
    "InputObjectTypeDefinition": ["description", "name", "directives", "fields"],
    "InputObjectTypeExtension": ["name", "directives", "fields"],
    "DirectiveDefinition": ["description", "name", "arguments", "locations"],
    "Name": [], "IntValue": [], "FloatValue": [], "StringValue": [], "BooleanValue": [], "NullValue": [],
    "EnumValue": [],
}
SCALARS = {
    "Name": ["value"], "IntValue": ["value"], "FloatValue": ["value"], "EnumValue": ["value"],
    "StringValue": ["value", "block"], "BooleanValue": ["value"],
    "OperationDefinition": ["operation"], "OperationTypeDefinition": ["operation"],
}


def walk(node, events, payloads, bad, seen=None):
    """events: [tag, kind, loc]; payloads: [kind, {attr: value}] in pre-order.
    A tree is a TREE: an object that occurs at two positions (e.g. one interned Name for equal identifiers) makes an in-place
    edit of one position change the other - reported as shared-node."""
    from py_gql.lang import ast as A
    kind = type(node).__name__
    ch = CHILDREN.get(kind)
    if ch is None or not isinstance(node, A.Node):
        bad.append("unknown-node:" + kind)
        return
    if seen is not None:
        if id(node) in seen:
            bad.append("shared-node:" + kind)
            return
        seen.add(id(node))
    events.append(["enter", kind, node.loc])
    sc = SCALARS.get(kind)
    if sc:
        payloads.append([kind, {a: getattr(node, a, "<missing>") for a in sc}])
    for attr in ch:
        v = getattr(node, attr, "<missing>")
        if v is None:
            continue
        if isinstance(v, (list, tuple)):
            for x in v:
                walk(x, events, payloads, bad, seen)
        elif isinstance(v, A.Node):
            walk(v, events, payloads, bad, seen)
        else:
            bad.append("bad-child:%s.%s:%s" % (kind, attr, type(v).__name__))
    events.append(["leave", kind, node.loc])


def project(node):
    ev, pl, bad = [], [], []
    walk(node, ev, pl, bad, set())
    return ev, pl, bad


def expected(skel_ev, tokens, loc=True):
    """Expected events/payloads from the derivation and the rendered tokens."""
    ev = []
    pl = []
    for tag, kind, idx in skel_ev:
        ev.append([tag, kind, idx])
        if tag != "enter":
            continue
        t = tokens[idx - 1]
        if kind == "Name":
            pl.append([kind, {"value": t["text"]}])
        elif kind in ("IntValue", "FloatValue", "EnumValue"):
            pl.append([kind, {"value": t["text"]}])
        elif kind == "StringValue":
            pl.append([kind, {"value": t["value"], "block": t["cls"] == "blockstring"}])
        elif kind == "BooleanValue":
            pl.append([kind, {"value": t["text"] == "true"}])
        elif kind == "OperationDefinition":
            pl.append([kind, {"operation": t["text"] if t["cls"] == "name" else "query"}])
        elif kind == "OperationTypeDefinition":
            pl.append([kind, {"operation": t["text"]}])
    return ev, pl


def events_with_token_index(ev, tokens, textlen=None):
    """Map loc=(start,end) of real nodes to token indices: enter -> index of token starting at start,
    leave -> index of token ending at end; -1 when no token boundary matches.
    Document: the library's token stream starts with SOF(0,0) and ends with EOF(len,len); a Document span of
    (0, len(text)) is therefore accepted as 'first token .. last token' as well (DESIGN Appendix B.17)."""
    starts = {t["s"]: i + 1 for i, t in enumerate(tokens)}
    ends = {t["e"]: i + 1 for i, t in enumerate(tokens)}
    out = []
    for tag, kind, loc in ev:
        if loc is None or not isinstance(loc, tuple) or len(loc) != 2:
            out.append([tag, kind, -2])
        elif kind == "Document" and textlen is not None and tuple(loc) == (0, textlen):
            out.append([tag, kind, 1 if tag == "enter" else len(tokens)])
        elif tag == "enter":
            out.append([tag, kind, starts.get(loc[0], -1)])
        else:
            out.append([tag, kind, ends.get(loc[1], -1)])
    return out


def scribble(node, marker, seen=None):
    """In-place edit of a tree the way the library's own inline visitors do it: append `marker` to EVERY list-valued child
    attribute.  Returns the number of lists written to.  A later parse must not see any of it (trees do not share state)."""
    from py_gql.lang import ast as A
    seen = set() if seen is None else seen
    kind = type(node).__name__
    n = 0
    for attr in CHILDREN.get(kind, ()):
        v = getattr(node, attr, None)
        if isinstance(v, list):
            for x in list(v):
                if isinstance(x, A.Node):
                    n += scribble(x, marker, seen)
            if id(v) not in seen:
                seen.add(id(v))
                v.append(marker)
                n += 1
        elif isinstance(v, A.Node):
            n += scribble(v, marker, seen)
    return n
