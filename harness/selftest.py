"""setup_cmd: verify the tool chain is present and the specs parse (offline, nothing is fetched)."""
import os
import subprocess
import sys

from . import tlc


def main():
    ok = True
    for fn in sorted(os.listdir(tlc.SPEC)):
        if not fn.endswith(".tla"):
            continue
        p = subprocess.run(["java", "-cp", tlc.JAR, "tla2sany.SANY", fn], cwd=tlc.SPEC,
                           stdout=subprocess.PIPE, stderr=subprocess.STDOUT, text=True)
        bad = p.returncode != 0 or "*** Errors" in p.stdout or "Fatal errors" in p.stdout
        print("%-28s %s" % (fn, "PARSE-ERROR" if bad else "ok"))
        if bad:
            print(p.stdout[-2000:])
            ok = False
    from . import core
    core.setup_repo_path()
    print("py_gql from", core.REPO)
    return 0 if ok else 2
