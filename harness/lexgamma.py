"""gamma / pi for the character-class lexer specification (spec/GqlLexer.tla)."""
import random

CLASSES = {
    "L_e": "eE",
    "L_u": "u",
    "L_bf": "bf",
    "L_hex": "acdABCDF",
    "L_nrt": "nrt",
    "L_x": "xX",
    "L_other": "gzGZ_UNqo",
    "D0": "0",
    "D19": "1957",
    "Minus": "-",
    "Plus": "+",
    "Dot": ".",
    "Quote": '"',
    "Bslash": "\\",
    "Slash": "/",
    "Hash": "#",
    "LF": "\n",
    "CR": "\r",
    "Blank": " \t",
    "Ign": ",﻿",
    "Punct": "!$()[]{}:=@|&",
    "Ctrl": "\x00\x01\x0b\x0c\x1f\x08",
    "AsciiBad": "%~'*?<>;^`",
    "UDigit": "٠²１३",
    "UAlnum": "éΩß",
    "ULineSep": "  \u0085",
    "UBlank": " 　 ",
    "UOther": "\U0001F600￿\x7f€",
}
ESC = {'"': '"', "\\": "\\", "/": "/", "b": "\b", "f": "\f", "n": "\n", "r": "\r", "t": "\t"}

INV = {}
for _k, _v in CLASSES.items():
    for _c in _v:
        assert _c not in INV, (_c, _k)
        INV[_c] = _k


def classify(ch):
    """pi: concrete character -> class (total on all code points)."""
    c = INV.get(ch)
    if c is not None:
        return c
    o = ord(ch)
    if o < 0x20:
        return "Ctrl"
    if o < 0x7f:
        if ch.isalpha():
            return "L_other"
        if ch.isdigit():
            return "D19"
        return "AsciiBad"
    if ch.isdigit():
        return "UDigit"
    if ch.isalnum():
        return "UAlnum"
    if ch.isspace():
        return "UBlank"
    return "UOther"


def concretize(classes, rng, first=False):
    """gamma: class string -> text.  `first` selects the first representative of every class."""
    if first:
        return "".join(CLASSES[c][0] for c in classes)
    return "".join(rng.choice(CLASSES[c]) for c in classes)


def item_value(text, it):
    t = it["t"]
    if t == "src":
        return text[it["p"]]
    if t == "q":
        return '"'
    if t == "lf":
        return "\n"
    if t == "esc":
        return ESC[text[it["p"]]]
    if t == "uni":
        return chr(int(text[it["p"]:it["p"] + 4], 16))
    raise ValueError(t)


def expected_tokens(text, toks):
    out = []
    for t in toks:
        kind = t["kind"]
        if kind in ("String", "BlockString"):
            val = "".join(item_value(text, it) for it in t["v"])
        else:
            val = text[t["s"]:t["e"]]
        out.append((kind, t["s"], t["e"], val))
    return out


def lex_real(text):
    """Run the real lexer; return ('ok', tokens) or ('err', exception)."""
    from py_gql.lang.lexer import Lexer
    from py_gql.lang import token as T
    out = []
    try:
        for tok in Lexer(text):
            cls = tok.__class__
            if cls is T.SOF or cls is T.EOF:
                continue
            if cls is T.Name:
                kind = "Name"
            elif cls is T.Integer:
                kind = "Int"
            elif cls is T.Float:
                kind = "Float"
            elif cls is T.String:
                kind = "String"
            elif cls is T.BlockString:
                kind = "BlockString"
            elif cls is T.Ellip:
                kind = "Ellip"
            else:
                kind = "Punct"
            val = tok.value
            if kind in ("Ellip", "Punct"):
                val = text_slice = None
            out.append((kind, tok.start, tok.end, val))
    except Exception as e:  # judged by the caller
        return ("err", e, out)
    return ("ok", None, out)


def check_syntax_error(e, text):
    """The clauses C01 puts on a rejection; returns None or a short reason."""
    from py_gql.exc import GraphQLSyntaxError
    if not isinstance(e, GraphQLSyntaxError):
        return "exc:" + type(e).__name__
    try:
        pos = e.position
        if not (isinstance(pos, int) and 0 <= pos <= len(text)):
            return "position-out-of-range"
    except Exception as e2:
        return "position:" + type(e2).__name__
    try:
        s = str(e)
        if not isinstance(s, str):
            return "str-not-str"
        h = e.highlighted
        d = e.to_dict()
        if not isinstance(d, dict) or not isinstance(d.get("message"), str):
            return "to_dict-shape"
    except Exception as e2:
        return "render:" + type(e2).__name__
    return None
