"""C14, schema directives / generic SchemaVisitor: plans of spec/GqlSchemaDirectives.tla on real Schema objects.

A plan is bound to the code three ways:
  "sdl"      the base value is printed as SDL with @drop / @tag(n:) / @up written at the plan's sites and built with
             build_schema(text, schema_directives=[...]) (no resolvers exist at that moment: expected resolver ids are blank,
             an @up field carries the wrapper of nothing)
  "apply"    build_schema(text) first, resolvers / default resolvers / type resolvers attached through the public registration
             API, then apply_schema_directives(schema, [...])
  "visitor"  the base value built with constructors (opsreplay.realize, both resolver styles) and a SchemaVisitor subclass that
             performs the plan, applied through transform_schema (clone-based: the source is projected afterwards as well)
The result is projected with opsreplay.project and compared with the specification's Apply(plan)."""
from harness import opsreplay

ALL = ("SCHEMA | SCALAR | OBJECT | FIELD_DEFINITION | ARGUMENT_DEFINITION | INTERFACE | UNION | ENUM | ENUM_VALUE | INPUT_OBJECT | "
       "INPUT_FIELD_DEFINITION")


def site_key(st):
    return (st["s"], st["t"], st["f"], st["a"])


def plan_index(plan):
    """site key -> list of effects in plan order"""
    idx = {}
    for an in plan:
        idx.setdefault(site_key(an["site"]), []).append(an["e"])
    return idx


def _ann(idx, key):
    out = []
    for e in idx.get(key, ()):
        if e["d"] == "tag":
            out.append("@tag" if e["n"] == 0 else "@tag(n: %d)" % e["n"])
        else:
            out.append("@" + e["d"])
    return (" " + " ".join(out)) if out else ""


def _t(t):
    if t["k"] == "named":
        return t["n"]
    if t["k"] == "list":
        return "[%s]" % _t(t["of"])
    return _t(t["of"]) + "!"


def _lit(v):
    if v["k"] == "null":
        return "null"
    if v["k"] == "int":
        return v["v"]
    return '"%s"' % v["v"]


def _desc(d, ind=""):
    return ('%s"%s"\n' % (ind, d)) if d else ""


def render_sdl(base, plan, rng=None):
    """The base value as a type-system document with the plan's directives written at their sites.  The order of the
    definitions is shuffled by rng when given (irrelevant to the result)."""
    idx = plan_index(plan)
    defs = ["directive @drop on " + ALL, "directive @tag(n: Int = 1) on " + ALL, "directive @up on FIELD_DEFINITION"]

    def args(tn, fn, lst):
        if not lst:
            return ""
        return "(" + ", ".join("%s: %s%s%s" % (a["w"][0], _t(a["type"]), (" = " + _lit(a["def"])) if a["hasDef"] else "",
                                                _ann(idx, ("arg", tn, fn, a["w"][0]))) for a in lst) + ")"
    for t in base["types"]:
        k, n = t["k"], t["name"]
        head = _desc(t.get("desc", ""))
        ann = _ann(idx, ("type", n, "", ""))
        if k == "scalar":
            defs.append("scalar %s%s" % (n, ann))
        elif k in ("object", "interface"):
            impl = (" implements " + " & ".join(t["ifaces"])) if k == "object" and t["ifaces"] else ""
            body = "".join("%s  %s%s: %s%s%s\n" % (_desc(f["desc"], "  "), f["w"][0], args(n, f["w"][0], f["args"]), _t(f["type"]),
                                                   (' @deprecated(reason: "%s")' % f["dep"]) if f["dep"] else "",
                                                   _ann(idx, ("field", n, f["w"][0], ""))) for f in t["fields"])
            defs.append("%s%s %s%s%s {\n%s}" % (head, "type" if k == "object" else "interface", n, impl, ann, body))
        elif k == "union":
            defs.append("%sunion %s%s = %s" % (head, n, ann, " | ".join(t["members"])))
        elif k == "enum":
            body = "".join("  %s%s%s\n" % (v["name"], (' @deprecated(reason: "%s")' % v["dep"]) if v["dep"] else "",
                                           _ann(idx, ("value", n, v["name"], ""))) for v in t["values"])
            defs.append("%senum %s%s {\n%s}" % (head, n, ann, body))
        elif k == "input":
            body = "".join("  %s: %s%s%s\n" % (a["w"][0], _t(a["type"]), (" = " + _lit(a["def"])) if a["hasDef"] else "",
                                              _ann(idx, ("inputfield", n, a["w"][0], ""))) for a in t["fields"])
            defs.append("%sinput %s%s {\n%s}" % (head, n, ann, body))
    if rng is not None:
        rng.shuffle(defs)
    return "\n\n".join(defs) + "\n"


def wrap(ids, old):
    """resolver wrapper with id up(<old id>)"""
    rid = "up(%s)" % opsreplay.rid(old)

    def fn(root, ctx, info, **kw):
        return old(root, ctx, info, **kw) if old is not None else None
    fn.__name__ = rid
    fn.rid = rid
    fn.inner = old
    return fn


def rebuild(x, text):
    """A NEW element equal to x except for the marker text (description; deprecation reason for enum values)."""
    from py_gql.schema import (Argument, EnumType, EnumValue, Field, InputField, InputObjectType, InterfaceType, ObjectType, ScalarType, UnionType)
    if isinstance(x, Field):
        return Field(x.name, x.type, args=x.arguments, description=text, deprecation_reason=x.deprecation_reason, resolver=x.resolver,
                     subscription_resolver=x.subscription_resolver, node=x.node, python_name=x.python_name)
    if isinstance(x, (Argument, InputField)):
        kw = {"default_value": x.default_value} if x.has_default_value else {}
        return type(x)(x.name, x.type, description=text, node=x.node, python_name=x.python_name, **kw)
    if isinstance(x, EnumValue):
        return EnumValue(x.name, x.value, deprecation_reason=text, description=x.description, node=x.node)
    if isinstance(x, ObjectType):
        return ObjectType(x.name, x.fields, interfaces=x.interfaces, default_resolver=x.default_resolver, description=text, nodes=x.nodes)
    if isinstance(x, InterfaceType):
        return InterfaceType(x.name, x.fields, resolve_type=x.resolve_type, description=text, nodes=x.nodes)
    if isinstance(x, UnionType):
        return UnionType(x.name, x.types, resolve_type=x.resolve_type, description=text, nodes=x.nodes)
    if isinstance(x, EnumType):
        return EnumType(x.name, x.values, description=text, nodes=x.nodes)
    if isinstance(x, InputObjectType):
        return InputObjectType(x.name, x.fields, description=text, nodes=x.nodes)
    if isinstance(x, ScalarType):
        return x
    raise TypeError(x)


def directive_classes(log):
    """SchemaDirective implementations of @drop, @tag and @up (fresh classes per run; `log` receives (directive, args))."""
    from py_gql.sdl import SchemaDirective

    class Drop(SchemaDirective):
        definition = "drop"

        def _none(self, x):
            log.append(("drop", dict(self.args)))
            return None
        on_scalar = on_object = on_field = on_argument = on_interface = on_union = on_enum = on_enum_value = on_input_object = on_input_field = _none

    class Tag(SchemaDirective):
        definition = "tag"

        def _tag(self, x):
            log.append(("tag", dict(self.args)))
            return rebuild(x, "tag%d" % self.args["n"])
        on_scalar = on_object = on_field = on_argument = on_interface = on_union = on_enum = on_enum_value = on_input_object = on_input_field = _tag

    class Up(SchemaDirective):
        definition = "up"

        def on_field(self, x):
            from py_gql.schema import Field
            log.append(("up", dict(self.args)))
            return Field(x.name, x.type, args=x.arguments, description=x.description, deprecation_reason=x.deprecation_reason,
                         resolver=wrap(None, x.resolver), subscription_resolver=x.subscription_resolver, node=x.node, python_name=x.python_name)
    return [Drop, Tag, Up]


def mark_in_place(x, text):
    """The same edit as rebuild(), made ON the element the hook was handed (which is then returned): transform_schema hands the
    hooks the elements of a CLONE, so the source schema must not see it."""
    from py_gql.schema import EnumValue, ScalarType
    if isinstance(x, EnumValue):
        x.deprecation_reason = text
        x.deprecated = True
    elif not isinstance(x, ScalarType):
        x.description = text
    return x


def plan_visitor(plan, in_place=False):
    """The plan as a SchemaVisitor subclass instance (sites matched by names while traversing).  in_place: the "tag" effect edits
    the element it is handed instead of returning a rebuilt one (same expected value)."""
    from py_gql.schema import SchemaVisitor
    idx = plan_index(plan)

    def run(effects, x):
        for e in effects:
            if x is None:
                return None
            if e["d"] == "drop":
                return None
            if e["d"] == "tag":
                x = (mark_in_place if in_place else rebuild)(x, "tag%d" % (e["n"] or 1))
            else:
                from py_gql.schema import Field
                x = Field(x.name, x.type, args=x.arguments, description=x.description, deprecation_reason=x.deprecation_reason,
                          resolver=wrap(None, x.resolver), subscription_resolver=x.subscription_resolver, node=x.node, python_name=x.python_name)
        return x

    class V(SchemaVisitor):
        def __init__(self):
            self.owner = None
            self.field = None

        def _type(self, t, sup):
            t = run(idx.get(("type", t.name, "", ""), ()), t)
            if t is None:
                return None
            self.owner = t.name
            return sup(t)

        def on_scalar(self, t):
            return self._type(t, super().on_scalar)

        def on_object(self, t):
            return self._type(t, super().on_object)

        def on_interface(self, t):
            return self._type(t, super().on_interface)

        def on_union(self, t):
            return self._type(t, super().on_union)

        def on_enum(self, t):
            return self._type(t, super().on_enum)

        def on_input_object(self, t):
            return self._type(t, super().on_input_object)

        def on_field(self, f):
            f = run(idx.get(("field", self.owner, f.name, ""), ()), f)
            if f is None:
                return None
            self.field = f.name
            return super().on_field(f)

        def on_argument(self, a):
            if self.field is None:
                return super().on_argument(a)
            a = run(idx.get(("arg", self.owner, self.field, a.name), ()), a)
            return None if a is None else super().on_argument(a)

        def on_enum_value(self, v):
            v = run(idx.get(("value", self.owner, v.name, ""), ()), v)
            return None if v is None else super().on_enum_value(v)

        def on_input_field(self, f):
            f = run(idx.get(("inputfield", self.owner, f.name, ""), ()), f)
            return None if f is None else super().on_input_field(f)

        def on_directive(self, d):
            self.field = None
            return super().on_directive(d)
    return V()


def attach(schema, base, ids):
    """Resolvers, default resolvers and type resolvers of the base value on an SDL-built schema (public registration API)."""
    if base.get("sdres"):
        schema.default_resolver = ids.get(base["sdres"], "resolver")
    for t in base["types"]:
        obj = schema.types.get(t["name"])
        if obj is None:
            continue
        if t["k"] == "object":
            for f in t["fields"]:
                if f["res"]:
                    schema.register_resolver(t["name"], f["w"][0], ids.get(f["res"], "resolver"))
            if t.get("dres"):
                schema.register_default_resolver(t["name"], ids.get(t["dres"], "resolver"))
        if t.get("rt"):
            obj.resolve_type = ids.get(t["rt"], "rt")


def blank_resolvers(val):
    """Expected value of the "sdl" binding: nothing but the @up wrappers (of nothing) exists at build time."""
    import copy
    v = copy.deepcopy(val)
    v["sdres"] = ""
    for t in v["types"]:
        if t["k"] in ("object", "interface"):
            for f in t["fields"]:
                f["res"] = "up()" if f["res"].startswith("up(") else ""
            if t["k"] == "object":
                t["dres"] = ""
            else:
                t["rt"] = ""
        elif t["k"] == "union":
            t["rt"] = ""
    return v
