"""Abstract documents for the validation judge (spec/GqlValidate.tla): structured random generation, single labelled
injections, metamorphic variants (permutation / renaming), rendering to GraphQL text."""
import copy
import json
import random

SDL = """
type Query { a: Int  b(x: Int, l: [Int]): String  o: Obj  i: I  u: U  os: [Obj]  r(req: Int!): Int  d(nd: Int! = 1, nl: [Int!]): Int  is: [I]  f(in: In, ins: [In!]): Int  j: J  u2: U2  k(j: Any, js: [Any]): Int }
scalar Any
type Mutation { m(x: Int): Int  o: Obj }
type Subscription { s1: Int  s2(x: Int): Int  o: Obj }
input In { x: Int = 3  y: Int!  n: In  l: [Int!] }
type Obj implements I & J { a: Int  o: Obj  s: String  b(x: Int): String  c(p: Int = 1, q: Int = 5): Int }
type Obj2 implements I { a: Int  s: Int!  n: String  c(p: Int = 2): Int }
interface I { a: Int  c(p: Int = 1): Int }
union U = Obj | Obj2
union U2 = Obj2
interface J { s: String }
enum E { A B }
"""
FIELDS = {
    "Query": {"a": ("Int", {}), "b": ("String", {"x": "Int", "l": "[Int]"}), "o": ("Obj", {}), "i": ("I", {}), "u": ("U", {}), "os": ("Obj", {}), "r": ("Int", {"req": "Int!"}), "d": ("Int", {"nd": "Int! = 1", "nl": "[Int!]"}), "is": ("I", {}), "f": ("Int", {"in": "In", "ins": "[In!]"}), "j": ("J", {}), "u2": ("U2", {})},      # (Query.k, the custom scalar field, is only used by its own injection: leaf literals)
    "Mutation": {"m": ("Int", {"x": "Int"}), "o": ("Obj", {})},
    "Subscription": {"s1": ("Int", {}), "s2": ("Int", {"x": "Int"}), "o": ("Obj", {})},
    "Obj": {"a": ("Int", {}), "o": ("Obj", {}), "s": ("String", {}), "b": ("String", {"x": "Int"}), "c": ("Int", {"p": "Int = 1", "q": "Int = 5"})},
    "Obj2": {"a": ("Int", {}), "s": ("Int", {}), "n": ("String", {}), "c": ("Int", {"p": "Int = 2"})},
    "I": {"a": ("Int", {}), "c": ("Int", {"p": "Int = 1"})},
    "U": {},
    "J": {"s": ("String", {})},
    "U2": {},
}
COMPOSITE = {"Query", "Mutation", "Subscription", "Obj", "Obj2", "I", "U", "J", "U2"}
POSSIBLE = {"J": {"Obj"}, "U2": {"Obj2"}, "I": {"Obj", "Obj2"}, "U": {"Obj", "Obj2"}, "Query": {"Query"}, "Mutation": {"Mutation"}, "Subscription": {"Subscription"}, "Obj": {"Obj"}, "Obj2": {"Obj2"}}


def install_any(schema):
    """The custom scalar Any accepts EVERY literal (a JSON-like scalar written in code): leaf values, lists and objects."""
    from py_gql.utilities import untyped_value_from_ast
    any_ = schema.get_type("Any")
    any_._parse_literal = lambda node, variables=None: untyped_value_from_ast(node, variables or None) if not _has_variable(node) else "<with variables>"
    any_._parse = lambda v: v
    any_._serialize = lambda v: v
    return schema


def _has_variable(node):
    from py_gql.lang import ast as A
    if isinstance(node, A.Variable):
        return True
    for attr in ("values", "fields"):
        for x in getattr(node, attr, None) or []:
            if _has_variable(getattr(x, "value", x)):
                return True
    return False


def named(n):
    return {"k": "named", "n": n}


def field(name, alias="", args=None, sel=None, dirs=None):
    return {"k": "field", "alias": alias, "name": name, "args": args or [], "hasSel": sel is not None, "sel": sel or [], "dirs": dirs or []}


def spread(name, dirs=None):
    return {"k": "spread", "name": name, "dirs": dirs or []}


def inline(on, sel, dirs=None):
    return {"k": "inline", "on": on, "sel": sel, "dirs": dirs or []}


def directive(name, value=None, arg="if"):
    return {"name": name, "args": [] if value is None else [{"name": arg, "value": value}]}


def boolv(b):
    return {"k": "bool", "v": "true" if b else "false"}


def gen_dirs(rng, bvars):
    """Mostly valid @skip / @include; rarely a construct some rule must reject."""
    r = rng.random()
    if r > 0.16:
        return []
    name = rng.choice(["skip", "include"])
    r2 = rng.random()
    if bvars and r2 < 0.4:
        v = {"k": "var", "n": rng.choice(bvars)}
    elif r2 < 0.9:
        v = boolv(rng.random() < 0.5)
    elif r2 < 0.93:
        v = {"k": "int", "v": "1"}
    elif r2 < 0.96:
        return [directive(name)]
    elif r2 < 0.98:
        return [directive("nope", boolv(True))]
    else:
        return [directive(name, boolv(True)), directive(name, boolv(False))]
    return [directive(name, v)]


def gen_value(rng, vars_):
    r = rng.random()
    if vars_ and r < 0.35:
        return {"k": "var", "n": rng.choice(vars_)}
    if r < 0.7:
        return {"k": "int", "v": str(rng.choice([1, 2]))}
    if r < 0.85:
        return {"k": "list", "vs": [gen_value(rng, vars_) for _ in range(rng.randint(0, 2))]}
    return {"k": "null"}


def gen_obj(rng, vars_, depth=1):
    """Mostly valid literal of  input In { x: Int = 3  y: Int!  n: In  l: [Int!] }."""
    fs = []
    r = rng.random()
    if r > 0.08:
        fs.append({"key": "y", "val": {"k": "var", "n": rng.choice(vars_)} if vars_ and rng.random() < 0.3 else {"k": "int", "v": "1"}})
    if rng.random() < 0.4:
        fs.append({"key": "x", "val": gen_value(rng, vars_)})
    if rng.random() < 0.2 and depth > 0:
        fs.append({"key": "n", "val": gen_obj(rng, vars_, depth - 1)})
    if rng.random() < 0.2:
        fs.append({"key": "l", "val": {"k": "list", "vs": [rng.choice([{"k": "int", "v": "1"}, {"k": "null"}] + ([{"k": "var", "n": rng.choice(vars_)}] if vars_ else []))]}})
    if rng.random() < 0.04:
        fs.append({"key": "zz", "val": {"k": "int", "v": "1"}})
    if rng.random() < 0.04 and fs:
        fs.append(copy.deepcopy(fs[0]))
    rng.shuffle(fs)
    return {"k": "obj", "fs": fs}


def gen_arg_value(rng, atype, vars_):
    if atype.startswith("In"):
        return gen_obj(rng, vars_) if rng.random() < 0.85 else gen_value(rng, vars_)
    if atype.startswith("[In"):
        return {"k": "list", "vs": [gen_obj(rng, vars_) for _ in range(rng.randint(0, 2))]} if rng.random() < 0.7 else gen_obj(rng, vars_)
    return gen_value(rng, vars_)


def gen_sel(rng, pt, depth, frags, vars_, budget, bvars=()):
    """Mostly type-correct selection list for parent type pt."""
    out = []
    bvars = list(bvars)
    n = rng.randint(1, 3)
    for _ in range(n):
        if budget[0] <= 0:
            break
        budget[0] -= 1
        r = rng.random()
        opts = list(FIELDS.get(pt, {}).items())
        if r < 0.12 and frags:
            out.append(spread(rng.choice(frags), gen_dirs(rng, bvars)))
            if rng.random() < 0.15:  # the same fragment spread twice in one selection list
                out.append(spread(out[-1]["name"], gen_dirs(rng, bvars)))
        elif r < 0.27 and depth > 0:
            cond = rng.choice(["", "Obj", "Obj2", "I", "U", "J", "U2", pt])
            out.append(inline(cond, gen_sel(rng, cond or pt, depth - 1, frags, vars_, budget, bvars), gen_dirs(rng, bvars)))
        elif r < 0.33:
            out.append(field("__typename", alias=rng.choice(["", "t"])))
        elif opts:
            fname, (ftype, fargs) = rng.choice(opts)
            alias = rng.choice(["", "", "", "k", "a", "x"])
            args = []
            for an in fargs:
                if rng.random() < 0.6 or fargs[an].endswith("!"):  # (an argument with a default does not end with "!")
                    args.append({"name": an, "value": gen_arg_value(rng, fargs[an], vars_)})
            if ftype in COMPOSITE:
                sub = gen_sel(rng, ftype, depth - 1, frags, vars_, budget, bvars) if depth > 0 else [field("__typename")]
                out.append(field(fname, alias, args, sub or [field("__typename")], gen_dirs(rng, bvars)))
                # the same composite field selected again (merged sub-selections, conflicts between non-adjacent selections)
                while depth > 0 and rng.random() < 0.3 and budget[0] > 0:
                    budget[0] -= 1
                    out.append(field(fname, alias, copy.deepcopy(args), gen_sel(rng, ftype, 0, frags, vars_, budget, bvars)))
            else:
                out.append(field(fname, alias, args, None, gen_dirs(rng, bvars)))
                if len(args) > 1 and rng.random() < 0.4:  # the same field again, arguments written in another order
                    out.append(field(fname, alias, copy.deepcopy(args[::-1])))
        else:
            out.append(field("__typename"))
    return out or [field("__typename")]


NONE = {"k": "none"}
BOOLT = [named("Boolean"), {"k": "nn", "of": named("Boolean")}, {"k": "nn", "of": named("Boolean")}]
VTYPES = [named("In")] + [named("Int")] * 6 + [{"k": "nn", "of": named("Int")}, {"k": "list", "of": named("Int")}, {"k": "list", "of": {"k": "nn", "of": named("Int")}}, named("String")]


def vardef(name, type_=None, default=None):
    return {"name": name, "type": type_ or named("Int"), "def": default or NONE}


def gen_vardef(rng, name):
    t = rng.choice(VTYPES)
    r = rng.random()
    d = NONE
    if r < 0.15:
        d = {"k": "int", "v": "1"}
    elif r < 0.2:
        d = {"k": "null"}
    return vardef(name, t, d)


def strip_root_dirs(sel):
    for x in sel:
        x["dirs"] = []
        if x["k"] == "inline":
            strip_root_dirs(x["sel"])


def gen_bvardef(rng, name):
    t = rng.choice(BOOLT)
    # Boolean variables are always supplied as true / defaulted to true (spec/GqlValidate.tla Truth)
    d = boolv(True) if (t["k"] != "nn" and rng.random() < 0.7) else NONE
    return vardef(name, t, d)


def gen_doc(rng):
    nfrag = rng.choice([0, 0, 1, 2, 3])
    fnames = ["F%d" % i for i in range(1, nfrag + 1)]
    nvar = rng.choice([0, 0, 1, 2])
    vars_ = ["v%d" % i for i in range(1, nvar + 1)]
    bvars = ["bv"] if rng.random() < 0.3 else []
    budget = [rng.randint(3, 10)]
    defs = []
    nops = rng.choice([1, 1, 1, 2])
    for i in range(nops):
        name = "" if (nops == 1 and rng.random() < 0.5) else "Op%d" % (i + 1)
        kind = rng.choice(["query"] * 8 + ["mutation", "subscription"])
        root = {"query": "Query", "mutation": "Mutation", "subscription": "Subscription"}[kind]
        sel = gen_sel(rng, root, 2, fnames, vars_, budget, bvars)
        if kind == "subscription":
            if rng.random() < 0.7:
                sel = sel[:1]
            # whether @skip / @include count when the root fields of a subscription are counted is contested between specification
            # versions (DESIGN Appendix B.22): root-level selections of subscriptions carry no directives
            strip_root_dirs(sel)
        defs.append({"k": "op", "name": name, "op": kind, "vars": [gen_vardef(rng, v) for v in vars_] + [gen_bvardef(rng, v) for v in bvars], "on": "", "sel": sel})
    for fn in fnames:
        on = rng.choice(["Obj", "Obj2", "I", "U", "J", "U2", "Query", "Query", "Subscription"])
        defs.append({"k": "frag", "name": fn, "op": "", "vars": [], "on": on, "sel": gen_sel(rng, on, 1, [x for x in fnames if x != fn] if rng.random() < 0.8 else fnames, vars_, budget, bvars)})
    if any(d["k"] == "op" and d["op"] == "subscription" for d in defs):
        for d in defs:
            if d["k"] == "frag" and d["on"] == "Subscription":
                strip_root_dirs(d["sel"])
    rng.shuffle(defs)
    return {"defs": defs}


# ---- labelled single injections --------------------------------------------------------------------------------------
def all_fields(doc):
    out = []

    def walk(sel):
        for s in sel:
            if s["k"] == "field":
                out.append(s)
                walk(s["sel"])
            elif s["k"] == "inline":
                walk(s["sel"])
    for d in doc["defs"]:
        walk(d["sel"])
    return out


INJECTIONS = ["unknown-field", "leaf-with-selection", "composite-without-selection", "undefined-variable", "unused-variable", "fragment-cycle",
              "alias-conflict", "argument-conflict", "impossible-spread", "unknown-fragment", "unused-fragment", "unknown-argument",
              "duplicate-argument", "missing-required-argument", "duplicate-operation-name", "second-anonymous-operation", "unknown-type-condition",
              "scalar-type-condition", "duplicate-variable", "non-input-variable", "duplicate-fragment", "dup-field-list-arg", "dup-field-object-arg", "dup-field-list-prefix-arg", "dup-field-nested-list-prefix-arg",
              "dup-field-null-arg", "dup-field-variable-arg", "nested-fragment-conflict", "variable-two-positions",
              "deep-chain-valid", "deep-chain-undefined", "deep-chain-unused", "deep-chain-bad-position", "nullable-var-nonnull-position",
              "nullable-var-location-default", "var-default-nonnull-position", "null-for-nonnull", "list-for-int", "int-for-list",
              "var-in-list-item", "spread-in-list-field", "unused-fragment-chain", "bad-variable-default",
              "null-in-nonnull-list", "nullable-var-in-nonnull-list", "nonnull-var-in-nonnull-list", "nested-list-for-list",
              "nonadjacent-subfield-conflict", "nonadjacent-exclusive-conflict", "nonadjacent-compatible", "mixed-list-per-type-defaults",
              "skip-true-field", "include-false-spread", "skip-variable", "unknown-directive", "duplicate-directive", "directive-unknown-argument",
              "directive-missing-if", "directive-int-if", "directive-undefined-variable", "directive-int-variable",
              "repeated-spread-undefined-variable", "repeated-spread-missing-if", "repeated-spread-int-if", "repeated-inline-unknown-field",
              "dup-field-args-reordered", "dup-field-args-reordered-conflict",
              "input-object-valid", "duplicate-input-key", "unknown-input-field", "missing-required-input-field", "input-field-wrong-type",
              "nullable-var-required-input-field", "nullable-var-defaulted-input-field", "nested-duplicate-input-key", "input-var-default-object",
              "subscription-two-fields", "subscription-fragment-two-fields", "subscription-same-key-twice", "subscription-inline-one-field", "mutation-valid", "cycle-behind-shared-fragment", "shared-fragment-no-cycle", "cycle-below-acyclic-fragment", "cycle-below-acyclic-fragment-defined-last",
              "cross-fragment-conflict-11", "cross-fragment-conflict-12", "cross-fragment-conflict-21", "cross-fragment-conflict-22", "cross-fragment-compatible",
              "two-operations-shared-fragment-variable-types",
              "abstract-no-overlap", "abstract-partial-overlap", "abstract-in-abstract-no-overlap",
              "type-definition-in-document", "type-extension-in-document",
              "skipped-spread-then-spread", "skipped-variable-spread-then-spread", "cyclic-subscription-fragments", "self-spreading-subscription-fragment",
              "two-subscriptions-shared-fragment", "two-subscriptions-shared-fragment-second-invalid",
              # selections inside inline fragments WITHOUT a type condition (with and without a directive) are checked against the
              # enclosing type like any other
              "typeless-inline-valid", "typeless-inline-unknown-field", "typeless-inline-directive-leaf-with-selection", "typeless-inline-composite-without-selection",
              "typeless-inline-nested-unknown-argument",
              # the same key twice with an object-valued field written between the two
              "duplicate-input-key-behind-object", "duplicate-input-key-behind-list",
              # operations and fragments have separate name spaces
              "fragment-named-like-operation", "fragment-named-like-operation-unused-variable",
              # literals of a custom scalar: whatever its coercion accepts (here: any leaf literal, bare names included)
              "custom-scalar-leaf-literals",
              # ... and, as the scalar accepts them, list and object literals; what is written INSIDE such a literal is still seen by
              # the other rules (variables are used / must be defined, input-object keys stay unique where they are input objects)
              "custom-scalar-structured-literals", "custom-scalar-object-literal-undefined-variable"]


def normalise(doc):
    """Every selection node carries `dirs`."""
    def walk(sel):
        for s in sel:
            s.setdefault("dirs", [])
            if s["k"] != "spread":
                walk(s["sel"])
    for d in doc["defs"]:
        walk(d["sel"])
    return doc


def inject(doc, label, rng):
    return normalise(_inject(doc, label, rng))


def _inject(doc, label, rng):
    doc = copy.deepcopy(doc)
    ops = [d for d in doc["defs"] if d["k"] == "op"]
    frs = [d for d in doc["defs"] if d["k"] == "frag"]
    fl = all_fields(doc)
    op = ops[0]
    if label == "unknown-field":
        rng.choice(fl)["name"] = "nope"
    elif label == "leaf-with-selection":
        op["sel"].append(field("a", "", [], [field("__typename")]))
    elif label == "composite-without-selection":
        op["sel"].append(field("o", "zz"))
    elif label == "undefined-variable":
        op["sel"].append(field("b", "uv", [{"name": "x", "value": {"k": "var", "n": "undef"}}]))
    elif label == "unused-variable":
        op["vars"].append(vardef("unused", named("Int")))
    elif label == "fragment-cycle":
        doc["defs"].append({"k": "frag", "name": "Cy1", "op": "", "vars": [], "on": "Obj", "sel": [field("a"), {"k": "spread", "name": "Cy2"}]})
        doc["defs"].append({"k": "frag", "name": "Cy2", "op": "", "vars": [], "on": "Obj", "sel": [{"k": "spread", "name": "Cy1"}]})
        op["sel"].append(field("o", "cy", [], [{"k": "spread", "name": "Cy1"}]))
    elif label == "alias-conflict":
        op["sel"] += [field("a", "cf"), field("b", "cf")]
    elif label == "argument-conflict":
        op["sel"] += [field("b", "ac", [{"name": "x", "value": {"k": "int", "v": "1"}}]), field("b", "ac", [{"name": "x", "value": {"k": "int", "v": "2"}}])]
    elif label == "impossible-spread":
        op["sel"].append(field("o", "is", [], [{"k": "inline", "on": "Obj2", "sel": [field("n")]}]))
    elif label == "unknown-fragment":
        op["sel"].append({"k": "spread", "name": "Missing"})
    elif label == "unused-fragment":
        doc["defs"].append({"k": "frag", "name": "Unused", "op": "", "vars": [], "on": "Obj", "sel": [field("a")]})
    elif label == "unknown-argument":
        op["sel"].append(field("b", "ua", [{"name": "zzz", "value": {"k": "int", "v": "1"}}]))
    elif label == "duplicate-argument":
        op["sel"].append(field("b", "da", [{"name": "x", "value": {"k": "int", "v": "1"}}, {"name": "x", "value": {"k": "int", "v": "1"}}]))
    elif label == "missing-required-argument":
        op["sel"].append(field("r", "mr"))
    elif label == "duplicate-operation-name":
        nm = op["name"] or "Dup"
        op["name"] = nm
        doc["defs"].append({"k": "op", "name": nm, "op": "query", "vars": [], "on": "", "sel": [field("a")]})
    elif label == "second-anonymous-operation":
        doc["defs"].append({"k": "op", "name": "", "op": "query", "vars": [], "on": "", "sel": [field("a")]})
    elif label == "unknown-type-condition":
        op["sel"].append({"k": "inline", "on": "Nope", "sel": [field("a")]})
    elif label == "scalar-type-condition":
        op["sel"].append({"k": "inline", "on": "Int", "sel": [field("a")]})
    elif label == "duplicate-variable":
        op["vars"] += [vardef("dv", named("Int")), vardef("dv", named("Int"))]
        op["sel"].append(field("b", "dvu", [{"name": "x", "value": {"k": "var", "n": "dv"}}]))
    elif label == "non-input-variable":
        op["vars"].append(vardef("ni", named("Obj")))
        op["sel"].append(field("b", "niu", [{"name": "x", "value": {"k": "var", "n": "ni"}}]))
    elif label == "duplicate-fragment":
        doc["defs"] += [{"k": "frag", "name": "DupF", "op": "", "vars": [], "on": "Obj", "sel": [field("a")]} for _ in range(2)]
        op["sel"].append(field("o", "df", [], [{"k": "spread", "name": "DupF"}]))
    elif label.startswith("dup-field-args-reordered"):
        one, two = {"k": "int", "v": "1"}, {"k": "list", "vs": [{"k": "int", "v": "2"}]}
        other = {"k": "int", "v": "3" if label.endswith("conflict") else "1"}
        op["sel"] += [field("b", "dar", [{"name": "x", "value": one}, {"name": "l", "value": two}]), field("b", "dar", [{"name": "l", "value": copy.deepcopy(two)}, {"name": "x", "value": other}])]
    elif label in ("dup-field-list-prefix-arg", "dup-field-nested-list-prefix-arg"):
        # two selections of one response key whose arguments differ ONLY in the length of a list literal (one is a prefix of the other)
        i1, i2, i3 = ({"k": "int", "v": str(n)} for n in (1, 2, 3))
        if label == "dup-field-list-prefix-arg":
            a, b = {"k": "list", "vs": [i1, i2]}, {"k": "list", "vs": [i1, i2, i3]}
            op["sel"] += [field("b", "", [{"name": "l", "value": a}]), field("b", "", [{"name": "l", "value": b}])]
        else:
            def inobj(lst):
                return {"k": "obj", "fs": [{"key": "y", "val": copy.deepcopy(i1)}, {"key": "l", "val": {"k": "list", "vs": lst}}]}
            op["sel"] += [field("f", "", [{"name": "in", "value": inobj([])}]), field("f", "", [{"name": "in", "value": inobj([copy.deepcopy(i1)])}])]
    elif label.startswith("dup-field-"):
        v = {"dup-field-list-arg": {"k": "list", "vs": [{"k": "int", "v": "1"}]}, "dup-field-object-arg": {"k": "obj", "fs": [{"key": "q", "val": {"k": "int", "v": "1"}}]},
             "dup-field-null-arg": {"k": "null"}, "dup-field-variable-arg": {"k": "var", "n": "dfv"}}[label]
        if label == "dup-field-variable-arg":
            op["vars"].append(vardef("dfv", named("Int")))
        an = "l" if label in ("dup-field-list-arg",) else "x"
        op["sel"] += [field("b", "", [{"name": an, "value": v}]), field("b", "", [{"name": an, "value": copy.deepcopy(v)}])]
    elif label == "nested-fragment-conflict":
        doc["defs"].append({"k": "frag", "name": "Left", "op": "", "vars": [], "on": "Obj", "sel": [{"k": "spread", "name": "LeftIn"}]})
        doc["defs"].append({"k": "frag", "name": "LeftIn", "op": "", "vars": [], "on": "Obj", "sel": [field("a", "nf")]})
        doc["defs"].append({"k": "frag", "name": "Right", "op": "", "vars": [], "on": "Obj", "sel": [{"k": "spread", "name": "RightIn"}]})
        doc["defs"].append({"k": "frag", "name": "RightIn", "op": "", "vars": [], "on": "Obj", "sel": [field("s", "nf")]})
        op["sel"].append(field("o", "nfc", [], [{"k": "spread", "name": "Left"}, {"k": "spread", "name": "Right"}]))
    elif label == "variable-two-positions":
        op["vars"].append(vardef("tp", named("Int")))
        op["sel"] += [field("b", "tp1", [{"name": "x", "value": {"k": "var", "n": "tp"}}]), field("b", "tp2", [{"name": "l", "value": {"k": "var", "n": "tp"}}])]
    elif label.startswith("deep-chain-"):
        # a variable used only three fragment levels deep; inner fragments are defined first
        pos = "l" if label == "deep-chain-bad-position" else "x"
        doc["defs"].insert(0, {"k": "frag", "name": "Dc3", "op": "", "vars": [], "on": "Query", "sel": [field("b", "dcu", [{"name": pos, "value": {"k": "var", "n": "dc"}}])]})
        doc["defs"].insert(1, {"k": "frag", "name": "Dc2", "op": "", "vars": [], "on": "Query", "sel": [{"k": "spread", "name": "Dc3"}]})
        doc["defs"].insert(2, {"k": "frag", "name": "Dc1", "op": "", "vars": [], "on": "Query", "sel": [field("a", "dca"), {"k": "spread", "name": "Dc2"}]})
        if label != "deep-chain-undefined":
            op["vars"].append(vardef("dc"))
        if label != "deep-chain-unused":
            op["sel"].append({"k": "spread", "name": "Dc1"})
        else:
            op["sel"].append({"k": "spread", "name": "Dc3"})
            for d in doc["defs"][:3]:
                if d["name"] == "Dc3":
                    d["sel"] = [field("a", "dcq")]
            doc["defs"][1]["sel"].append(field("b", "dcu", [{"name": "x", "value": {"k": "var", "n": "dc"}}]))
    elif label == "nullable-var-nonnull-position":
        op["vars"].append(vardef("nn"))
        op["sel"].append(field("r", "nnp", [{"name": "req", "value": {"k": "var", "n": "nn"}}]))
    elif label == "nullable-var-location-default":
        op["vars"].append(vardef("nld"))
        op["sel"].append(field("d", "nldp", [{"name": "nd", "value": {"k": "var", "n": "nld"}}]))
    elif label == "var-default-nonnull-position":
        op["vars"].append(vardef("vdn", named("Int"), {"k": "int", "v": "1"}))
        op["sel"].append(field("r", "vdnp", [{"name": "req", "value": {"k": "var", "n": "vdn"}}]))
    elif label == "null-for-nonnull":
        op["sel"].append(field("r", "nfn", [{"name": "req", "value": {"k": "null"}}]))
    elif label == "list-for-int":
        op["sel"].append(field("b", "lfi", [{"name": "x", "value": {"k": "list", "vs": [{"k": "int", "v": "1"}]}}]))
    elif label == "int-for-list":
        op["sel"].append(field("b", "ifl", [{"name": "l", "value": {"k": "int", "v": "1"}}]))
    elif label == "var-in-list-item":
        op["vars"].append(vardef("vli", {"k": "list", "of": named("Int")}))
        op["sel"].append(field("b", "vlip", [{"name": "l", "value": {"k": "list", "vs": [{"k": "int", "v": "1"}, {"k": "var", "n": "vli"}]}}]))
    elif label == "spread-in-list-field":
        doc["defs"].append({"k": "frag", "name": "Slf", "op": "", "vars": [], "on": "Obj2", "sel": [field("n")]})
        op["sel"].append(field("os", "slf", [], [{"k": "spread", "name": "Slf"}]))
    elif label == "unused-fragment-chain":
        doc["defs"].append({"k": "frag", "name": "Ufa", "op": "", "vars": [], "on": "Obj", "sel": [{"k": "spread", "name": "Ufb"}]})
        doc["defs"].append({"k": "frag", "name": "Ufb", "op": "", "vars": [], "on": "Obj", "sel": [field("a")]})
    elif label == "null-in-nonnull-list":
        op["sel"].append(field("d", "nnl", [{"name": "nl", "value": {"k": "list", "vs": [{"k": "int", "v": "1"}, {"k": "null"}]}}]))
    elif label in ("nullable-var-in-nonnull-list", "nonnull-var-in-nonnull-list"):
        op["vars"].append(vardef("vnl", named("Int") if label.startswith("nullable") else {"k": "nn", "of": named("Int")}))
        op["sel"].append(field("d", "vnlp", [{"name": "nl", "value": {"k": "list", "vs": [{"k": "var", "n": "vnl"}]}}]))
    elif label == "nested-list-for-list":
        op["sel"].append(field("b", "nll", [{"name": "l", "value": {"k": "list", "vs": [{"k": "list", "vs": [{"k": "int", "v": "1"}]}]}}]))
    elif label == "nonadjacent-subfield-conflict":
        op["sel"] += [field("o", "nsc", [], [field("a", "x")]), field("o", "nsc", [], [field("s")]), field("o", "nsc", [], [field("s", "x")])]
    elif label == "nonadjacent-exclusive-conflict":
        op["sel"].append(field("i", "nec", [], [inline("Obj", [field("a", "x")]), inline("Obj2", [field("a", "x")]), inline("Obj", [field("s", "x")])]))
    elif label == "nonadjacent-compatible":
        op["sel"].append(field("i", "ncp", [], [inline("Obj", [field("s", "x")]), inline("Obj2", [field("n", "x")]), inline("Obj", [field("s", "x")])]))
    elif label == "mixed-list-per-type-defaults":
        op["sel"].append(field("is", "mlp", [], [field("c"), field("a"), inline("Obj", [field("c", "c2", [{"name": "q", "value": {"k": "int", "v": "2"}}])])]))
    elif label == "skip-true-field":
        op["sel"] += [field("a", "stf", dirs=[directive("skip", boolv(True))]), field("o", "sto", [], [field("a")], dirs=[directive("include", boolv(False))])]
    elif label == "include-false-spread":
        doc["defs"].append({"k": "frag", "name": "Ifs", "op": "", "vars": [], "on": "Query", "sel": [field("a", "ifa")]})
        op["sel"] += [spread("Ifs", [directive("include", boolv(False))]), field("a", "ifb")]
    elif label == "skip-variable":
        op["vars"].append(vardef("sv", {"k": "nn", "of": named("Boolean")}))
        op["sel"] += [field("a", "svf", dirs=[directive("skip", {"k": "var", "n": "sv"})]), field("a", "svg")]
    elif label == "unknown-directive":
        op["sel"].append(field("a", "ud", dirs=[directive("nope", boolv(True))]))
    elif label == "duplicate-directive":
        op["sel"].append(field("a", "dd", dirs=[directive("include", boolv(True)), directive("include", boolv(True))]))
    elif label == "directive-unknown-argument":
        op["sel"].append(field("a", "dua", dirs=[{"name": "include", "args": [{"name": "if", "value": boolv(True)}, {"name": "unless", "value": boolv(True)}]}]))
    elif label == "directive-missing-if":
        op["sel"].append(field("a", "dmi", dirs=[directive("include")]))
    elif label == "directive-int-if":
        op["sel"].append(field("a", "dii", dirs=[directive("include", {"k": "int", "v": "1"})]))
    elif label == "directive-undefined-variable":
        op["sel"].append(field("a", "duv", dirs=[directive("include", {"k": "var", "n": "nodef"})]))
    elif label == "directive-int-variable":
        op["vars"].append(vardef("div"))
        op["sel"].append(field("a", "dv", dirs=[directive("include", {"k": "var", "n": "div"})]))
    elif label.startswith("repeated-spread-"):
        # the same fragment spread twice inside a fragment, the second spread carries the broken directive
        bad = {"repeated-spread-undefined-variable": directive("include", {"k": "var", "n": "rsu"}), "repeated-spread-missing-if": directive("skip"),
               "repeated-spread-int-if": directive("include", {"k": "int", "v": "1"})}[label]
        doc["defs"].append({"k": "frag", "name": "RsIn", "op": "", "vars": [], "on": "Obj", "sel": [field("s", "rss")]})
        doc["defs"].append({"k": "frag", "name": "RsOut", "op": "", "vars": [], "on": "Obj", "sel": [spread("RsIn"), field("a", "rsa"), spread("RsIn", [bad])]})
        op["sel"].append(field("o", "rs", [], [spread("RsOut")]))
    elif label in ("input-object-valid", "duplicate-input-key", "unknown-input-field", "missing-required-input-field", "input-field-wrong-type",
                   "nullable-var-required-input-field", "nullable-var-defaulted-input-field", "nested-duplicate-input-key"):
        one = {"k": "int", "v": "1"}
        fs = {"input-object-valid": [("y", one), ("x", {"k": "null"}), ("l", {"k": "list", "vs": [one]}), ("n", {"k": "obj", "fs": [{"key": "y", "val": one}]})],
              "duplicate-input-key": [("y", one), ("x", one), ("x", one)],
              "unknown-input-field": [("y", one), ("zz", one)],
              "missing-required-input-field": [("x", one)],
              "input-field-wrong-type": [("y", {"k": "list", "vs": [one]})],
              "nullable-var-required-input-field": [("y", {"k": "var", "n": "iv"})],
              "nullable-var-defaulted-input-field": [("y", one), ("x", {"k": "var", "n": "iv"})],
              "nested-duplicate-input-key": [("y", one), ("n", {"k": "obj", "fs": [{"key": "y", "val": one}, {"key": "y", "val": one}]})]}[label]
        if "var" in label:
            op["vars"].append(vardef("iv"))
        op["sel"].append(field("f", "iof", [{"name": "in", "value": {"k": "obj", "fs": [{"key": k, "val": v} for k, v in fs]}}]))
    elif label.startswith("typeless-inline-"):
        incl = [directive("include", boolv(True))]
        sel = {"typeless-inline-valid": [field("o", "tiv", [], [inline("", [field("a")]), inline("", [field("s")], incl)]), inline("", [field("a", "tia")], incl)],
               "typeless-inline-unknown-field": [field("o", "tiu", [], [inline("", [field("nope")])])],
               "typeless-inline-directive-leaf-with-selection": [inline("", [field("a", "til", [], [field("__typename")])], incl)],
               "typeless-inline-composite-without-selection": [field("o", "tic", [], [inline("", [inline("", [field("o", "deep")])])])],
               "typeless-inline-nested-unknown-argument": [field("o", "tin", [], [inline("", [field("b", "", [{"name": "zzz", "value": {"k": "int", "v": "1"}}])], incl)])]}[label]
        op["sel"] += sel
    elif label in ("duplicate-input-key-behind-object", "duplicate-input-key-behind-list"):
        one = {"k": "int", "v": "1"}
        mid = ("n", {"k": "obj", "fs": [{"key": "y", "val": one}]}) if label.endswith("object") else ("l", {"k": "list", "vs": [one]})
        fs = [("y", one), mid, ("y", {"k": "int", "v": "2"})]
        op["sel"].append(field("f", "dkb", [{"name": "in", "value": {"k": "obj", "fs": [{"key": k, "val": v} for k, v in fs]}}]))
    elif label.startswith("fragment-named-like-operation"):
        if not op["name"]:
            op["name"] = "Main"
        op["vars"].append(vardef("fv"))
        other = "Foo" if op["name"] != "Foo" else "Foo2"
        # a fragment called like the SECOND operation; only the first operation spreads it; it reaches a fragment using $fv
        doc["defs"].append({"k": "frag", "name": other, "op": "", "vars": [], "on": "Obj", "sel": [spread("FnloInner")]})
        doc["defs"].append({"k": "frag", "name": "FnloInner", "op": "", "vars": [], "on": "Obj", "sel": [field("b", "fnlo", [{"name": "x", "value": {"k": "var", "n": "fv"}}])]})
        op["sel"].append(field("o", "fnl", [], [spread(other)]))
        second_vars = [vardef("unusedhere")] if label.endswith("unused-variable") else []
        doc["defs"].append({"k": "op", "name": other, "op": "query", "vars": second_vars, "on": "", "sel": [field("a")]})
    elif label == "custom-scalar-leaf-literals":
        op["vars"].append(vardef("anyv", named("Any"), {"k": "enum", "v": "INFO"}))
        op["sel"] += [field("k", "cs1", [{"name": "j", "value": {"k": "enum", "v": "INFO"}}]), field("k", "cs2", [{"name": "j", "value": {"k": "int", "v": "1"}}]),
                      field("k", "cs3", [{"name": "js", "value": {"k": "list", "vs": [{"k": "enum", "v": "WARN"}, {"k": "bool", "v": "true"}, {"k": "null"}]}}]),
                      field("k", "cs4", [{"name": "j", "value": {"k": "var", "n": "anyv"}}])]
    elif label == "custom-scalar-structured-literals":
        op["vars"].append(vardef("csv"))
        op["sel"] += [field("k", "cs5", [{"name": "j", "value": {"k": "obj", "fs": [{"key": "a", "val": {"k": "var", "n": "csv"}},
                                                                                       {"key": "b", "val": {"k": "list", "vs": [{"k": "int", "v": "1"}]}}]}}]),
                      field("k", "cs6", [{"name": "j", "value": {"k": "list", "vs": [{"k": "int", "v": "1"}, {"k": "int", "v": "2"}]}}])]
    elif label == "custom-scalar-object-literal-undefined-variable":
        op["sel"].append(field("k", "cs7", [{"name": "j", "value": {"k": "obj", "fs": [{"key": "a", "val": {"k": "var", "n": "csundef"}}]}}]))
    elif label == "input-var-default-object":
        op["vars"].append(vardef("ivd", named("In"), {"k": "obj", "fs": [{"key": "y", "val": {"k": "int", "v": "1"}}]}))
        op["sel"].append(field("f", "ivdf", [{"name": "in", "value": {"k": "var", "n": "ivd"}}]))
    elif label.startswith("subscription-") or label == "mutation-valid":
        sel = {"subscription-two-fields": [field("s1"), field("s2")],
               "subscription-fragment-two-fields": [spread("SubF")],
               "subscription-same-key-twice": [field("s1"), field("s1")],
               "subscription-inline-one-field": [inline("Subscription", [field("s1", "only")])],
               "mutation-valid": [field("m", "", [{"name": "x", "value": {"k": "int", "v": "1"}}]), field("o", "", [], [field("a")])]}[label]
        if label == "subscription-fragment-two-fields":
            doc["defs"].append({"k": "frag", "name": "SubF", "op": "", "vars": [], "on": "Subscription", "sel": [field("s1"), field("s2")]})
        doc["defs"].append({"k": "op", "name": "Extra", "op": "mutation" if label == "mutation-valid" else "subscription", "vars": [], "on": "", "sel": sel})
        if not op["name"]:
            op["name"] = "Main"
    elif label in ("cycle-behind-shared-fragment", "shared-fragment-no-cycle"):
        def fr(n, sel):
            return {"k": "frag", "name": n, "op": "", "vars": [], "on": "Obj", "sel": sel}
        doc["defs"] += [fr("CsA", [spread("CsB"), spread("CsC"), spread("CsD")]), fr("CsB", [spread("CsC")]), fr("CsC", [field("a")]),
                        fr("CsD", [field("o", "", [], [spread("CsA")])] if label.startswith("cycle") else [field("s")])]
        op["sel"].append(field("o", "cs", [], [spread("CsA")]))
    elif label.startswith("cycle-below-acyclic-fragment"):
        # the operation only reaches the cycle CyB <-> CyC through CyA, which is NOT on it (defined before / after the cycle members)
        def fr(n, sel):
            return {"k": "frag", "name": n, "op": "", "vars": [], "on": "Obj", "sel": sel}
        fa = fr("CyA", [field("a"), spread("CyB")])
        cyc = [fr("CyB", [field("o", "", [], [spread("CyC")])]), fr("CyC", [field("o", "", [], [spread("CyB")])])]
        doc["defs"] += (cyc + [fa]) if label.endswith("last") else ([fa] + cyc)
        op["sel"].append(field("o", "cy", [], [spread("CyA")]))
    elif label.startswith("cross-fragment-"):
        # o { ...Xf1 ...Xf2 }  o { ...Xg1 ...Xg2 }: the only conflict lies between fragment i of the first and fragment j of the second field
        i, j = (int(label[-2]), int(label[-1])) if label[-1].isdigit() else (0, 0)
        def fr(n, sel):
            return {"k": "frag", "name": n, "op": "", "vars": [], "on": "Obj", "sel": sel}
        doc["defs"] += [fr("Xf1", [field("a", "xk" if i == 1 else "xf1")]), fr("Xf2", [field("a", "xk" if i == 2 else "xf2")]),
                        fr("Xg1", [field("s", "xk" if j == 1 else "xg1")]), fr("Xg2", [field("s", "xk" if j == 2 else "xg2")])]
        op["sel"] += [field("o", "xo", [], [spread("Xf1"), spread("Xf2")]), field("o", "xo", [], [spread("Xg1"), spread("Xg2")])]
    elif label == "two-operations-shared-fragment-variable-types":
        # the same fragment reached from two operations that declare the variable with different types: compatible for the first only
        doc["defs"].append({"k": "frag", "name": "Tsv", "op": "", "vars": [], "on": "Query", "sel": [field("b", "tsv", [{"name": "x", "value": {"k": "var", "n": "tv"}}])]})
        if not op["name"]:
            op["name"] = "Main"
        op["vars"].append(vardef("tv"))
        op["sel"].append(spread("Tsv"))
        doc["defs"].append({"k": "op", "name": "Second", "op": "query", "vars": [vardef("tv", {"k": "list", "of": named("Int")})], "on": "", "sel": [spread("Tsv")]})
    elif label == "abstract-no-overlap":
        op["sel"].append(field("j", "ano", [], [inline("U2", [field("__typename")])]))          # J ~ {Obj}, U2 ~ {Obj2}: never
    elif label == "abstract-partial-overlap":
        op["sel"] += [field("j", "apo", [], [inline("I", [field("a")]), inline("U", [field("__typename")])]),
                      field("u2", "apu", [], [inline("I", [field("a")]), inline("Obj2", [field("n")])])]
    elif label == "abstract-in-abstract-no-overlap":
        doc["defs"].append({"k": "frag", "name": "OnJ", "op": "", "vars": [], "on": "J", "sel": [field("s")]})
        op["sel"].append(field("u2", "aia", [], [spread("OnJ")]))
    elif label in ("skipped-spread-then-spread", "skipped-variable-spread-then-spread"):
        # the same fragment spread twice: the first spread is switched off, the second one is not
        doc["defs"].append({"k": "frag", "name": "Sts", "op": "", "vars": [], "on": "Query", "sel": [field("a", "sts1"), field("o", "sts2", [], [field("s")])]})
        if label.startswith("skipped-variable"):
            op["vars"].append(vardef("stsv", {"k": "nn", "of": named("Boolean")}))
            d = directive("skip", {"k": "var", "n": "stsv"})
        else:
            d = directive("include", boolv(False))
        if op["op"] == "query":
            op["sel"] += [spread("Sts", [d]), field("a", "stsmid"), spread("Sts")]
    elif label in ("cyclic-subscription-fragments", "self-spreading-subscription-fragment"):
        if label.startswith("cyclic"):
            doc["defs"].append({"k": "frag", "name": "ScA", "op": "", "vars": [], "on": "Subscription", "sel": [field("s1"), spread("ScB")]})
            doc["defs"].append({"k": "frag", "name": "ScB", "op": "", "vars": [], "on": "Subscription", "sel": [spread("ScA")]})
        else:
            doc["defs"].append({"k": "frag", "name": "ScA", "op": "", "vars": [], "on": "Subscription", "sel": [field("s1"), spread("ScA")]})
        doc["defs"].append({"k": "op", "name": "SubCyc", "op": "subscription", "vars": [], "on": "", "sel": [inline("Subscription", [spread("ScA")])]})
        if not op["name"]:
            op["name"] = "Main"
    elif label in ("type-definition-in-document", "type-extension-in-document"):
        doc["defs"].append({"k": "typedef", "name": "Extra", "op": "", "vars": [], "on": "", "sel": [], "text": "type Extra { a: Int }" if label.startswith("type-def") else "extend type Obj { extra: Int }"})
    elif label.startswith("two-subscriptions-shared-fragment"):
        # per-operation bookkeeping must not leak: both subscriptions reach the same fragment
        doc["defs"].append({"k": "frag", "name": "SubShared", "op": "", "vars": [], "on": "Subscription", "sel": [field("s1", "shared")]})
        doc["defs"].append({"k": "op", "name": "SubOne", "op": "subscription", "vars": [], "on": "", "sel": [spread("SubShared")]})
        second = [spread("SubShared")] + ([field("s2")] if label.endswith("second-invalid") else [])
        doc["defs"].append({"k": "op", "name": "SubTwo", "op": "subscription", "vars": [], "on": "", "sel": second})
        if not op["name"]:
            op["name"] = "Main"
    elif label == "repeated-inline-unknown-field":
        op["sel"].append(field("o", "riu", [], [inline("Obj", [field("a")]), inline("Obj", [field("nope")])]))
    elif label == "bad-variable-default":
        op["vars"].append(vardef("bvd", {"k": "nn", "of": named("Int")}, {"k": "null"}))
        op["sel"].append(field("b", "bvdp", [{"name": "x", "value": {"k": "var", "n": "bvd"}}]))
    return doc


# ---- metamorphic variants ----------------------------------------------------------------------------------------------
def permute(doc, rng):
    doc = copy.deepcopy(doc)
    rng.shuffle(doc["defs"])

    def walk(sel):
        # selections carrying the same response key keep their relative order (merging is order-sensitive only for the witness, not the verdict,
        # but we stay within "reordering that cannot affect validity" by construction: any permutation qualifies)
        rng.shuffle(sel)
        for s in sel:
            if s["k"] == "field":
                rng.shuffle(s["args"])
            if s["k"] in ("field", "inline"):
                walk(s["sel"])
    for d in doc["defs"]:
        walk(d["sel"])
    return doc


def rename(doc):
    """Consistent renaming of fragments and variables (aliases that cannot collide are left: aliases are part of response keys)."""
    doc = copy.deepcopy(doc)
    fmap, vmap = {}, {}

    def fn(n):
        return fmap.setdefault(n, "Rn%d" % (len(fmap) + 1))

    def vn(n):
        return vmap.setdefault(n, "rv%d" % (len(vmap) + 1))

    def val(v):
        if v["k"] == "var":
            v["n"] = vn(v["n"])
        elif v["k"] == "list":
            for x in v["vs"]:
                val(x)
        elif v["k"] == "obj":
            for f in v["fs"]:
                val(f["val"])

    def walk(sel):
        for s in sel:
            for d in s["dirs"]:
                for a in d["args"]:
                    val(a["value"])
            if s["k"] == "spread":
                s["name"] = fn(s["name"])
            elif s["k"] == "field":
                for a in s["args"]:
                    val(a["value"])
                walk(s["sel"])
            else:
                walk(s["sel"])
    for d in doc["defs"]:
        if d["k"] == "frag":
            d["name"] = fn(d["name"])
        for v in d["vars"]:
            v["name"] = vn(v["name"])
        walk(d["sel"])
    return doc


LAYOUT = [" ", "  ", "\n", "\t", ",", " , ", "\r\n", "\r", " # comment\n", "#c\twith a tab, and {braces}\n", "# cr ends a comment\r", " #crlf too\r\n", "\ufeff", "\n\n  ", ",,"]


def respell(text, rng):
    """Re-spells insignificant whitespace, commas and comments: every single space of the canonical rendering separates two tokens."""
    out = []
    for ch in text:
        if ch in " \n":
            out.append(rng.choice(LAYOUT))
        elif ch == ",":
            out.append(rng.choice(["", ",", " "]))
        else:
            out.append(ch)
    return "".join(out)


# ---- rendering -----------------------------------------------------------------------------------------------------------
def tsdl(t):
    if t["k"] == "named":
        return t["n"]
    return ("[%s]" if t["k"] == "list" else "%s!") % tsdl(t["of"])


def rval(v):
    k = v["k"]
    if k == "var":
        return "$" + v["n"]
    if k in ("int", "bool"):
        return v["v"]
    if k == "null":
        return "null"
    if k == "enum":
        return v["v"]
    if k == "list":
        return "[%s]" % ", ".join(rval(x) for x in v["vs"])
    if k == "obj":
        return "{%s}" % ", ".join("%s: %s" % (f["key"], rval(f["val"])) for f in v["fs"])
    return json.dumps(v.get("v"))


def rdirs(dirs):
    out = ""
    for d in dirs:
        out += " @" + d["name"]
        if d["args"]:
            out += "(%s)" % ", ".join("%s: %s" % (a["name"], rval(a["value"])) for a in d["args"])
    return out


def rsel(sel):
    out = []
    for s in sel:
        if s["k"] == "spread":
            out.append("..." + s["name"] + rdirs(s["dirs"]))
        elif s["k"] == "inline":
            out.append("...%s%s { %s }" % ((" on " + s["on"]) if s["on"] else "", rdirs(s["dirs"]), rsel(s["sel"])))
        else:
            t = ("%s: " % s["alias"] if s["alias"] else "") + s["name"]
            if s["args"]:
                t += "(%s)" % ", ".join("%s: %s" % (a["name"], rval(a["value"])) for a in s["args"])
            t += rdirs(s["dirs"])
            if s["hasSel"]:
                t += " { %s }" % rsel(s["sel"])
            out.append(t)
    return " ".join(out)


def render(doc):
    parts = []
    for d in doc["defs"]:
        if d["k"] == "typedef":
            parts.append(d["text"])
        elif d["k"] == "op":
            vs = ("(%s)" % ", ".join("$%s: %s%s" % (v["name"], tsdl(v["type"]), "" if v["def"]["k"] == "none" else " = " + rval(v["def"])) for v in d["vars"])) if d["vars"] else ""
            head = ("%s %s%s " % (d["op"], d["name"], vs)) if (d["name"] or vs or d["op"] != "query") else ""
            parts.append("%s{ %s }" % (head, rsel(d["sel"])))
        else:
            parts.append("fragment %s on %s { %s }" % (d["name"], d["on"], rsel(d["sel"])))
    return "\n".join(parts)
