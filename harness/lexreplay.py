"""R2 replay of spec/GqlLexer.tla behaviours into py_gql.lang.lexer.Lexer (shared by C01, C02, C10)."""
import random

from . import corpus, lexgamma, par, tlc

ALL_CLASSES = sorted(lexgamma.CLASSES)
NONASCII = {"UDigit", "UAlnum", "ULineSep", "UBlank", "UOther"}


def generate(chk, maxlen, prefix=(), alphabet=None, label=None):
    alphabet = alphabet or ALL_CLASSES
    cfg = tlc.cfg(constants={"MaxLen": maxlen, "Prefix": list(prefix), "Alphabet": set(alphabet)},
                  invariants=["Out", "Sane", "ItemsInside", "BlockIdem"])
    r = chk.tlc("GqlLexer", cfg, tags=["LEX"], coverage=True,
                label=label or "GqlLexer L<=%d prefix=%s |alphabet|=%d" % (maxlen, list(prefix), len(alphabet)))
    if r.rc != 0:
        raise tlc.TLCError("GqlLexer design invariant violated: %s\n%s" % (r.violated, r.tail))
    tlc.require_coverage(r, ["Step", "Eof"])
    return r.tagged("LEX")


def _special(classes):
    return ",".join(sorted(set(classes) & NONASCII)) or "-"


def judge(beh, text, as_bytes=False):
    """Compare the real lexer on `text` with the behaviour; yields (prop, key, what)."""
    inp = beh["inp"]
    status, exc, toks = lexgamma.lex_real(text.encode("utf8") if as_bytes else text)
    last = "EOF" if beh["how"] == "eof" else inp[-1]
    tag = "bytes/" if as_bytes else ""
    if beh["err"]:
        # does the failure come from the last class (Step) or from end of input?
        if status == "ok":
            if beh["c"]:
                return
            yield ("C01", "lex/%simpl-accepts/mode=%s/last=%s" % (tag, beh["mode"], last),
                   "lexer accepts a text the lexical grammar rejects")
            return
        why = lexgamma.check_syntax_error(exc, text)
        if why:
            yield ("C01", "lex/%serror-clause/%s/mode=%s/last=%s" % (tag, why, beh["mode"], last),
                   "syntax error violates a C01 clause: " + why)
        return
    exp = lexgamma.expected_tokens(text, beh["toks"])
    if status == "err":
        why = lexgamma.check_syntax_error(exc, text)
        pos = getattr(exc, "position", None)
        cls = "?"
        tk = "-"
        if isinstance(pos, int) and 0 <= pos < len(inp):
            cls = inp[pos]
            for t in beh["toks"]:
                if t["s"] <= pos < t["e"]:
                    tk = t["kind"]
        elif isinstance(pos, int) and pos >= len(inp):
            cls = "EOF"
        yield ("C01", "lex/%simpl-rejects/%s/tok=%s/class=%s" % (tag, type(exc).__name__ if why else "syntax", tk, cls),
               "lexer rejects a lexically valid text")
        return
    # both accept: tokens
    if len(exp) != len(toks) or any(a[0] != b[0] for a, b in zip(exp, toks)):
        i = 0
        while i < min(len(exp), len(toks)) and exp[i][0] == toks[i][0]:
            i += 1
        a = exp[i][0] if i < len(exp) else "none"
        b = toks[i][0] if i < len(toks) else "none"
        s, e = (exp[i][1], exp[i][2]) if i < len(exp) else (len(inp), len(inp))
        yield ("C01", "lex/%stoken-kind/spec=%s/impl=%s/has=%s" % (tag, a, b, _special(inp[s:e + 1])),
               "token sequence differs from the lexical grammar")
        return
    for a, b in zip(exp, toks):
        if (a[1], a[2]) != (b[1], b[2]):
            yield ("C02", "lex/%sspan/%s" % (tag, a[0]), "token span differs")
            return
        if a[0] in ("Name", "Int", "Float", "String", "BlockString") and a[3] != b[3]:
            yield ("C02", "lex/%svalue/%s/has=%s" % (tag, a[0], _special(inp[a[1]:a[2]])),
                   "decoded token value differs from the specification")
            return


# A text the lexical grammar rejects AT a character stays rejected whatever follows (the lexer is deterministic, left to right):
# every continuation of such a text must be rejected too.  The pool holds continuations that would "repair" a sloppy implementation
# (closing quotes after white space, digits of other scripts, line ends).
CONTINUATIONS = ('"', ' "', ' x"', 'a"', '1"', '0 "', '\n"', '\t1"', '\u0661"', '"""', ' """', ' x', '}', '\n', ' 1 }')


def judge_continuations(beh, text):
    if not beh["err"] or beh["how"] != "step" or beh["c"]:
        return
    for suf in CONTINUATIONS:
        status, exc, toks = lexgamma.lex_real(text + suf)
        if status == "ok":
            yield ("C01", "lex/impl-accepts-continuation/mode=%s/last=%s/then=%s" % (beh["mode"], beh["inp"][-1], _special([lexgamma.classify(suf[0])]) + lexgamma.classify(suf[0])),
                   "lexer accepts a continuation of a text the lexical grammar rejects at a character", text + suf)
            return
        why = lexgamma.check_syntax_error(exc, text + suf)
        if why:
            yield ("C01", "lex/error-clause/%s/mode=%s/continuation" % (why, beh["mode"]), "syntax error violates a C01 clause: " + why, text + suf)
            return


def _worker(args):
    behs, reps, seed = args
    rng = random.Random(seed)
    out = {}
    n = 0
    portbad = None
    for beh in behs:
        for r in range(reps):
            text = lexgamma.concretize(beh["inp"], rng, first=(r == 0))
            n += 1
            for prop, key, what in judge(beh, text):
                out.setdefault((prop, key), [what, {"classes": beh["inp"], "text": text, "spec": beh}])
            if r == 0:
                for prop, key, what, full in judge_continuations(beh, text):
                    n += 1
                    out.setdefault((prop, key), [what, {"classes": beh["inp"], "text": full, "spec": beh}])
                n += 1
                for prop, key, what in judge(beh, text, as_bytes=True):
                    if (prop, key.replace("lex/bytes/", "lex/")) in out:
                        continue  # same divergence as for str input
                    out.setdefault((prop, key), [what, {"classes": beh["inp"], "text": text, "spec": beh, "bytes": True}])
            # self-test of the harness port of BlockStringValue against TLC's operator
            if not beh["err"]:
                for t, (kind, s, e, val) in zip(beh["toks"], lexgamma.expected_tokens(text, beh["toks"])):
                    if kind == "BlockString" and corpus.block_value(text[s + 3:e - 3]) != val:
                        portbad = [text, val]
    return out, n, portbad


def replay(chk, behs, reps, seed):
    parts = par.chunks(behs, par.NPROC * 2)
    res = par.pmap(_worker_list, [(p, reps, seed + i) for i, p in enumerate(parts)])
    n = 0
    div = {}
    for out, k, portbad in res:
        n += k
        if portbad:
            from .core import Machinery
            raise Machinery("harness block_value port disagrees with GqlLexer!BlockStringValue: %r" % (portbad,))
        for key, v in out.items():
            div.setdefault(key, v)
    return n, div


def _worker_list(items):
    # pmap hands a list of argument tuples; each tuple is one shard
    outs = [_worker(a) for a in items]
    merged = {}
    n = 0
    pb = None
    for out, k, portbad in outs:
        n += k
        pb = pb or portbad
        for key, v in out.items():
            merged.setdefault(key, v)
    return merged, n, pb
