"""C17 replay: spec/GqlSubscribe.tla behaviours on the real `subscribe` with a private event loop, a gated async-iterator
source and gated field resolvers; the observable state is compared after EVERY action."""
import asyncio
import logging
import warnings

from .schedreplay import Crash

logging.getLogger("asyncio").setLevel(logging.CRITICAL)
warnings.simplefilter("ignore", RuntimeWarning)

SDL = """
type Query { q: Int }
interface I { a: Int  b: Int!  x(arg: Int = 0): Int }
type T1 implements I { a: Int  b: Int!  x(arg: Int = 1): Int }
type T2 implements I { a: Int  b: Int!  x(arg: Int = 2): Int }
type Subscription { ev: I  other: Int  nores: Int  q: Int }
"""
# gamma for the refusal of non-subscription operations: ONE object type is both the query root and the subscription root
SDL_SHARED_ROOT = SDL.replace("type Query { q: Int }", "schema { query: Subscription  subscription: Subscription }")
QUERIES = {
    "ok-sync": "subscription { ev { a b x } }",
    "ok-async": "subscription { ev { a b x } }",
    "multi-root": "subscription { ev { a b x } other }",
    "multi-root-fragment": "subscription { ...Roots }  fragment Roots on Subscription { ev { a } other }",
    "no-sub-resolver": "subscription { nores }",
    "not-subscription": "query { q }",
    "no-stream-runtime": "subscription { ev { a b x } }",
}


class Source:
    """Async-iterator source: item k is returned once gate k has been released; counts __anext__ calls."""

    def __init__(self, loop, events):
        self.loop = loop
        self.events = events
        self.calls = 0
        self.gates = {}
        self.next = 0

    def gate(self, k):
        if k not in self.gates:
            self.gates[k] = self.loop.create_future()
        return self.gates[k]

    def __aiter__(self):
        return self

    async def __anext__(self):
        self.calls += 1
        self.next += 1
        k = self.next
        try:
            await asyncio.shield(self.gate(k))      # (the gate itself survives a cancelled reader)
        except asyncio.CancelledError:
            self.next -= 1          # a cancelled read consumes nothing: the next read waits for the same item
            raise
        if k > len(self.events):
            raise StopAsyncIteration()
        return {"k": k, "e": self.events[k - 1]}


def run(beh, variant=0):
    """-> list of (key, detail) divergences"""
    from py_gql import build_schema
    from py_gql.exc import ExecutionError, ResolverError
    from py_gql.execution import subscribe
    from py_gql.execution.runtime import AsyncIORuntime, BlockingRuntime
    from py_gql.lang import parse
    setup = beh["setup"]
    qname = setup
    if setup == "multi-root" and variant % 2 == 1:
        qname = "multi-root-fragment"
    # gamma: the root field under an alias - a fresh name, or the NAME OF A SIBLING subscription field (whose own subscription
    # resolver must then not be consulted): the response key changes, nothing else
    rkey = "ev"
    if setup in ("ok-sync", "ok-async") and variant % 3 != 0:
        rkey = "other" if variant % 3 == 1 else "al"
    loop = asyncio.new_event_loop()
    try:
        shared_root = setup == "not-subscription" and variant % 2 == 1
        schema = build_schema(SDL_SHARED_ROOT if shared_root else SDL)
        src = Source(loop, beh["evs"])
        # gamma: the single root field written twice with different sub-selections (directly / through a fragment): they merge
        split = setup in ("ok-sync", "ok-async") and variant % 4 == 3
        # gamma: the consumer gives up a pull that found nothing (keep-alive time-out of a websocket server) and pulls again
        repull = setup in ("ok-sync", "ok-async") and variant % 5 == 4
        cancelled_pulls = 0
        fgates = {}
        sub_calls = []

        def settle():
            for _ in range(200):
                loop.run_until_complete(asyncio.sleep(0))
                if not loop._ready:
                    break

        def sub_sync(root, ctx, info, **kw):
            sub_calls.append("sync")
            return src

        async def sub_async(root, ctx, info, **kw):
            sub_calls.append("async")
            return src
        sub = schema.get_type("Subscription")
        sub.field_map["ev"].subscription_resolver = sub_async if setup == "ok-async" else sub_sync
        def sub_other(root, ctx, info, **kw):
            sub_calls.append("other")
            return src
        sub.field_map["other"].subscription_resolver = sub_other
        sub.field_map["ev"].resolver = lambda root, ctx, info: root
        schema.get_type("I").resolve_type = lambda v, ctx, info: v["e"]["ty"]

        def fgate(k, f):
            if (k, f) not in fgates:
                fgates[(k, f)] = loop.create_future()
            return fgates[(k, f)]

        # gamma: every failure of the subscription - whatever event, whatever field - raises ONE exception object (a module level
        # constant of the application); b then fails with it instead of returning null for its non-null type (same field error)
        shared_err = ResolverError("shared failure") if (setup in ("ok-sync", "ok-async") and variant % 2 == 0) else None
        held = []

        async def res_a(root, ctx, info):
            await fgate(root["k"], "a")
            o = root["e"]["a"]
            if o == "val":
                return 10 + root["k"]
            if o == "null":
                return None
            if o == "err":
                raise shared_err or ResolverError("a failed for event %d" % root["k"])
            raise Crash("crash in event %d" % root["k"])

        async def res_b(root, ctx, info):
            await fgate(root["k"], "b")
            if root["e"]["b"] != "val" and shared_err is not None:
                raise shared_err
            return 20 + root["k"] if root["e"]["b"] == "val" else None

        def res_x(root, ctx, info, arg):
            return arg
        for t in ("T1", "T2"):
            ty = schema.get_type(t)
            ty.field_map["a"].resolver = res_a
            ty.field_map["b"].resolver = res_b
            ty.field_map["x"].resolver = res_x
        rt = BlockingRuntime() if setup == "no-stream-runtime" else AsyncIORuntime(loop=loop, execute_blocking_functions_in_thread=False)
        text = QUERIES[qname]
        if shared_root:
            # on the shared root type the query selects the very field that HAS a subscription resolver: what refuses it is the
            # operation's keyword (also when it is left out)
            text = "query { ev { a b x } }" if variant % 4 == 1 else "{ ev { a b x } }"
        if split:
            text = ("subscription { ev { a } ev { b x } }" if variant % 8 == 3 else "subscription { ev { a } ...R }  fragment R on Subscription { ev { b x } }")
        if rkey != "ev":
            text = text.replace("{ ev {", "{ %s: ev {" % rkey).replace("} ev {", "} %s: ev {" % rkey)
        # gamma: the argument of x comes from a VARIABLE - given a value that coercion changes (a list position wraps it is not
        # available here: an Int given as 7), or not given at all so that the declared default of the variable counts.  Every event
        # is executed with the coerced variables of the subscription.
        var_mode = (variant % 7) if setup in ("ok-sync", "ok-async") and " x " in text + " " and "x }" in text else 0
        sub_kw = {}
        x_expected = None
        if var_mode in (5, 6):
            text = text.replace("subscription {", "subscription ($n: Int = 7) {", 1).replace(" x }", " x(arg: $n) }")
            if var_mode == 6:
                sub_kw["variables"] = {"n": 9}
            x_expected = 9 if var_mode == 6 else 7
        if setup == "no-sub-resolver" and variant % 2 == 1:
            # gamma: the root value happens to hold a stream under the field's name; a field without subscription resolver is refused all the same
            sub_kw["initial_value"] = {"nores": src}
        doc = parse(text)
        stream = None
        tasks = {}
        div = []
        npull = 0
        for step in beh["log"]:
            act, k, f = step["a"], step["k"], step["f"]
            if act in ("subscribed", "refused"):
                try:
                    aw = subscribe(schema, doc, runtime=rt, **sub_kw)
                    if asyncio.iscoroutine(aw) or isinstance(aw, asyncio.Future):
                        t = loop.create_task(aw) if asyncio.iscoroutine(aw) else aw
                        settle()
                        if not t.done():
                            return [("sub/subscribe-pending/%s" % setup, "")]
                        stream = t.result()
                    else:
                        stream = aw
                    want = ["other", "other"] if setup == "multi-root" else [] if setup not in ("ok-sync", "ok-async", "multi-root") else ["async" if setup == "ok-async" else "sync"]
                    if act == "subscribed" and sub_calls != want:
                        div.append(("sub/wrong-subscription-resolver/%s" % ("alias" if rkey != "ev" else "plain"), {"called": list(sub_calls), "expected": want, "query": text, "root_key": rkey}))
                    if act == "refused":
                        # a lazily refusing implementation must at least not consume: probe one pull
                        return [("sub/not-refused/%s" % qname, {"source_calls": src.calls})]
                except (ExecutionError, RuntimeError) as e:
                    if act == "subscribed":
                        return [("sub/refused-valid/%s/%s" % (setup, type(e).__name__), repr(e))]
                    documented = {"multi-root": ExecutionError, "no-sub-resolver": RuntimeError, "not-subscription": RuntimeError,
                                  "no-stream-runtime": RuntimeError}[setup]
                    if not isinstance(e, documented) or isinstance(e, Crash):
                        div.append(("sub/refusal-exception/%s/%s" % (setup, type(e).__name__), repr(e)))
                    if src.calls:
                        div.append(("sub/consumed-before-refusal/%s" % setup, src.calls))
                    return div
                except Exception as e:
                    return [("sub/subscribe-raises/%s/%s" % (setup, type(e).__name__), repr(e))]
            elif act == "produce":
                g = src.gate(k if k else len(beh["evs"]) + 1)
                if not g.done():
                    g.set_result(None)
                settle()
            elif act == "pull":
                npull += 1
                tasks[npull] = loop.create_task(type(stream).__anext__(stream))
                settle()
                if repull and not tasks[npull].done() and not src.gate(src.next).done() and not any(kk >= npull for (kk, _f) in fgates):
                    # the pull is waiting for the SOURCE (nothing has been produced for it yet)
                    tasks[npull].cancel()
                    settle()
                    cancelled_pulls += 1
                    tasks[npull] = loop.create_task(type(stream).__anext__(stream))
                    settle()
                if src.calls != npull + cancelled_pulls:
                    return div + [("sub/source-calls-after-pull%s" % ("/after-cancelled-pull" if cancelled_pulls else ""), {"expected": npull + cancelled_pulls, "got": src.calls})]
            elif act == "deliver":
                settle()
                pend = sorted(ff for (kk, ff), g in fgates.items() if kk == k and not g.done())
                if pend != ["a", "b"]:
                    return div + [("sub/pending-fields-after-deliver", {"event": k, "got": pend})]
            elif act == "field":
                g = fgate(k, f)
                if g.done():
                    return div + [("sub/field-gate-already-released", {"event": k, "field": f})]
                g.set_result(None)
                settle()
            elif act in ("yield", "raise"):
                t = tasks.get(k)
                if t is None or not t.done():
                    return div + [("sub/result-not-ready/%s" % act, {"event": k})]
                exp = beh["results"][k - 1]
                if act == "raise":
                    if t.exception() is None:
                        div.append(("sub/crash-lost", {"event": k, "result": repr(t.result())}))
                    elif not isinstance(t.exception(), Crash):
                        div.append(("sub/crash-replaced/%s" % type(t.exception()).__name__, repr(t.exception())))
                    continue
                if t.exception() is not None:
                    return div + [("sub/pull-raises/%s" % type(t.exception()).__name__, {"event": k, "error": repr(t.exception())})]
                res = t.result()
                held.append((k, res, _errdump(res)))
                d = exp["data"]
                xdata = {rkey: {"a": (10 + k) if d["a"] == "val" else None, "b": (20 + k) if d["b"] == "val" else None, "x": d["x"] if x_expected is None else x_expected}}
                got = _plain(res.data)
                if got != xdata:
                    what = ("x" if x_expected is None else "x-from-variable") if ((got or {}).get(rkey) or {}).get("x") != xdata[rkey]["x"] else "ab"
                    div.append(("sub/data/%s" % what, {"event": k, "expected": xdata, "got": got}))
                for e_ in (res.errors or []):
                    d_ = e_.to_dict()
                    for loc in d_.get("locations") or []:
                        line = text.split("\n")[loc["line"] - 1] if 0 < loc.get("line", 0) <= len(text.split("\n")) else ""
                        if d_.get("path") and not line[loc.get("column", 0) - 1:].startswith(str(d_["path"][-1])):
                            div.append(("sub/error-location-not-at-its-field", {"event": k, "error": d_, "query": text}))
                xerr = sorted((rkey, ff) for ff in exp["errs"])
                gerr = sorted(tuple(e.path) if getattr(e, "path", None) else ("?",) for e in (res.errors or []))
                if gerr != xerr:
                    kind = "leak-or-extra" if len(gerr) > len(xerr) else "missing"
                    div.append(("sub/errors/%s" % kind, {"event": k, "expected": xerr, "got": gerr}))
            elif act == "end":
                settle()
                t = tasks.get(npull)
                if t is None or not t.done():
                    return div + [("sub/end-not-signalled", "")]
                if not isinstance(t.exception(), StopAsyncIteration):
                    div.append(("sub/end-wrong/%s" % type(t.exception()).__name__, repr(t.exception()) if t.exception() else repr(t.result())))
            # results must not be ready before the specification says so.  The implementation fuses the silent steps that
            # need no input from the harness (deliver / yield / raise / end directly following), so those are looked ahead
            # (source-side produce steps commute with them).
            idx = beh["log"].index(step)
            allowed = sum(1 for x in beh["log"][:idx + 1] if x["a"] in ("yield", "raise", "end"))
            j = idx + 1
            while j < len(beh["log"]) and beh["log"][j]["a"] in ("deliver", "yield", "raise", "end", "produce"):
                if beh["log"][j]["a"] not in ("deliver", "produce"):
                    allowed += 1
                j += 1
            for pj, t in tasks.items():
                if t.done() and pj > allowed:
                    return div + [("sub/result-ready-early", {"pull": pj, "after": step})]
            # results that were handed out stay what they were, whatever later events do
            for hk, hres, hdump in held:
                if _errdump(hres) != hdump:
                    return div + [("sub/delivered-result-changes-later", {"event": hk, "when_delivered": hdump, "now": _errdump(hres), "after": step})]
        return div
    finally:
        try:
            for t in asyncio.all_tasks(loop):
                t.cancel()
            loop.run_until_complete(asyncio.sleep(0))
        except Exception:
            pass
        loop.close()


def _errdump(res):
    import json
    return json.dumps([e.to_dict() for e in (res.errors or [])], sort_keys=True, default=str)


def _plain(v):
    if isinstance(v, dict):
        return {k: _plain(x) for k, x in v.items()}
    if isinstance(v, list):
        return [_plain(x) for x in v]
    return v
