"""C14 / C12 replay: sequences of clone / transform / extend / print / query from spec/GqlSchemaOps.tla on real Schema objects.

gamma: abstract schema value (word-sequence names, python names, resolver ids, defaults, descriptions, deprecations,
       default / type resolver ids) -> code-built Schema;
pi   : real Schema -> the same abstract value + identity report (every type reference IS the registered object)."""
import re

BUILTIN = ("Int", "Float", "String", "Boolean", "ID")
_HUMP = re.compile(r"[A-Z]?[a-z0-9]+|[A-Z]+(?![a-z])")


IDEO = "\u3000first line\n\u3000second line"     # every line starts with U+3000 (white space that is NOT GraphQL indentation)


def expand(obj):
    """Markers of the specification's string atoms -> concrete strings (applied to TLC output before gamma and before normalisation)."""
    if isinstance(obj, dict):
        return {k: expand(v) for k, v in obj.items()}
    if isinstance(obj, list):
        return [expand(v) for v in obj]
    if obj == "IDEO2":
        return IDEO
    if obj == "BSLASH":
        return "ends with a backslash \\"
    return obj


def spell(words, camel):
    if not camel:
        return "_".join(words)
    return words[0] + "".join(w[:1].upper() + w[1:] for w in words[1:])


def words_of(name):
    if "_" in name.strip("_"):
        return name.split("_"), "snake"
    parts = [p.lower() for p in _HUMP.findall(name)]
    if len(parts) > 1:
        return parts, "camel"
    return [name], "any"


class Ids:
    """Named callables so that resolver identity survives as an id string."""

    def __init__(self):
        self.fns = {}

    def get(self, rid, kind):
        if not rid:
            return None
        if rid not in self.fns:
            if kind == "resolver":
                def fn(root, ctx, info, **kw):
                    return None
            else:
                def fn(value, ctx=None, info=None):
                    return None
            fn.__name__ = rid
            fn.rid = rid
            self.fns[rid] = fn
        return self.fns[rid]


def pv(v):
    k = v["k"]
    if k == "null":
        return None
    if k == "int":
        return int(v["v"])
    if k == "dict":       # a coerced input-object value: keyed by the PYTHON names of the input fields
        return {f["key"]: pv(f["val"]) for f in v["fs"]}
    if k == "list":
        return [pv(x) for x in v["vs"]]
    return v["v"]


def realize(a, ids, style="constructor"):
    """style = "constructor": resolvers are passed to Field(...);  "registered": the schema is built without resolvers and they are
    attached afterwards through register_resolver / register_subscription (which also fills the schema's resolver registry)."""
    from py_gql.schema import (ID, Argument, Boolean, Directive, EnumType, EnumValue, Field, Float, InputField, InputObjectType, Int,
                               InterfaceType, ListType, NonNullType, ObjectType, ScalarType, Schema, String, UnionType)
    builtin = {"Int": Int, "Float": Float, "String": String, "Boolean": Boolean, "ID": ID}
    reg = {}
    camel = a["camel"]

    def ref(t):
        if t["k"] == "named":
            return builtin[t["n"]] if t["n"] in builtin else (lambda: reg[t["n"]])
        return (ListType if t["k"] == "list" else NonNullType)(ref(t["of"]))

    def args(lst, cls=Argument):
        return [cls(spell(x["w"], camel), ref(x["type"]), description=x["desc"] or None, python_name=(x["py"] if not x["py"].startswith("@") else None) or None,
                    **({"default_value": pv(x["def"])} if x["hasDef"] else {})) for x in lst]

    def fields(t):
        reg_style = style == "registered" and t["k"] == "object"
        return lambda: [Field(spell(f["w"], camel), ref(f["type"]), args(f["args"]), description=f["desc"] or None,
                              deprecation_reason=f["dep"] or None, resolver=None if reg_style else ids.get(f["res"], "resolver"),
                              subscription_resolver=ids.get("sub_" + f["res"], "resolver") if (f["res"] == "r_sub" and not reg_style) else None,
                              python_name=f["py"] or None) for f in t["fields"]]
    for t in a["types"]:
        k, n = t["k"], t["name"]
        if k == "scalar":
            if t.get("impl") == "subclass":
                class AppStamp(ScalarType):
                    def serialize(self, value):
                        return "S:%s" % (value,)
                reg[n] = AppStamp(n, serialize=str, parse=str)
            else:
                reg[n] = ScalarType(n, serialize=str, parse=str)
        elif k == "enum":
            reg[n] = EnumType(n, [EnumValue(v["name"], deprecation_reason=v["dep"] or None) for v in t["values"]], description=t["desc"] or None)
        elif k == "input":
            reg[n] = InputObjectType(n, (lambda t=t: args(t["fields"], InputField)), description=t["desc"] or None)
        elif k == "object":
            reg[n] = ObjectType(n, fields(t), interfaces=(lambda t=t: [reg[i] for i in t["ifaces"]]), description=t["desc"] or None,
                                default_resolver=ids.get(t["dres"], "resolver"))
        elif k == "interface":
            reg[n] = InterfaceType(n, fields(t), resolve_type=ids.get(t["rt"], "rt"), description=t["desc"] or None)
        elif k == "union":
            reg[n] = UnionType(n, (lambda t=t: [reg[m] for m in t["members"]]), resolve_type=ids.get(t["rt"], "rt"), description=t["desc"] or None)
    dirs = [Directive(d["name"], list(d["locs"]), args(d["args"])) for d in a["directives"]]

    def g(n):
        return reg.get(n) if n else None
    schema = Schema(g(a["query"]), g(a["mutation"]), g(a["subscription"]), directives=dirs, types=list(reg.values()))
    if a.get("sdres"):
        schema.default_resolver = ids.get(a["sdres"], "resolver")
    if style == "registered":
        for t in a["types"]:
            if t["k"] != "object":
                continue
            for f in t["fields"]:
                if f["res"]:
                    schema.register_resolver(t["name"], spell(f["w"], camel), ids.get(f["res"], "resolver"))
                    if f["res"] == "r_sub":
                        schema.register_subscription(t["name"], spell(f["w"], camel), ids.get("sub_" + f["res"], "resolver"))
    return schema


def tref(t):
    from py_gql.schema import ListType, NonNullType
    if isinstance(t, ListType):
        return {"k": "list", "of": tref(t.type)}
    if isinstance(t, NonNullType):
        return {"k": "nn", "of": tref(t.type)}
    return {"k": "named", "n": t.name}


def rid(fn):
    if fn is None:
        return ""
    return getattr(fn, "rid", getattr(fn, "__name__", "?"))


def project(s):
    """-> (abstract value, identity violations, spelling styles seen)"""
    from py_gql.schema import EnumType, InputObjectType, InterfaceType, ObjectType, UnionType, unwrap_type
    styles = set()
    ident = []
    types = []

    def chk(owner, t):
        n = unwrap_type(t)
        if s.types.get(n.name) is not n:
            ident.append("%s -> %s" % (owner, n.name))

    def nm(name):
        w, st = words_of(name)
        styles.add(st)
        return w

    def index(owner, what, mapping, members):
        """a name index an element exposes (field_map, argument_map) must list exactly its current members"""
        try:
            if list(mapping.keys()) != [m.name for m in members] or any(mapping[m.name] is not m for m in members):
                ident.append("%s.%s is stale" % (owner, what))
        except Exception as e:
            ident.append("%s.%s raises %s" % (owner, what, type(e).__name__))

    def defval(x):
        """Defaults of input-object type are coerced values keyed by python names (or, for schemas rebuilt from SDL, by the names
        as written): normalised to the snake spelling of the field's GraphQL name."""
        v = x.default_value
        t = unwrap_type(x.type)
        if isinstance(v, dict) and isinstance(t, InputObjectType):
            out = {}
            for k, val in v.items():
                f = next((f for f in t.fields if f.python_name == k), None) or next((f for f in t.fields if f.name == k), None)
                out["_".join(words_of(f.name)[0]) if f is not None else k] = val
            return out
        return v

    def args(owner, lst):
        out = []
        for x in lst:
            chk("%s(%s:)" % (owner, x.name), x.type)
            out.append({"w": nm(x.name), "type": tref(x.type), "hasDef": x.has_default_value,
                        "def": defval(x) if x.has_default_value else None, "py": x.python_name, "desc": x.description or ""})
        return out
    for n, t in s.types.items():
        if n.startswith("__") or n in BUILTIN:
            continue
        if isinstance(t, (ObjectType, InterfaceType)):
            fl = []
            for f in t.fields:
                chk("%s.%s" % (n, f.name), f.type)
                index("%s.%s" % (n, f.name), "argument_map", f.argument_map, f.arguments)
                fl.append({"w": nm(f.name), "type": tref(f.type), "args": args("%s.%s" % (n, f.name), f.arguments), "py": f.python_name,
                           "res": rid(f.resolver), "sres": rid(getattr(f, "subscription_resolver", None)), "dep": f.deprecation_reason or "", "desc": f.description or ""})
            index(n, "field_map", t.field_map, t.fields)
            d = {"k": "object" if isinstance(t, ObjectType) else "interface", "name": n, "fields": fl, "desc": t.description or ""}
            if isinstance(t, ObjectType):
                d["ifaces"] = [i.name for i in t.interfaces]
                d["dres"] = rid(t.default_resolver)
                for i in t.interfaces:
                    chk("%s implements" % n, i)
            else:
                d["rt"] = rid(t.resolve_type)
        elif isinstance(t, UnionType):
            d = {"k": "union", "name": n, "members": [m.name for m in t.types], "desc": t.description or "", "rt": rid(t.resolve_type)}
            for m in t.types:
                chk("%s member" % n, m)
        elif isinstance(t, EnumType):
            d = {"k": "enum", "name": n, "values": [{"name": v.name, "dep": v.deprecation_reason or ""} for v in t.values], "desc": t.description or ""}
        elif isinstance(t, InputObjectType):
            index(n, "field_map", t.field_map, t.fields)
            d = {"k": "input", "name": n, "fields": args(n, t.fields), "desc": t.description or ""}
        else:
            from py_gql.schema import ScalarType
            try:
                beh = t.serialize(1)
            except Exception as e:
                beh = "raises " + type(e).__name__
            d = {"k": "scalar", "name": n, "impl": "plain" if type(t) is ScalarType else ("subclass" if beh == "S:1" else "subclass-without-its-behaviour")}
            if type(t) is ScalarType and beh == "S:1":
                d["impl"] = "plain-class-with-the-behaviour"
        types.append(d)
    for root in ("query_type", "mutation_type", "subscription_type"):
        r = getattr(s, root)
        if r is not None and s.types.get(r.name) is not r:
            ident.append("%s root -> %s" % (root, r.name))
    for d in s.directives.values():
        if d.name not in ("skip", "include", "deprecated"):
            index("@" + d.name, "argument_map", d.argument_map, d.arguments)
    val = {"query": s.query_type.name if s.query_type else "", "mutation": s.mutation_type.name if s.mutation_type else "",
           "subscription": s.subscription_type.name if s.subscription_type else "", "sdres": rid(getattr(s, "default_resolver", None)),
           "types": sorted(types, key=lambda d: d["name"]),
           "directives": sorted(({"name": d.name, "locs": sorted(d.locations), "args": args("@" + d.name, d.arguments)}
                                 for d in s.directives.values() if d.name not in ("skip", "include", "deprecated")), key=lambda d: d["name"])}
    return val, ident, styles - {"any"}


def normalize(a):
    """Expected abstract value in the same normal form as project()."""
    camel = a["camel"]

    def py(x):
        if x["py"] in ("@snake", "@camel"):
            return spell(x["w"], x["py"] == "@camel")
        return x["py"] or spell(x["w"], camel)

    def args(lst):
        return [{"w": list(x["w"]), "type": x["type"], "hasDef": x["hasDef"], "def": pv(x["def"]) if x["hasDef"] else None,
                 "py": py(x), "desc": x["desc"]} for x in lst]
    types = []
    for t in a["types"]:
        k = t["k"]
        d = {"k": k, "name": t["name"]}
        if k in ("object", "interface"):
            d["fields"] = [{"w": list(f["w"]), "type": f["type"], "args": args(f["args"]), "py": py(f), "res": f["res"],
                            "sres": "sub_" + f["res"] if f["res"] == "r_sub" else "", "dep": f["dep"], "desc": f["desc"]} for f in t["fields"]]
            d["desc"] = t["desc"]
            if k == "object":
                d["ifaces"] = list(t["ifaces"])
                d["dres"] = t["dres"]
            else:
                d["rt"] = t["rt"]
        elif k == "union":
            d.update(members=list(t["members"]), desc=t["desc"], rt=t["rt"])
        elif k == "enum":
            d.update(values=[{"name": v["name"], "dep": v["dep"]} for v in t["values"]], desc=t["desc"])
        elif k == "input":
            d.update(fields=args(t["fields"]), desc=t["desc"])
        elif k == "scalar":
            d["impl"] = t.get("impl", "plain")
        types.append(d)
    return {"query": a["query"], "mutation": a["mutation"], "subscription": a["subscription"], "sdres": a.get("sdres", ""),
            "types": sorted(types, key=lambda d: d["name"]),
            "directives": sorted(({"name": d["name"], "locs": sorted(d["locs"]), "args": args(d["args"])} for d in a["directives"]), key=lambda d: d["name"])}


def first_difference(exp, got, path=""):
    """Short description of where two normal forms differ (used for divergence keys)."""
    if type(exp) != type(got):
        return path + ":type"
    if isinstance(exp, dict):
        for k in exp:
            if k not in got:
                return "%s.%s:missing" % (path, k)
            d = first_difference(exp[k], got[k], "%s.%s" % (path, k))
            if d:
                return d
        for k in got:
            if k not in exp:
                return "%s.%s:extra" % (path, k)
        return None
    if isinstance(exp, list):
        if len(exp) != len(got):
            # name the first element that is missing / extra when the elements are named
            def names(lst):
                return [x.get("name") or "_".join(x.get("w", [])) if isinstance(x, dict) else repr(x) for x in lst]
            en, gn = names(exp), names(got)
            miss = [n for n in en if n not in gn]
            extra = [n for n in gn if n not in en]
            return "%s:len(missing=%s,extra=%s)" % (path, ",".join(miss[:2]), ",".join(extra[:2]))
        for i, (a, b) in enumerate(zip(exp, got)):
            tag = a.get("name") or "_".join(a.get("w", [])) if isinstance(a, dict) and ("name" in a or "w" in a) else str(i)
            d = first_difference(a, b, "%s[%s]" % (path, tag))
            if d:
                return d
        return None
    return None if exp == got else path


def generalize(diff):
    """Abstract a difference path into a key component (drop concrete element names, keep attribute and owner kind)."""
    attr = re.sub(r"\[[^\]]*\]", "[]", diff)
    return attr
