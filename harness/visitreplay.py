"""C18 replay: plans enumerated by TLC (spec/GqlVisitor.tla) executed on real ASTVisitor / DispatchingVisitor /
ChainedVisitor instances; event logs and resulting trees compared with the specification's."""
import json
import os
import tempfile

from . import astproj, langreplay, par, tlc

VALUE_KINDS = {"IntValue", "FloatValue", "StringValue", "BooleanValue", "NullValue", "EnumValue", "ListValue",
               "ObjectValue", "Variable"}


def node_table(root):
    """Flat, role-labelled table of the non-Name nodes of a real AST (pre-order ids from 1) + list of node objects."""
    from py_gql.lang import ast as A
    nodes = []
    objs = []

    def rec(node, role, lm):
        kind = type(node).__name__
        idx = len(nodes) + 1
        entry = {"k": kind, "role": role, "ch": [], "lm": lm}
        nodes.append(entry)
        objs.append(node)
        for attr in astproj.CHILDREN[kind]:
            v = getattr(node, attr, None)
            if v is None:
                continue
            if isinstance(v, (list, tuple)):
                for x in v:
                    if not isinstance(x, A.Name):
                        entry["ch"].append(rec(x, attr, True))
            elif isinstance(v, A.Node) and not isinstance(v, A.Name):
                entry["ch"].append(rec(v, attr, False))
        return idx
    rec(root, "root", False)
    return nodes, objs


def replacement_for(node, role):
    """A fresh LEAF node of the same syntactic category (None = this node is never replaced).  Leaves only: the property
    does not say whether the children of a replacement are visited (the library does so for some kinds only)."""
    from py_gql.lang import ast as A
    kind = type(node).__name__
    if role == "description":
        return None
    if kind in VALUE_KINDS and role in ("value", "values", "default_value"):
        return A.IntValue(value="7")
    if kind == "Field":
        return A.Field(name=A.Name(value="zz"), alias=None, arguments=[], directives=[], selection_set=None)
    if kind == "Directive":
        return A.Directive(name=A.Name(value="zz"), arguments=[])
    if kind == "NamedType":
        return A.NamedType(name=A.Name(value="Zz"))
    return None


def build_case(entry, text, ts, fv, m, disp):
    """Parse and tabulate; returns (case-for-TLC, builder) where builder() re-creates fresh objects for a run."""
    st, root = langreplay.try_parse(entry, text, ts, fv, True)
    if st == "err":
        return None
    nodes, objs = node_table(root)
    n = len(nodes)
    rep = []
    for i, (e, o) in enumerate(zip(list(nodes), list(objs))):
        r = replacement_for(o, e["role"])
        if r is None:
            rep.append(0)
            continue
        rn, ro = node_table(r)
        base = len(nodes)
        for x in rn:
            x["ch"] = [c + base for c in x["ch"]]
            x["role"] = e["role"] if x is rn[0] else x["role"]
            x["lm"] = e["lm"] if x is rn[0] else x["lm"]
        nodes.extend(rn)
        rep.append(base + 1)
    rep += [0] * (len(nodes) - n)
    return {"nodes": nodes, "root": 1, "rep": rep, "n": n, "m": m, "vis": list(range(1, m + 1)), "text": text, "entry": entry, "ts": ts, "fv": fv, "disp": disp}


def make_recorders(case, plan, log, ids, repl_objs):
    from py_gql.lang import visitor as V

    def action_for(node, v):
        i = ids.get(id(node))
        for (n, a, vv) in plan:
            if n == i and vv == v:
                return a
        return None

    class Mixin:
        def _enter(self, node):
            i = ids.get(id(node), -1)
            log.append(["enter", i, self.vidx])
            a = action_for(node, self.vidx)
            if a == "skip":
                raise V.SkipNode()
            if a == "delete":
                return None
            if a == "replace":
                return repl_objs[i]
            return node

        def _leave(self, node):
            log.append(["leave", ids.get(id(node), -1), self.vidx])

    class Plain(Mixin, V.ASTVisitor):
        def __init__(self, vidx):
            self.vidx = vidx

        def enter(self, node):
            return self._enter(node)

        def leave(self, node):
            self._leave(node)

    ns = {"__init__": lambda self, vidx: setattr(self, "vidx", vidx)}
    def hook(name, enter):
        # pi: a node must be dispatched to the hook of ITS OWN kind, on the way in and on the way out
        suffix = name.split("_", 1)[1]

        def f(self, node):
            if _snake(type(node).__name__) != suffix:
                log.append(["wrong-hook:" + name, ids.get(id(node), -1), self.vidx])
            return Mixin._enter(self, node) if enter else Mixin._leave(self, node)
        return f
    for name in dir(V.DispatchingVisitor):
        if name.startswith("enter_"):
            ns[name] = hook(name, True)
        elif name.startswith("leave_"):
            ns[name] = hook(name, False)
    # gamma: the dispatching recorder is a SUBCLASS of an application visitor class that has already been used on its own
    # (class hierarchies of visitors are the documented way to share behaviour): the subclass' hooks are the ones that count
    Disp = type("Disp", (_disp_base(ns),), ns)
    if case.get("sparse"):
        # gamma: an application visitor that only implements the hooks of SOME node kinds (the usual way DispatchingVisitor is
        # used), derived directly from the library class: it sees exactly the events of those kinds, wherever the nodes sit
        keep = {"enter_" + _snake(k) for k in case["sparse"]} | {"leave_" + _snake(k) for k in case["sparse"]}
        Disp = type("SparseDisp", (V.DispatchingVisitor,), {k: v for k, v in ns.items() if k == "__init__" or k in keep})
    m = case["m"]
    inst = {v: (Disp if (case["disp"] and v % 2 == 1) else Plain)(v) for v in set(case["vis"])}
    if m == 1:
        return inst[case["vis"][0]], None
    # gamma: in every second chain a member that takes no action implements ONLY `leave` (it inherits the base class' enter):
    # it still has to be left, in reverse order, for every node the chain leaves
    lo = None
    idle = sorted(v for v in set(case["vis"]) if not any(vv == v for (_, _, vv) in plan))
    if idle and len(plan) % 2 == 0:
        lo = idle[-1]

        class LeaveOnly(V.ASTVisitor):
            def leave(self, node):
                log.append(["leave", ids.get(id(node), -1), lo])
        inst[lo] = LeaveOnly()
    return V.ChainedVisitor(*[inst[v] for v in case["vis"]]), lo


_WARMUP = []


def _disp_base(ns):
    """One application base class per process, used ON ITS OWN once before any subclass exists."""
    if not _WARMUP:
        from py_gql.lang import parse
        from py_gql.lang import visitor as V
        base_ns = {}
        for name in ns:
            if name.startswith("enter_"):
                base_ns[name] = lambda self, node: node
            elif name.startswith("leave_"):
                base_ns[name] = lambda self, node: None
        base = type("DispBase", (V.DispatchingVisitor,), base_ns)
        base().visit(parse("query Q($v: Int = 1) @d { a(x: [1, {k: $v}]) { ...F ... on T { b } } }\nfragment F on T { c }", no_location=True))
        _WARMUP.append(base)
    return _WARMUP[0]


def _snake(name):
    import re
    return re.sub(r"(?<!^)(?=[A-Z])", "_", name).lower()


def run_case(case, plan):
    """Execute one plan on fresh objects; returns (log, resulting ids) or ('exc', repr)."""
    st, root = langreplay.try_parse(case["entry"], case["text"], case["ts"], case["fv"], True)
    nodes, objs = node_table(root)
    ids = {}
    repl_objs = {}
    for i, o in enumerate(objs):
        ids[id(o)] = i + 1
    keep = list(objs)
    for i in range(case["n"]):
        r = case["rep"][i]
        if r:
            ro = replacement_for(objs[i], nodes[i]["role"])
            rn, robjs = node_table(ro)
            for j, o in enumerate(robjs):
                ids[id(o)] = r + j
            keep += robjs
            repl_objs[i + 1] = ro
    log = []
    vis, lo = make_recorders(case, plan, log, ids, repl_objs)
    try:
        out = vis.visit(root)
    except Exception as e:
        return "exc", repr(e), log
    if out is None:
        return "ok", log, [], lo
    try:
        rn, robjs = node_table(out)
    except Exception as e:
        # e.g. a None left behind in a child list by a broken deletion: a malformed RESULT is a divergence, not a harness failure
        return "exc", "resulting tree is malformed: %r" % (e,), log
    res = [ids.get(id(o), -1) for o in robjs]
    return "ok", log, res, lo


def generate(chk, cases, max_edit, max_pair, label):
    """TLC enumerates plans per case and computes expected events / trees.  Initial states are enumerated on one
    thread, so the cases are sharded over JVM processes; cid in the result is the global case index (1-based)."""
    import concurrent.futures as cf
    shards = par.chunks(list(enumerate(cases)), min(par.NPROC, max(1, len(cases) // 40)))
    cfg = tlc.cfg(invariants=["Out", "Balanced", "NoopComplete", "EditLocal"],
                  constants={"MaxPairNodes": max_pair, "MaxEditNodes": max_edit})

    def one(part):
        fd, path = tempfile.mkstemp(prefix="vis-", suffix=".json")
        with os.fdopen(fd, "w") as f:
            json.dump([{k: c[k] for k in ("nodes", "root", "rep", "n", "m", "vis")} for _, c in part], f)
        try:
            r = chk.tlc("GqlVisitor", cfg, env={"TRACE_FILE": path}, tags=["VIS"], workers=2, heap="3g",
                        label="%s [%d cases]" % (label, len(part)))
            if r.rc != 0:
                raise tlc.TLCError("GqlVisitor design invariant violated: %s\n%s" % (r.violated, r.tail))
            out = r.tagged("VIS")
            for b in out:
                b["cid"] = part[b["cid"] - 1][0] + 1
            return out
        finally:
            os.unlink(path)
    res = []
    with cf.ThreadPoolExecutor(len(shards)) as ex:
        for o in ex.map(one, shards):
            res += o
    return res


def first_diff(a, b):
    for i in range(max(len(a), len(b))):
        x = a[i] if i < len(a) else None
        y = b[i] if i < len(b) else None
        if x != y:
            return i, x, y
    return None


def _kind(case, i):
    if isinstance(i, int) and 1 <= i <= len(case["nodes"]):
        return case["nodes"][i - 1]["k"]
    return "?"


def _parent_kind(case, i):
    for j, n in enumerate(case["nodes"]):
        if i in n["ch"]:
            return n["k"]
    return "ROOT"


def _worker(args):
    cases, behs = args
    out = {}
    n = 0
    for b in behs:
        case = cases[b["cid"] - 1]
        plan = [tuple(e) for e in b["plan"]]
        n += 1
        r = run_case(case, plan)
        acts = ",".join(sorted({"%s:%s" % (a, _kind(case, i)) for (i, a, v) in plan})) or "noop"
        wit = {"text": case["text"], "plan": [[i, a, v, _kind(case, i)] for (i, a, v) in plan], "chain": case["vis"], "dispatching": case["disp"]}
        if r[0] == "exc":
            out.setdefault(("C18", "visit/raises/%s/%s" % (r[1].split("(")[0], acts)), ["visitor raises", dict(wit, error=r[1])])
            continue
        _, log, res, lo = r
        if case["disp"] and case["m"] == 1 and not case.get("sparse"):
            _sparse_run(out, case, plan, b, wit)
        if lo is not None:      # the leave-only member has no enter events
            b = dict(b, ev=[e for e in b["ev"] if not (e[0] == "enter" and e[2] == lo)], evd=[e for e in b["evd"] if not (e[0] == "enter" and e[2] == lo)])
        if log == b["ev"] and res == b["res"]:
            continue
        if log == b["evd"] and res == b["resd"]:
            for d in b["fired"]:
                out.setdefault(("C18", "visit/deviation/%s" % d), ["known deviation of the visitor from C18 (named in spec/GqlVisitor.tla)", wit])
            if not b["fired"]:
                out.setdefault(("C18", "visit/deviation/unattributed"), ["differs from the ideal semantics but no single deviation explains it", wit])
            continue
        # neither the ideal nor the known-deviation semantics explains the run
        _diverge(out, case, plan, b, log, res, wit)
    return out, n


def _sparse_run(out, case, plan, b, wit):
    """The same plan on a DispatchingVisitor subclass that implements only the hooks of the kinds the plan edits plus one more
    kind of the tree: its log is the specification's log restricted to those kinds, the resulting tree is the same."""
    kinds = sorted({nd["k"] for nd in case["nodes"][:case["n"]]})
    watch = {_kind(case, i) for (i, a, v) in plan} | {kinds[(b["cid"] + len(plan) + len(b["ev"])) % len(kinds)]}
    r = run_case(dict(case, sparse=sorted(watch)), plan)
    wit = dict(wit, sparse_hooks=sorted(watch))
    acts = ",".join(sorted({"%s:%s" % (a, _kind(case, i)) for (i, a, v) in plan})) or "noop"
    if r[0] == "exc":
        out.setdefault(("C18", "visit/sparse/raises/%s/%s" % (r[1].split("(")[0], acts)), ["visitor raises", dict(wit, error=r[1])])
        return
    _, log, res, lo = r

    def only(ev):
        return [e for e in ev if _kind(case, e[1]) in watch]
    if (log == only(b["ev"]) and res == b["res"]) or (log == only(b["evd"]) and res == b["resd"]):
        return
    _diverge(out, case, plan, dict(b, evd=only(b["evd"])), log, res, wit, prefix="visit/sparse")


def _diverge(out, case, plan, b, log, res, wit, prefix="visit"):
    if True:
        pl = {i: a for (i, a, v) in plan}

        def rel(*nodes):
            for x in nodes:
                if x and x[1] in pl:
                    return "%s:%s" % (pl[x[1]], _kind(case, x[1]))
            return "-"
        d = first_diff(log, b["evd"])
        if d is not None:
            i, got, exp = d
            g = "%s:%s" % (got[0], _kind(case, got[1])) if got else "none"
            x = "%s:%s" % (exp[0], _kind(case, exp[1])) if exp else "none"
            par_k = _parent_kind(case, (exp or got)[1])
            prev = log[i - 1] if i > 0 else None
            out.setdefault(("C18", "%s/events/in=%s/exp=%s/got=%s/edit=%s/chain=%d" % (prefix, par_k, x, g, rel(exp, got, prev), case["m"])),
                           ["event log differs from the specification", dict(wit, index=i, expected=exp, got=got)])
        else:
            d = first_diff(res, b["resd"])
            i, got, exp = d
            out.setdefault(("C18", "%s/tree/exp=%s/got=%s/edit=%s" % (prefix, _kind(case, exp), _kind(case, got), rel([0, exp], [0, got]))),
                           ["resulting tree differs from the specification", dict(wit, index=i)])


def _shards(shards):
    merged, n = {}, 0
    for a in shards:
        out, k = _worker(a)
        n += k
        for key, v in out.items():
            merged.setdefault(key, v)
    return merged, n


def replay(cases, behs):
    parts = par.chunks(behs, par.NPROC * 2)
    res = par.pmap(_shards, [(cases, p) for p in parts])
    div, n = {}, 0
    for out, k in res:
        n += k
        for key, v in out.items():
            div.setdefault(key, v)
    return n, div
