"""Check context: accumulates TLC statistics, divergences, evidence; matches known findings."""
import fnmatch
import hashlib
import threading
import json
import os
import sys
import time
import traceback

from . import tlc

VERIF = tlc.VERIF
EVID = os.environ.get("VERIF_EVIDENCE_DIR") or os.path.join(VERIF, "evidence")  # (seed runs write their evidence elsewhere)
REPLAYS = os.path.join(VERIF, "out", "replays")
FINDINGS = os.path.join(VERIF, "known_findings.json")

REPO = os.environ.get("VERIF_REPO", "/repo")


def setup_repo_path():
    """Always import py_gql from the current working tree of /repo (never an installed copy)."""
    src = os.path.join(REPO, "src")
    if src not in sys.path:
        sys.path.insert(0, src)
    os.environ.setdefault("PY_GQL_VERIF", "1")
    import py_gql  # noqa
    assert os.path.abspath(py_gql.__file__).startswith(os.path.abspath(src)), py_gql.__file__


def load_findings():
    if not os.path.exists(FINDINGS):
        return []
    with open(FINDINGS) as f:
        return json.load(f)["findings"]


class Machinery(Exception):
    pass


class Check:
    def __init__(self, pid, tier, seed):
        self.pid = pid
        self.tier = tier
        self.seed = seed
        self.t0 = time.time()
        self.states = 0
        self.transitions = 0
        self.traces = 0
        self.evaluations = 0
        self.samples = []
        self.notes = {}
        self.assumptions = []
        self.divergences = {}  # key -> dict(count, first witness)
        self.exhaustive = True
        self.tlc_runs = []
        self.known = {(f["property"], f["key"]): f for f in load_findings() if f["property"] == pid}
        self.stage_counts = {}
        self._lock = threading.Lock()

    @property
    def quick(self):
        return self.tier == "quick"

    # ---- TLC ---------------------------------------------------------------
    def tlc(self, module, cfg_text, **kw):
        label = kw.pop("label", module)
        r = tlc.run(module, cfg_text, **kw)
        with self._lock:
            self._account(r, label, module, kw)
        return r

    def _account(self, r, label, module, kw):
        self.states += r.distinct
        self.transitions += r.generated
        if kw.get("simulate") is not None:
            self.exhaustive = False
        self.tlc_runs.append({"label": label, "module": module, "distinct": r.distinct, "generated": r.generated,
                              "wall_s": round(r.wall, 2), "cached": r.cached,
                              "mode": "simulate" if kw.get("simulate") is not None else "exhaustive"})

    def tlc_must_hold(self, module, cfg_text, what, **kw):
        """R1 run: the spec's own invariants/properties must hold (design-level check)."""
        kw.setdefault("cache", True)
        r = self.tlc(module, cfg_text, **kw)
        if r.rc != 0:
            raise Machinery("R1 design check failed (%s): %s violated\n%s" % (what, r.violated, r.tail))
        return r

    # ---- results -----------------------------------------------------------
    def count(self, stage, n=1):
        self.stage_counts[stage] = self.stage_counts.get(stage, 0) + n

    def sample(self, s, limit=6):
        if len(self.samples) < limit:
            self.samples.append(s)

    def diverge(self, key, witness, what=""):
        d = self.divergences.get(key)
        if d is None:
            self.divergences[key] = {"count": 1, "witness": witness, "what": what}
        else:
            d["count"] += 1

    def merge_divergences(self, items):
        """items: iterable of (key, witness, what) from worker processes."""
        for key, witness, what in items:
            self.diverge(key, witness, what)

    # ---- finish ------------------------------------------------------------
    def finish(self, level="model_checking", rule="", extra=None):
        from harness import par
        if par.LOST:
            lost = sum(par.LOST)
            if not self.divergences:
                raise Machinery("%d replay chunk(s) lost to dying worker processes and no divergence observed: no verdict" % lost)
            self.notes["replay_chunks_lost_to_dying_workers"] = lost
        violations = 0
        os.makedirs(EVID, exist_ok=True)
        known_seen = []
        for key in sorted(self.divergences):
            d = self.divergences[key]
            f = self.known.get((self.pid, key))
            if f is None:
                for (p, pat), cand in self.known.items():
                    if ("*" in pat or "?" in pat) and fnmatch.fnmatchcase(key, pat):
                        f = cand
                        break
            if f is not None and f.get("status") == "known":
                print("KNOWN-FINDING: property=%s %s [%s] (x%d)" % (self.pid, f.get("what", d["what"]), key, d["count"]))
                known_seen.append(key)
                continue
            violations += 1
            os.makedirs(os.path.join(REPLAYS, self.pid), exist_ok=True)
            path = os.path.join(REPLAYS, self.pid, hashlib.sha1(key.encode()).hexdigest()[:16] + ".json")
            with open(path, "w") as fh:
                json.dump({"property": self.pid, "key": key, "what": d["what"], "count": d["count"],
                           "witness": d["witness"], "tier": self.tier, "seed": self.seed}, fh, indent=1, default=str)
            print("VIOLATION property=%s replay=%s" % (self.pid, path))
            print("  key=%s what=%s" % (key, d["what"]))
        cov = {
            "states": max(self.states, 0),
            "transitions": max(self.transitions, 0),
            "traces_validated_against_impl": self.traces,
            "samples": self.samples or ["(no sample recorded)"],
            "evaluations": self.evaluations or self.traces,
            "rule": rule,
            "exhaustive": bool(self.exhaustive),
            "tlc_runs": self.tlc_runs,
            "stages": self.stage_counts,
            "known_findings_observed": known_seen,
            "divergence_keys": {k: v["count"] for k, v in self.divergences.items()},
        }
        cov.update(self.notes)
        if extra:
            cov.update(extra)
        ev = {
            "property_id": self.pid,
            "tier": self.tier,
            "seed": self.seed,
            "level": level,
            "coverage": cov,
            "assumptions": self.assumptions,
            "wall_s": round(time.time() - self.t0, 2),
            "violations": violations,
        }
        with open(os.path.join(EVID, self.pid + ".json"), "w") as fh:
            json.dump(ev, fh, indent=1, default=str)
        print("%s %s: states=%d transitions=%d traces=%d divergence-classes=%d known=%d violations=%d wall=%.1fs" % (
            self.pid, self.tier, self.states, self.transitions, self.traces, len(self.divergences),
            len(known_seen), violations, time.time() - self.t0))
        return 1 if violations else 0


def main_wrapper(fn, pid, tier, seed):
    """Exit codes: 0 held, 1 violation, 2 machinery failure."""
    try:
        setup_repo_path()
        chk = Check(pid, tier, seed)
        rc = fn(chk)
        return rc
    except (tlc.TLCError, Machinery) as e:
        print("MACHINERY-FAILURE %s: %s" % (pid, e))
        return 2
    except Exception:
        traceback.print_exc()
        print("MACHINERY-FAILURE %s: unexpected harness exception" % pid)
        return 2
