"""R2/R3 replay of the derivation corpus into the real parser (C01 acceptance, C02 trees/spans/values)."""
import json
import os
import random
import tempfile

from . import astproj, corpus, lexgamma, par, tlc

FLAGSETS = [(ts, fv) for ts in (False, True) for fv in (False, True)]


def try_parse(entry, text, ts=False, fv=False, noloc=False):
    from py_gql.lang import parse, parse_type, parse_value
    try:
        if entry == "Value":
            return "ok", parse_value(text, no_location=noloc, allow_type_system=ts, experimental_fragment_variables=fv)
        if entry == "Type":
            return "ok", parse_type(text, no_location=noloc, allow_type_system=ts, experimental_fragment_variables=fv)
        return "ok", parse(text, no_location=noloc, allow_type_system=ts, experimental_fragment_variables=fv)
    except Exception as e:
        return "err", e


def entry_of(start):
    return start if start in ("Value", "Type") else "Document"


def doc_events(start, ev, ntok):
    if start in ("Document", "Value", "Type"):
        return ev
    return [["enter", "Document", 1]] + ev + [["leave", "Document", ntok]]


def flagstr(ts, fv):
    return "ts=%d,fv=%d" % (ts, fv)


def _tok_at(tokens, kinds, pos):
    prev = "SOF"
    for t, k in zip(tokens, kinds):
        if t["s"] <= pos < t["e"] or pos < t["s"]:
            return k, prev
        prev = k
    return "EOF", prev


_HISTORY_REPORTED = []


def judge_positive(item, text, tokens, out):
    """item: dict(toks, ev, start, ts, fv).  The text derives from the grammar under (start, ts, fv)."""
    start, ts, fv = item["start"], item["ts"], item["fv"]
    entry = entry_of(start)
    kinds = item["toks"]
    wit = {"text": text, "skeleton": kinds, "start": start, "ts": ts, "fv": fv}
    ev_exp, pl_exp = astproj.expected(doc_events(start, item["ev"], len(tokens)), tokens)
    n = 0
    for noloc in (False, True):
        for src in ((text, text.encode("utf8")) if not noloc else (text,)):
            n += 1
            st, res = try_parse(entry, src, ts, fv, noloc)
            if st == "err":
                why = lexgamma.check_syntax_error(res, text)
                pos = getattr(res, "position", -1)
                k, prev = _tok_at(tokens, kinds, pos if isinstance(pos, int) else -1)
                out.setdefault(("C01", "parse/reject-valid/%s/%s/%s/at=%s/prev=%s" % (
                    entry, flagstr(ts, fv), "syntax" if not why else why, k, prev)),
                    ["parser rejects a text that derives from the grammar", dict(wit, error=repr(res))])
                continue
            ev, pl, bad = astproj.project(res)
            if bad:
                out.setdefault(("C02", "parse/tree/" + bad[0]), ["tree contains an unexpected object", wit])
                continue
            if noloc:
                if any(e[2] is not None for e in ev):
                    k = next(e[1] for e in ev if e[2] is not None)
                    out.setdefault(("C02", "parse/noloc/loc-present/" + k), ["node carries a span under no_location", wit])
                got = [[e[0], e[1]] for e in ev]
                exp = [[e[0], e[1]] for e in ev_exp]
            else:
                got = astproj.events_with_token_index(ev, tokens, len(text))
                exp = ev_exp
            if got != exp:
                i = 0
                while i < min(len(got), len(exp)) and got[i] == exp[i]:
                    i += 1
                g = got[i] if i < len(got) else ["none", "none", 0]
                x = exp[i] if i < len(exp) else ["none", "none", 0]
                if g[:2] == x[:2]:
                    key = "parse/span/%s/%s" % (x[1], x[0])
                    what = "node span differs from first/last token of its derivation"
                else:
                    key = "parse/tree/exp=%s:%s/got=%s:%s" % (x[0], x[1], g[0], g[1])
                    what = "tree shape differs from the derivation"
                out.setdefault(("C02", key), [what, dict(wit, expected=x, got=g, index=i)])
                continue
            if pl != pl_exp:
                i = 0
                while i < min(len(pl), len(pl_exp)) and pl[i] == pl_exp[i]:
                    i += 1
                x = pl_exp[i] if i < len(pl_exp) else ["none", {}]
                g = pl[i] if i < len(pl) else ["none", {}]
                attr = next((a for a in x[1] if g[1].get(a, "<none>") != x[1][a]), "?")
                special = ""
                if x[0] == "StringValue":
                    raw = x[1].get("value", "")
                    special = "/has=" + (",".join(sorted({lexgamma.classify(c) for c in raw} & {"UDigit", "UAlnum", "ULineSep", "UBlank", "UOther", "CR", "LF"})) or "-")
                out.setdefault(("C02", "parse/value/%s/%s%s" % (x[0], attr, special)),
                               ["decoded value differs from the specification", dict(wit, expected=x, got=repr(g))])
                continue
            if not noloc and src is text:
                n += reparse_spans(res, text, ts, fv, out, wit)
                # trees are independent values: editing one in place (as inline visitors do) is invisible to the next parse
                if _HISTORY_REPORTED:
                    continue            # shared state already reported by this worker: scribbling on would only grow it
                astproj.scribble(res, "<scribbled by an earlier caller>")
                st2, res2 = try_parse(entry, text, ts, fv, False)
                n += 1
                if st2 == "err":
                    out.setdefault(("C02", "parse/history/second-parse-raises/%s" % type(res2).__name__),
                                   ["the same text no longer parses after an earlier tree was edited in place", dict(wit, error=repr(res2))])
                else:
                    ev2, pl2, bad2 = astproj.project(res2)
                    if bad2 or ev2 != ev or pl2 != pl:
                        _HISTORY_REPORTED.append(True)
                        out.setdefault(("C02", "parse/history/tree-depends-on-earlier-trees/%s" % (bad2[0] if bad2 else "differs")),
                                       ["a freshly parsed tree shows edits made to a previously returned tree (shared mutable state)", wit])
    return n


_VALUE_KINDS = {"IntValue", "FloatValue", "StringValue", "BooleanValue", "NullValue", "EnumValue", "ListValue",
                "ObjectValue", "Variable"}
_TYPE_KINDS = {"NamedType", "ListType", "NonNullType"}


def _strip(node):
    ev, pl, bad = astproj.project(node)
    return [[e[0], e[1]] for e in ev], pl


def reparse_spans(root, text, ts, fv, out, wit):
    """C02: the spanned text of every Value / Type / Definition / Document node parses back to an equal node."""
    from py_gql.lang import ast as A
    n = 0
    stack = [root]
    while stack:
        node = stack.pop()
        kind = type(node).__name__
        for attr in astproj.CHILDREN.get(kind, []):
            v = getattr(node, attr, None)
            if isinstance(v, (list, tuple)):
                stack.extend(x for x in v if isinstance(x, A.Node))
            elif isinstance(v, A.Node):
                stack.append(v)
        if kind in _VALUE_KINDS:
            entry = "Value"
        elif kind in _TYPE_KINDS:
            entry = "Type"
        elif isinstance(node, (A.Definition, A.Document)):
            entry = "Document"
        else:
            continue
        if node.loc is None:
            continue
        sub = text[node.loc[0]:node.loc[1]]
        n += 1
        st, res = try_parse(entry, sub, ts, fv, False)
        if st == "err":
            out.setdefault(("C02", "parse/reparse/%s/rejected" % kind), ["spanned text does not parse", dict(wit, sub=sub)])
            continue
        if entry == "Document" and not isinstance(node, A.Document):
            res = res.definitions[0] if len(res.definitions) == 1 else res
        if _strip(res) != _strip(node):
            out.setdefault(("C02", "parse/reparse/%s/differs" % kind), ["spanned text parses to a different node", dict(wit, sub=sub)])
    return n


def _pos_worker(args):
    items, reps, seed = args
    rng = random.Random(seed)
    out = {}
    n = 0
    for item in items:
        for r in range(reps):
            text, tokens = corpus.render(item["toks"], rng, compact=(r == 0))
            n += judge_positive(item, text, tokens, out)
    return out, n


def _pos_shards(shards):
    merged, n = {}, 0
    for a in shards:
        out, k = _pos_worker(a)
        n += k
        for key, v in out.items():
            merged.setdefault(key, v)
    return merged, n


def replay_positives(items, reps, seed):
    parts = par.chunks(items, par.NPROC * 2)
    res = par.pmap(_pos_shards, [(p, reps, seed + 17 * i) for i, p in enumerate(parts)])
    div, n = {}, 0
    for out, k in res:
        n += k
        for key, v in out.items():
            div.setdefault(key, v)
    return n, div


# ---------------------------------------------------------------------------------------------
# R3: token sequences whose membership is DECIDED by TLC (GqlGrammarTrace), then compared with the parser

def render_records(recs, rng):
    """Token records [k, v, (text)] -> text."""
    toks = []
    for r in recs:
        k = r["k"]
        if "text" in r:
            t = {"cls": k, "text": r["text"]}
        elif k == "name":
            t = {"cls": "name", "text": r["v"] if r["v"] != "ident" else rng.choice(corpus.IDENTS)}
        elif k == "int":
            t = {"cls": "int", "text": rng.choice(corpus.INTS)}
        elif k == "float":
            t = {"cls": "float", "text": rng.choice(corpus.FLOATS)}
        elif k == "string":
            t = {"cls": "string", "text": '"%s"' % rng.choice(corpus.STRINGS)[0]}
        elif k == "blockstring":
            t = {"cls": "blockstring", "text": '"""%s"""' % rng.choice(corpus.BLOCKS)}
        else:
            t = {"cls": k, "text": k}
        toks.append(t)
    parts = []
    prev = None
    pos = 0
    for t in toks:
        if prev is not None and (corpus.need_sep(prev, t) or rng.random() < 0.4):
            sep = rng.choice(corpus.SEPS)
            parts.append(sep)
            pos += len(sep)
        t["s"], t["e"] = pos, pos + len(t["text"])
        pos = t["e"]
        parts.append(t["text"])
        prev = t
    return "".join(parts), toks


ALPHABET = ([{"k": "name", "v": v} for v in corpus.KEYWORDS + ["ident", "QUERY", "OBJECT"]] +
            [{"k": k, "v": ""} for k in list("!$()[]{}:=@|&") + ["...", "int", "float", "string", "blockstring"]])


def mutate(recs, rng):
    """One labelled single-token edit; returns (new_recs, label)."""
    recs = [dict(r) for r in recs]
    n = len(recs)
    op = rng.choice(["del", "ins", "rep", "swap", "strkw", "trunc", "dollar"] if n > 1 else ["ins", "rep", "strkw"])
    if op == "trunc":
        i = rng.randrange(1, n)
        return recs[:i], "trunc", i
    if op == "dollar":
        # a variable where the token was a name / scalar: valid only in non-const value positions (TLC decides)
        idx = [i for i, r in enumerate(recs) if r["k"] in ("name", "int", "string") and (i == 0 or recs[i - 1]["k"] != "$")]
        if idx:
            i = rng.choice(idx)
            old = recs[i]["v"] if recs[i]["k"] == "name" else recs[i]["k"]
            recs[i:i + 1] = [{"k": "$", "v": ""}, {"k": "name", "v": "ident"}]
            return recs, "dollar:%s" % old, i
        op = "rep"

    def kd(r):
        return r["v"] if r["k"] == "name" else r["k"]
    if op == "strkw":
        idx = [i for i, r in enumerate(recs) if r["k"] == "name" and r["v"] in corpus.KEYWORDS]
        if idx:
            i = rng.choice(idx)
            old = kd(recs[i])
            recs[i] = {"k": "string", "v": "", "text": '"%s"' % recs[i]["v"]}
            return recs, "strkw:%s" % old, i
        op = "rep"
    i = rng.randrange(n + 1 if op == "ins" else n)
    if op == "del":
        old = kd(recs[i])
        del recs[i]
        return recs, "del:%s" % old, i
    if op == "ins":
        new = dict(rng.choice(ALPHABET))
        recs.insert(i, new)
        return recs, "ins:%s" % kd(new), i
    if op == "rep":
        new = dict(rng.choice(ALPHABET))
        old = kd(recs[i])
        recs[i] = new
        return recs, "rep:%s->%s" % (old, kd(new)), i
    j = min(i + 1, n - 1)
    if i == j:
        i = j - 1
    recs[i], recs[j] = recs[j], recs[i]
    return recs, "swap:%s,%s" % (kd(recs[j]), kd(recs[i])), i


def tlc_judge(chk, traces, label, shards=None):
    """traces: list of dict(toks, ev, ce, start, ts, fv) -> set of accepted indices (0-based)."""
    if not traces:
        return set()
    shards = shards or min(par.NPROC, max(1, len(traces) // 400))
    parts = par.chunks(list(enumerate(traces)), shards)
    accepted = set()
    import concurrent.futures as cf
    cfg = tlc.cfg(invariants=["Acc"])

    def one(part):
        fd, path = tempfile.mkstemp(prefix="gt-", suffix=".json")
        with os.fdopen(fd, "w") as f:
            json.dump([t for _, t in part], f)
        try:
            w = max(1, par.NPROC // len(parts))
            r = chk.tlc("GqlGrammarTrace", cfg, env={"TRACE_FILE": path}, tags=["ACC"], workers=w, heap="3g",
                        label="%s (%d traces)" % (label, len(part)), cache=True)
            if r.rc != 0:
                raise tlc.TLCError("GqlGrammarTrace failed: %s\n%s" % (r.violated, r.tail))
            return {part[i - 1][0] for i in r.tagged("ACC")}
        finally:
            os.unlink(path)
    with cf.ThreadPoolExecutor(len(parts)) as ex:
        for s in ex.map(one, parts):
            accepted |= s
    return accepted


def _neg_worker(cases):
    out = {}
    n = 0
    for c in cases:
        text, recs, start, ts, fv, valid, label, ctx = c
        entry = entry_of(start)
        for src in (text, text.encode("utf8")):
            n += 1
            st, res = try_parse(entry, src, ts, fv, False)
            wit = {"text": text, "tokens": [r["v"] if r["k"] == "name" else r["k"] for r in recs], "start": start,
                   "ts": ts, "fv": fv, "tlc_valid": valid, "label": label}
            if valid and st == "err":
                why = lexgamma.check_syntax_error(res, text)
                out.setdefault(("C01", "parse/reject-valid/%s/%s/%s/%s" % (entry, flagstr(ts, fv), why or "syntax", ctx)),
                               ["parser rejects a token sequence the grammar derives", dict(wit, error=repr(res))])
            elif not valid and st == "ok":
                out.setdefault(("C01", "parse/accept-invalid/%s/%s/%s" % (entry, flagstr(ts, fv), ctx)),
                               ["parser accepts a token sequence the grammar does not derive", wit])
            elif not valid:
                why = lexgamma.check_syntax_error(res, text)
                if why:
                    out.setdefault(("C01", "parse/error-clause/%s/%s/%s" % (why, entry, ctx)),
                                   ["rejection violates a C01 clause: " + why, dict(wit, error=repr(res))])
    return out, n


def replay_judged(cases):
    res = par.pmap(_neg_worker, cases)
    div, n = {}, 0
    for out, k in res:
        n += k
        for key, v in out.items():
            div.setdefault(key, v)
    return n, div


# ---------------------------------------------------------------------------------------------
# R3 on repository fixtures: real lexer tokens + projected real AST judged by GqlGrammarTrace

def lex_records(text):
    from py_gql.lang.lexer import Lexer
    from py_gql.lang import token as T
    recs = []
    for tok in Lexer(text):
        c = tok.__class__
        if c in (T.SOF, T.EOF):
            continue
        if c is T.Name:
            v = tok.value
            recs.append({"k": "name", "v": v if v in corpus.KEYWORDS or v in corpus.DIRLOCS else "ident", "s": tok.start, "e": tok.end})
        elif c is T.Integer:
            recs.append({"k": "int", "v": "", "s": tok.start, "e": tok.end})
        elif c is T.Float:
            recs.append({"k": "float", "v": "", "s": tok.start, "e": tok.end})
        elif c is T.String:
            recs.append({"k": "string", "v": "", "s": tok.start, "e": tok.end})
        elif c is T.BlockString:
            recs.append({"k": "blockstring", "v": "", "s": tok.start, "e": tok.end})
        elif c is T.Ellip:
            recs.append({"k": "...", "v": "", "s": tok.start, "e": tok.end})
        else:
            recs.append({"k": tok.value, "v": "", "s": tok.start, "e": tok.end})
    return recs


def fixture_traces(repo):
    """-> list of (name, trace_without_events, trace_with_events)"""
    import glob
    from py_gql.lang import parse
    out = []
    for path in sorted(glob.glob(os.path.join(repo, "tests", "fixtures", "*.graphql"))):
        text = open(path, encoding="utf8").read()
        name = os.path.basename(path)
        try:
            doc = parse(text, allow_type_system=True)
        except Exception:
            continue
        units = [(name, text, doc)]
        if len(text) > 20000:
            units = []
            for i, d in enumerate(doc.definitions):
                sub = text[d.loc[0]:d.loc[1]]
                try:
                    units.append(("%s#%d" % (name, i), sub, parse(sub, allow_type_system=True)))
                except Exception as e:
                    out.append((name + "#%d" % i, None, repr(e)))
        for uname, utext, udoc in units:
            recs = lex_records(utext)
            if not recs:
                continue
            ev, pl, bad = astproj.project(udoc)
            evi = astproj.events_with_token_index(ev, recs, len(utext))
            toks = [{"k": r["k"], "v": r["v"]} for r in recs]
            base = {"toks": toks, "start": "Document", "ts": True, "fv": False}
            out.append((uname, dict(base, ev=[], ce=False, ck=False), dict(base, ev=evi, ce=True, ck=False)))
    return out
