"""C03 replay: parse -> print -> (re-lex, TLC-judged derivation) -> re-parse -> print, over the derivation corpus."""
import random

from . import astproj, corpus, langreplay, lexgamma, par

INDENTS_QUICK = [2, "\t"]
INDENTS_ALL = [0, 1, 2, 4, "\t", "  "]

# extra block-string sources whose VALUES stress the printer (leading blank, trailing quote / backslash, empty ...)
EXTRA_BLOCKS = [" a\\\n", " a\"\n", "a\"\n", "\\\"\"\"\n", "\na\\\n", "a\n  \nb", "\ta", " a\nb", "  lead\n", "x\\\"\"\"y",
                "\U0001F600", " ", "\n", "a\n\n b\n", "\u00a0x", "\u3000y z", "\u2003a\n\u2003b"]
EXTRA_STRINGS = [("\\u2028", "\u2028"), ("\x7f", "\x7f"), ("\\\"", '"'), ("a\\\\", "a\\"), ("\\u0000", "\x00"), ("\\u001F", "\x1f"), ("\\u000b", "\x0b"), ("\\u007f\\u0085", "\x7f\x85")]


def string_features(payloads):
    f = set()
    for kind, attrs in payloads:
        if kind != "StringValue":
            continue
        v = attrs.get("value")
        if not isinstance(v, str):
            continue
        b = "block" if attrs.get("block") else "str"
        if v == "":
            f.add(b + ":empty")
            continue
        if any(ord(c) > 0xffff for c in v):
            f.add(b + ":astral")
        if v[0] in " \t":
            f.add(b + ":lead-blank")
        if v.endswith('"'):
            f.add(b + ":trail-quote")
        if v.endswith("\\"):
            f.add(b + ":trail-bslash")
        if '"""' in v:
            f.add(b + ":triple-quote")
    return ",".join(sorted(f)) or "-"


def strip_tree(node, ignore_desc_block=False):
    """kinds events + payloads (optionally with the block flag of descriptions ignored)."""
    ev, pl, bad = astproj.project(node)
    kinds = [[e[0], e[1]] for e in ev]
    # identify description StringValues: a StringValue that is the first child of a *Definition node
    out_pl = []
    stack = []
    desc_idx = set()
    n_sv = 0
    idx = 0
    for tag, kind in kinds:
        if tag == "enter":
            if kind in astproj.SCALARS:
                if kind == "StringValue" and stack and stack[-1][0].endswith("Definition") and stack[-1][1] == 0:
                    desc_idx.add(idx)
                idx += 1
            if stack:
                stack[-1][1] += 1
            stack.append([kind, 0])
        else:
            stack.pop()
    for i, (kind, attrs) in enumerate(pl):
        if i in desc_idx and ignore_desc_block:
            attrs = dict(attrs, block="*")
        out_pl.append([kind, attrs])
    return kinds, out_pl


MEMBER_DEFS = ("FieldDefinition", "InputValueDefinition", "EnumValueDefinition")


def strip_member_descriptions(kinds, pl):
    """Remove the description StringValue of field / argument / input field / enum value definitions."""
    out_k, out_p = [], []
    stack = []
    pi = 0
    skip_leave = 0
    for tag, kind in kinds:
        if tag == "enter":
            drop = kind == "StringValue" and stack and stack[-1][0] in MEMBER_DEFS and stack[-1][1] == 0
            if stack:
                stack[-1][1] += 1
            stack.append([kind, 0, drop])
            if kind in astproj.SCALARS:
                if not drop:
                    out_p.append(pl[pi])
                pi += 1
            if not drop:
                out_k.append([tag, kind])
        else:
            k, _, drop = stack.pop()
            if not drop:
                out_k.append([tag, kind])
    return out_k, out_p


def first_diff_context(a, b):
    """first differing event with the kind of the enclosing node"""
    stack = []
    for i in range(max(len(a), len(b))):
        x = a[i] if i < len(a) else ["none", "none"]
        y = b[i] if i < len(b) else ["none", "none"]
        if x != y:
            return x, y, (stack[-1] if stack else "ROOT")
        if x[0] == "enter":
            stack.append(x[1])
        else:
            stack.pop()
    return None


def judge_item(item, text, tokens, indents, out, traces):
    from py_gql.lang.printer import ASTPrinter
    start, ts, fv = item["start"], item["ts"], item["fv"]
    entry = langreplay.entry_of(start)
    n = 0
    st, doc = langreplay.try_parse(entry, text, ts, fv, False)
    if st == "err":
        return 0  # C01's business
    kinds0_full, pl0_full = strip_tree(doc)
    kinds0, pl0 = kinds0_full, pl0_full
    feats = string_features(pl0)
    wit = {"text": text, "start": start, "ts": ts, "fv": fv}
    for ind in indents:
        n += 1
        w = dict(wit, indent=repr(ind))
        try:
            p1 = ASTPrinter(indent=ind)(doc)
            p1b = ASTPrinter(indent=ind)(doc)
        except Exception as e:
            out.setdefault(("C03", "print/raises/%s/%s" % (type(e).__name__, feats)), ["printer raises on a parser-produced tree", dict(w, error=repr(e))])
            continue
        if not isinstance(p1, str) or p1 != p1b:
            out.setdefault(("C03", "print/nondeterministic"), ["two prints of the same tree differ", w])
            continue
        # the public function is the same pure function of (tree, options), whatever was printed before with other options
        try:
            from py_gql.lang import print_ast
            pnd = ASTPrinter(indent=ind, include_descriptions=False)(doc)
            if len(text) % 2:
                f1 = print_ast(doc, indent=ind)
                nd1 = print_ast(doc, indent=ind, include_descriptions=False)
            else:
                nd1 = print_ast(doc, indent=ind, include_descriptions=False)
                f1 = print_ast(doc, indent=ind)
            f2 = print_ast(doc, indent=ind)
            nd2 = print_ast(doc, indent=ind, include_descriptions=False)
        except Exception as e:
            out.setdefault(("C03", "print/print_ast-raises/%s/%s" % (type(e).__name__, feats)), ["print_ast raises on a parser-produced tree", dict(w, error=repr(e))])
            continue
        if f1 != p1 or f2 != p1 or nd1 != nd2 or nd1 != pnd:
            out.setdefault(("C03", "print/print_ast-depends-on-earlier-calls/%s" % ("default" if (f1 != p1 or f2 != p1) else "no-descriptions")),
                           ["print_ast(tree, options) differs from the printer's text for the same options after a call with other options",
                            dict(w, first=f1, after_other_options=f2)])
            continue
        w["printed"] = p1
        st2, doc2 = langreplay.try_parse(entry, p1, ts, fv, False)
        if st2 == "err":
            out.setdefault(("C03", "print/reparse-rejected/%s" % feats), ["printed text is rejected by the parser", dict(w, error=repr(doc2))])
            continue
        kinds1, pl1 = strip_tree(doc2)
        kinds0, pl0 = kinds0_full, pl0_full
        if kinds1 != kinds0:
            x, y, parent = first_diff_context(kinds0, kinds1)
            out.setdefault(("C03", "print/tree-differs/in=%s/exp=%s:%s/got=%s:%s" % (parent, x[0], x[1], y[0], y[1])),
                           ["re-parsed tree differs from the original", w])
            # masking policy (DESIGN 7): if the only difference is dropped member descriptions, keep checking the rest
            kinds0, pl0 = strip_member_descriptions(kinds0_full, pl0_full)
            if kinds1 != kinds0:
                continue
        if pl1 != pl0:
            i = next(i for i in range(len(pl0)) if pl0[i] != pl1[i])
            attr = next(a for a in pl0[i][1] if pl0[i][1][a] != pl1[i][1].get(a))
            out.setdefault(("C03", "print/value-differs/%s.%s/%s" % (pl0[i][0], attr, string_features([pl0[i]]))),
                           ["re-parsed value differs from the original", dict(w, expected=repr(pl0[i]), got=repr(pl1[i]))])
            continue
        try:
            p2 = ASTPrinter(indent=ind)(doc2)
        except Exception as e:
            out.setdefault(("C03", "print/raises-on-reparsed/%s/%s" % (type(e).__name__, feats)), ["printer raises on the re-parsed tree", dict(w, error=repr(e))])
            continue
        if p2 != p1:
            out.setdefault(("C03", "print/not-idempotent/%s" % feats), ["printing the re-parsed tree gives a different text", dict(w, second=p2)])
            continue
        if traces is not None and ind == indents[0]:
            # B-stage: printed token sequence + original derivation kinds judged by GqlGrammarTrace (independent of the parser)
            try:
                recs = langreplay.lex_records(p1)
            except Exception:
                continue
            ev = [[t, k, 0] for t, k in kinds0]
            traces.append(({"toks": [{"k": r["k"], "v": r["v"]} for r in recs], "ev": ev, "ce": False, "ck": True,
                            "start": entry, "ts": ts, "fv": fv}, dict(w)))
    return n


def _worker(args):
    items, reps, seed, indents, want_traces = args
    rng = random.Random(seed)
    out = {}
    traces = [] if want_traces else None
    n = 0
    saved_b, saved_s = corpus.BLOCKS, corpus.STRINGS
    corpus.BLOCKS = saved_b + EXTRA_BLOCKS
    corpus.STRINGS = saved_s + EXTRA_STRINGS
    try:
        for item in items:
            for r in range(reps):
                text, tokens = corpus.render(item["toks"], rng, compact=(r == 0))
                n += judge_item(item, text, tokens, indents, out, traces if r == 0 else None)
    finally:
        corpus.BLOCKS, corpus.STRINGS = saved_b, saved_s
    return out, n, traces or []


def _shards(shards):
    merged, n, traces = {}, 0, []
    for a in shards:
        out, k, tr = _worker(a)
        n += k
        traces += tr
        for key, v in out.items():
            merged.setdefault(key, v)
    return merged, n, traces


def replay(items, reps, seed, indents, trace_sample):
    parts = par.chunks(items, par.NPROC * 2)
    res = par.pmap(_shards, [(p, reps, seed + 31 * i, indents, trace_sample) for i, p in enumerate(parts)])
    div, n, traces = {}, 0, []
    for out, k, tr in res:
        n += k
        traces += tr
        for key, v in out.items():
            div.setdefault(key, v)
    return n, div, traces
