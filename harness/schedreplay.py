"""Replay of spec/GqlSched.tla behaviours into the real executors/runtimes (C08, C09) with event recording (C16, C10).

gamma: plan -> (schema, query text, resolvers); deterministic runtimes:
  * ThreadPoolRuntime whose pool is replaced by FakePool: submit() queues the call, the harness completes it when the
    behaviour says so; done-callbacks (chain / gather_futures / unwrap_future) run synchronously inside complete().
  * AsyncIORuntime on a private event loop: deferred resolvers are coroutines awaiting a per-node gate future; the
    harness releases one gate per Complete(n) and drains the loop.
  * BlockingRuntime with Executor and BlockingExecutor for the all-synchronous projection of the plan.
pi: pending sets after every step, ordered response data, error (path) multiset, failure of the overall result."""
import asyncio
import threading
import warnings

import logging

logging.getLogger("concurrent.futures").setLevel(logging.CRITICAL)
logging.getLogger("asyncio").setLevel(logging.CRITICAL)  # "exception calling callback" is modelled, not logged
warnings.simplefilter("ignore", RuntimeWarning)  # "coroutine was never awaited" after a synchronous crash
from concurrent.futures import Future


class Crash(RuntimeError):
    pass


class StopCrash(StopIteration):
    """gamma crash = stopiteration: the unexpected exception is a StopIteration (e.g. a bare next() on an exhausted iterator).  Python
    itself re-raises it as RuntimeError when it leaves a coroutine or generator (PEP 479), with the original as __cause__: either form
    is the failure surfacing."""


CRASHES = (Crash, StopCrash)


def is_crash(exc):
    if isinstance(exc, CRASHES):
        return True
    return isinstance(exc, RuntimeError) and isinstance(exc.__cause__ or exc.__context__, StopCrash)


COMPOSITE = ("obj", "lobj")


def lobj_of(plan):
    """(L, N0): id of the list-of-objects node and the size of the table before Seal unfolded it, or None."""
    if "_lobj" not in plan:
        nodes = plan["nodes"]
        L = next((i for i, n in enumerate(nodes, 1) if n["out"] == "lobj"), None)
        plan["_lobj"] = (L, sum(1 for n in nodes if not n.get("item"))) if L else None
    return plan["_lobj"]


def node_id(info, plan=None):
    """Field instance a ResolveInfo belongs to: the field fN, or - below the second item of the list-of-objects node - its copy."""
    last = str(info.path[-1])
    if not (last[:1] == "f" and last[1:].isdigit()):
        return 0            # a meta field (__typename): not a field instance of the plan
    n = int(last[1:])
    lo = lobj_of(plan) if plan is not None else None
    if lo:
        L, n0 = lo
        path = list(info.path)
        key = "f%d" % L
        if key in path:
            j = path.index(key)
            if n != L and j + 1 < len(path) and path[j + 1] == 1:
                return n - L + n0
    return n


def build(plan):
    """plan: dict(op, nodes) -> (schema, query)"""
    from py_gql.schema import Argument, Field, Int, ListType, NonNullType, ObjectType, ScalarType, Schema
    nul = ScalarType("Nul", serialize=lambda v: None if v == "NULLME" else v, parse=lambda v: v)

    def boom_serialize(v):
        from py_gql.exc import ResolverError
        raise ResolverError("resolver error at %s" % v, extensions={"node": v})
    # gamma variant err = "completion": the resolver returns normally and the library's resolver error is raised while the VALUE IS
    # COMPLETED (a custom scalar's serialiser); the field error is the same: null at that position, one error with that path
    boom = ScalarType("Boom", serialize=boom_serialize, parse=lambda v: v)
    in_completion = (plan.get("variant") or {}).get("err") == "completion"
    nodes = plan["nodes"]
    kids = {}
    for i, n in enumerate(nodes, 1):
        if not n.get("item"):           # (the copies for the second list item are instances of the same fields)
            kids.setdefault(n["parent"], []).append(i)
    types = {}

    def type_of(i):
        n = nodes[i - 1]
        if n["out"] == "obj":
            return lambda i=i: types[i]
        if n["out"] == "lobj":
            return ListType(lambda i=i: types[i])
        if n["out"] == "lfail":
            # [TLn] with one field z whose resolver must never run (the list is never produced)
            def zres(root, ctx, info, _i=i):
                plan.setdefault("_z_invoked", []).append(_i)
                return 1
            return ListType(ObjectType("TL%d" % i, [Field("z", Int, resolver=zres)]))
        if n["out"] == "nullnn":
            return NonNullType(Int)
        if n["out"] == "sernull":
            return nul
        if n["out"] == "sernullnn":
            return NonNullType(nul)
        if n["out"] == "lval":
            return ListType(Int)
        if n["out"] == "lnn":
            return ListType(NonNullType(Int))
        if n["out"] == "err" and in_completion:
            return boom
        return Int

    def args_of(i):
        # argerr: `fN(x: Int! = 3)` selected as fN(x: $nv) with `$nv: Int = null`
        return [Argument("x", NonNullType(Int), default_value=3)] if nodes[i - 1]["out"] == "argerr" else []

    def fields_of(p):
        return lambda p=p: [Field("f%d" % i, type_of(i), args_of(i)) for i in kids.get(p, [])]
    for i, n in enumerate(nodes, 1):
        if n["out"] in COMPOSITE and not n.get("item"):
            types[i] = ObjectType("T%d" % i, fields_of(i))
    root = ObjectType("Root", fields_of(0))
    if plan["op"] == "mutation" and (plan.get("variant") or {}).get("root") == "shared":
        # gamma: ONE object type is the query root and the mutation root (schema { query: Root  mutation: Root }); what decides
        # how the top-level fields run is the operation's keyword
        schema = Schema(root, mutation_type=root)
    elif plan["op"] == "mutation":
        schema = Schema(ObjectType("Query", [Field("dummy", Int)]), mutation_type=root)
    else:
        schema = Schema(root)

    v = plan.get("variant") or {}

    def one(i):
        # gamma dirs: every field carries a directive that changes nothing (@include(if: true) / @skip(if: false))
        d = ("", " @include(if: true)", " @skip(if: false)")[(i % 2) + 1 if v.get("dirs") else 0]
        return "f%d%s%s%s" % (i, "(x: $nv)" if nodes[i - 1]["out"] == "argerr" else "", d, (" { %s }" % sel(i)) if nodes[i - 1]["out"] in COMPOSITE else " { z }" if nodes[i - 1]["out"] == "lfail" else "")

    def sel(p):
        parts = [one(i) for i in kids.get(p, [])]
        if p == 0 and tn_at(plan) is not None:
            # gamma tn: the meta field __typename written among the top-level fields (its place in the response is its place here)
            parts.insert(tn_at(plan), "__typename")
        return " ".join(parts)
    # gamma variants of the SAME abstract plan (CollectFields-equivalent documents)
    tops = kids.get(0, [])
    frags = []
    wrap = v.get("wrap", "none")
    if wrap == "inline":
        body = "... on Root { %s }" % sel(0)
    elif wrap == "inline-untyped":
        body = "... { %s }" % sel(0)
    elif wrap == "spread":
        body = "...Top"
        frags.append("fragment Top on Root { %s }" % sel(0))
    elif wrap == "split" and len(tops) > 1:
        body = "%s ...Rest" % one(tops[0])
        frags.append("fragment Rest on Root { %s }" % " ".join(one(i) for i in tops[1:]))
    else:
        body = sel(0)
    if v.get("dup") and tops:
        body += " ...Dup"
        frags.append("fragment Dup on Root { %s }" % one(tops[0]))
    head = plan["op"] + (" ($nv: Int = null)" if any(n["out"] == "argerr" for n in nodes) else "")
    query = "%s { %s }%s" % (head, body, "".join("\n" + f for f in frags))
    return schema, query, kids


def tn_at(plan):
    """Position of __typename among the top-level selections, or None (only in documents that select the root fields directly)."""
    v = plan.get("variant") or {}
    if v.get("tn") is None or v.get("wrap", "none") != "none" or v.get("dup"):
        return None
    tops = sum(1 for n in plan["nodes"] if n["parent"] == 0)
    return 1 + v["tn"] % tops         # never first: after at least one ordinary field


def argdef(plan):
    """gamma argdef: fields whose arguments fail coercion have NO resolver - the parent value is a dict holding a value for them
    and the library's default resolver would serve it (if it were called: the failed coercion comes first)."""
    v = plan.get("variant") or {}
    return bool(v.get("argdef")) and v.get("style", "resolver") != "method"


def _argerr_kids(plan, n):
    return {"f%d" % i: 99 for i, x in enumerate(plan["nodes"], 1) if x["parent"] == n and x["out"] == "argerr" and not x.get("item")}


def behave(plan, n):
    from py_gql.exc import ResolverError
    out = plan["nodes"][n - 1]["out"]
    if out in ("val", "argerr"):      # (argerr: only reached when the implementation wrongly invokes the resolver)
        return n
    if out in ("null", "nullnn"):
        return None
    if out in ("sernull", "sernullnn"):
        return "NULLME"
    if out == "lfail":
        def produce():
            yield {"z": 1}
            yield {"z": 2}
            raise ResolverError("resolver error at %d" % n, extensions={"node": n})
        return produce()
    if out == "lval":
        return [n, None, n]
    if out == "lnn":
        return [n, None]
    extra = _argerr_kids(plan, plan["nodes"][n - 1].get("of") or n) if argdef(plan) else {}
    if out == "obj":
        return dict(extra, __node__=n)
    if out == "lobj":
        return [dict(extra, __node__=n, item=0), dict(extra, __node__=n, item=1)]
    if out == "err":
        if (plan.get("variant") or {}).get("err") == "completion":
            return n
        if (plan.get("variant") or {}).get("err") == "shared":
            # gamma: every failing resolver of the request raises the SAME exception object (e.g. a module level constant)
            if "_shared_err" not in plan:
                plan["_shared_err"] = ResolverError("shared resolver error")
            raise plan["_shared_err"]
        kind = (plan.get("variant") or {}).get("err", "fresh")
        if kind == "subclass":
            class AppError(ResolverError):       # applications define their own resolver errors
                pass
            raise AppError("resolver error at %d" % n, extensions={"node": n})
        if kind == "empty":
            raise ResolverError("")          # an error without text is still an error entry with a string message
        if kind == "proxy":
            import types
            raise ResolverError("resolver error at %d" % n, extensions=types.MappingProxyType({"node": n}))   # a Mapping that is not a dict
        raise ResolverError("resolver error at %d" % n, extensions={"node": n})
    # gamma: the class of the unexpected exception - a plain RuntimeError, one of the library's own located errors that is NOT a
    # ResolverError (e.g. what EnumType.get_value raises), or a built-in IndexError (which a careless `except IndexError` swallows)
    kind = (plan.get("variant") or {}).get("crash", "runtime")
    if kind == "stopiteration":
        raise StopCrash("crash at %d" % n)
    if kind == "located":
        from py_gql.exc import UnknownEnumValue

        class LocatedCrash(UnknownEnumValue, Crash):
            pass
        raise LocatedCrash("crash at %d" % n)
    if kind == "index":
        class IndexCrash(Crash, IndexError):
            pass
        raise IndexCrash("crash at %d" % n)
    raise Crash("crash at %d" % n)


def set_resolvers(schema, plan, kids, make):
    """make(n) -> resolver callable for node n.  Returns the root value: with variant style=method the top-level fields
    have NO explicit resolver and are served by methods of the root object through the default resolver."""
    style = (plan.get("variant") or {}).get("style", "resolver")
    plan.pop("_shared_err", None)     # one shared error object per run
    plan.pop("_z_invoked", None)
    root = None
    if style == "method":
        class RootObj:
            pass
        root = RootObj()

    def visit(t, p):
        for i in kids.get(p, []):
            f = t.field_map["f%d" % i]
            r = make(i)
            if plan["nodes"][i - 1]["out"] == "argerr":
                # the field declares `x: Int! = 3`; its resolver must never run (argument coercion fails first)
                r = (lambda root, ctx, info, x=None, _r=r: _r(root, ctx, info))
                if argdef(plan):
                    continue        # no resolver of its own: the parent dict holds a value the default resolver would return
            if p == 0 and root is not None:
                setattr(root, "f%d" % i, (lambda ctx, info, _r=r, **kw: _r(root, ctx, info, **kw)))
            else:
                f.resolver = r
            if plan["nodes"][i - 1]["out"] in COMPOSITE:
                visit(schema.get_type("T%d" % i), i)
    visit(schema.mutation_type if plan["op"] == "mutation" else schema.query_type, 0)
    if root is None and argdef(plan):
        root = _argerr_kids(plan, 0) or None
    return root


def expected_data(plan, data):
    def name(i):
        return "f%d" % (plan["nodes"][i - 1].get("of") or i)

    def conv(v, i):
        i = plan["nodes"][i - 1].get("of") or i         # (a copy is served by the resolver of the instance it copies)
        if v["k"] == "val":
            return i
        if v["k"] == "null":
            return None
        if v["k"] == "lval":
            return [i, None, i]
        if v["k"] == "lnn":
            return [i, None]
        if v["k"] == "obj":
            return [[name(k["id"]), conv(k["v"], k["id"])] for k in v["kids"]]
        if v["k"] == "lobj":
            return [[[name(k["id"]), conv(k["v"], k["id"])] for k in v["kids"] if k["item"] == item] for item in (0, 1)]
        return "CRASH"
    out = [[name(t["id"]), conv(t["v"], t["id"])] for t in data]
    if tn_at(plan) is not None:
        out.insert(tn_at(plan), ["__typename", "Root"])
    return out


def expected_errors(plan, errs):
    out = []
    for n in errs:
        path = []
        i = n
        while i:
            nd = plan["nodes"][i - 1]
            path.append("f%d" % (nd.get("of") or i))
            if nd["parent"] and plan["nodes"][nd["parent"] - 1]["out"] == "lobj":
                path.append(nd.get("item", 0))          # (reversed below: the item index follows the list field's key)
            i = nd["parent"]
        path = list(reversed(path))
        if plan["nodes"][n - 1]["out"] == "lnn":
            path.append(1)
        out.append(tuple(path))
    return sorted(out, key=repr)


def project_result(res):
    def conv(v):
        if isinstance(v, dict):
            return [[k, conv(x)] for k, x in v.items()]
        if isinstance(v, list):
            return [conv(x) for x in v]
        return v
    data = conv(res.data) if res.data is not None else None
    errs = sorted((tuple(e.path) if getattr(e, "path", None) is not None else ("<nopath>",) for e in (res.errors or [])), key=repr)
    return data, errs


# ---------------------------------------------------------------------------------------------------------------
class Recorder:
    """Instrumentation + middleware + resolver event recorder (C16), one shared log with a sequence lock."""

    def __init__(self, ninstr, nmw):
        self.log = []
        self.lock = threading.Lock()
        self.ninstr = ninstr
        self.nmw = nmw

    def emit(self, **ev):
        with self.lock:
            self.log.append(ev)

    def instrumentation(self, extra=()):
        """extra: further Instrumentation objects stacked AFTER the recording ones (they emit no events of their own)."""
        from py_gql.execution import Instrumentation, MultiInstrumentation
        rec = self

        class I(Instrumentation):
            def __init__(self, i):
                self.i = i

            def on_query_start(self):
                rec.emit(e="qs", i=self.i)

            def on_query_end(self):
                rec.emit(e="qe", i=self.i)

            def on_parsing_start(self):
                rec.emit(e="ps", i=self.i)

            def on_parsing_end(self):
                rec.emit(e="pe", i=self.i)

            def on_validation_start(self):
                rec.emit(e="vs", i=self.i)

            def on_validation_end(self):
                rec.emit(e="ve", i=self.i)

            def on_execution_start(self):
                rec.emit(e="es", i=self.i)

            def on_execution_end(self):
                rec.emit(e="ee", i=self.i)

            def on_field_start(self, root, context, info):
                rec.emit(e="fs", i=self.i, p="/".join(map(str, info.path)))

            def on_field_end(self, root, context, info):
                rec.emit(e="fe", i=self.i, p="/".join(map(str, info.path)))
        class Group(MultiInstrumentation):
            """A stack that is itself an instrumentation: its own start hooks run before its members', its own end hooks after
            them, so MultiInstrumentation(I(1), Group(2, I(3))) is observably the flat stack 1, 2, 3."""

            def __init__(self, i, *members):
                super().__init__(*members)
                self.i = i
        for hook, code in (("on_query", "q"), ("on_parsing", "p"), ("on_validation", "v"), ("on_execution", "e")):
            def start(self, _c=code, _h=hook):
                rec.emit(e=_c + "s", i=self.i)
                getattr(MultiInstrumentation, _h + "_start")(self)

            def end(self, _c=code, _h=hook):
                getattr(MultiInstrumentation, _h + "_end")(self)
                rec.emit(e=_c + "e", i=self.i)
            setattr(Group, hook + "_start", start)
            setattr(Group, hook + "_end", end)

        def field_start(self, root, context, info):
            rec.emit(e="fs", i=self.i, p="/".join(map(str, info.path)))
            MultiInstrumentation.on_field_start(self, root, context, info)

        def field_end(self, root, context, info):
            MultiInstrumentation.on_field_end(self, root, context, info)
            rec.emit(e="fe", i=self.i, p="/".join(map(str, info.path)))
        Group.on_field_start, Group.on_field_end = field_start, field_end
        if self.ninstr >= 3:
            stack = [I(i) for i in range(1, self.ninstr - 1)] + [Group(self.ninstr - 1, I(self.ninstr))]
        else:
            stack = [I(i) for i in range(1, self.ninstr + 1)]
        if extra:
            return MultiInstrumentation(*(stack + list(extra)))
        if self.ninstr == 0:
            return None
        if self.ninstr == 1:
            return I(1)
        return MultiInstrumentation(*stack)

    def middlewares(self):
        rec = self

        def make(m):
            def mw(next_, root, ctx, info, **kw):
                p = "/".join(map(str, info.path))
                rec.emit(e="mwin", m=m, p=p)
                if m == 1 and info.field_definition.name.startswith("__"):
                    rec.emit(e="res", p=p)      # meta fields have built-in resolvers: the innermost middleware calling on stands for it
                try:
                    return next_(root, ctx, info, **kw)
                finally:
                    rec.emit(e="mwout", m=m, p=p)
            return mw
        return [make(m) for m in range(1, self.nmw + 1)] or None


# ---------------------------------------------------------------------------------------------------------------
class FakePool:
    def __init__(self, plan, rec):
        self.plan = plan
        self.q = {}
        self.rec = rec
        self.submitted = []

    def submit(self, fn, *a, **kw):
        f = Future()
        n = node_id(a[2], self.plan)
        if n:
            self.submitted.append(n)
        if n == 0 or self.plan["nodes"][n - 1]["mode"] == "sync":
            self._run(f, fn, a, kw)
        else:
            self.q[n] = (f, fn, a, kw)
        return f

    def _run(self, f, fn, a, kw):
        try:
            r = fn(*a, **kw)
        except BaseException as e:
            f.set_exception(e)
        else:
            f.set_result(r)

    def complete(self, n):
        self._run(*self.q[n])

    def pending(self):
        return sorted(n for n, t in self.q.items() if not t[0].done())

    def shutdown(self, *a, **kw):
        pass


# ---------------------------------------------------------------------------------------------------------------
class Deferred:
    """Wrapper type of the application-defined runtime below: neither an awaitable nor a concurrent.futures.Future."""

    def __init__(self):
        self._done = False
        self._value = None
        self._error = None
        self._callbacks = []

    def done(self):
        return self._done

    def _settle(self, value, error):
        if self._done:
            raise RuntimeError("Deferred settled twice")
        self._done, self._value, self._error = True, value, error
        cbs, self._callbacks = self._callbacks, []
        for cb in cbs:
            cb(self)

    def set_result(self, value):
        self._settle(value, None)

    def set_exception(self, error):
        self._settle(None, error)

    def exception(self):
        return self._error

    def result(self):
        if not self._done:
            raise RuntimeError("Deferred is pending")
        if self._error is not None:
            raise self._error
        return self._value

    def add_done_callback(self, cb):
        if self._done:
            cb(self)
        else:
            self._callbacks.append(cb)


def _make_custom_runtime(plan, submitted):
    """A Runtime written against the public abstract base class only (the documented extension point), semantically the thread
    pool runtime with Deferred instead of Future: wrapped resolvers of deferred plan nodes are queued by node id and completed by
    the replay in the order the specification chooses; callbacks run synchronously inside complete()."""
    from py_gql.execution.runtime import Runtime

    def is_d(v):
        return isinstance(v, Deferred)

    class DeferredRuntime(Runtime):
        def __init__(self):
            self.q = {}

        def _run(self, d, fn, a, kw):
            try:
                r = fn(*a, **kw)
            except BaseException as e:
                d.set_exception(e)
            else:
                d.set_result(r)

        def submit(self, fn, *a, **kw):
            d = Deferred()
            n = node_id(a[2], plan)
            if n:
                submitted.append(n)
            if n == 0 or plan["nodes"][n - 1]["mode"] == "sync":
                self._run(d, fn, a, kw)
            else:
                self.q[n] = (d, fn, a, kw)
            return d

        def complete(self, n):
            self._run(*self.q[n])

        def pending(self):
            return sorted(n for n, t in self.q.items() if not t[0].done())

        def wrap_callable(self, func):
            return lambda *a, **kw: self.submit(func, *a, **kw)

        def ensure_wrapped(self, value):
            if is_d(value):
                return value
            d = Deferred()
            d.set_result(value)
            return d

        def map_value(self, value, then, else_=None):
            def call(get):
                try:
                    return then(get())
                except Exception as err:
                    if else_ is not None and isinstance(err, else_[0]):
                        return else_[1](err)
                    raise
            if not is_d(value):
                return call(lambda: value)
            out = Deferred()

            def cb(d):
                try:
                    r = call(d.result)
                except Exception as err:
                    out.set_exception(err)
                else:
                    out.set_result(r)
            value.add_done_callback(cb)
            return out

        def gather_values(self, values):
            values = list(values)
            waiting = [v for v in values if is_d(v)]
            if not waiting:
                return values
            out = Deferred()
            left = [len(waiting)]

            def cb(d):
                if out.done():
                    return
                if d.exception() is not None:
                    out.set_exception(d.exception())
                    return
                left[0] -= 1
                if not left[0]:
                    out.set_result([v.result() if is_d(v) else v for v in values])
            for w in waiting:
                w.add_done_callback(cb)
            return out

        def unwrap_value(self, value):
            if not is_d(value):
                return value
            out = Deferred()

            def cb(d):
                if d.exception() is not None:
                    out.set_exception(d.exception())
                elif is_d(d.result()):
                    d.result().add_done_callback(cb)
                else:
                    out.set_result(d.result())
            value.add_done_callback(cb)
            return out
    return DeferredRuntime()


def run_custom(plan, beh, rec):
    """Generic executor on an application-defined runtime (public Runtime ABC, own wrapper type)."""
    from py_gql import process_graphql_query
    schema, query, kids = build(plan)
    submitted = []
    rt = _make_custom_runtime(plan, submitted)
    method_style = (plan.get("variant") or {}).get("style") == "method"

    def make(n):
        def res(root, ctx, info):
            if rec:
                rec.emit(e="res", p="/".join(map(str, info.path)))
            return behave(plan, n)
        if method_style and plan["nodes"][n - 1]["parent"] == 0:
            def meth(root, ctx, info):
                return info.runtime.submit(res, root, ctx, info)
            return meth
        return res
    rootv = set_resolvers(schema, plan, kids, make)
    kw = {}
    if rec:
        kw = {"instrumentation": rec.instrumentation(), "middlewares": rec.middlewares()}
    try:
        fut = process_graphql_query(schema, query, runtime=rt, root=rootv, **kw)
    except CRASHES as e:
        fut = Deferred()
        fut.set_exception(e)
    except Exception as e:
        if not is_crash(e):
            return [("custom-runtime/raises/%s" % type(e).__name__, repr(e))], None
        fut = Deferred()
        fut.set_exception(e)
    if not isinstance(fut, Deferred):
        return [("custom-runtime/result-not-wrapped", repr(type(fut)))], None
    return _follow(plan, beh, fut, rt.pending, rt.complete, lambda: None, "custom-runtime", lambda: submitted), fut


class Divergence(Exception):
    def __init__(self, key, detail):
        self.key = key
        self.detail = detail


def run_pool(plan, beh, rec):
    """Executor on ThreadPoolRuntime with the fake pool; returns list of (key, detail) divergences."""
    from py_gql import process_graphql_query
    from py_gql.execution.runtime import ThreadPoolRuntime
    schema, query, kids = build(plan)
    invoked = []

    method_style = (plan.get("variant") or {}).get("style") == "method"
    pool_box = []

    def make(n):
        def res(root, ctx, info):
            invoked.append(node_id(info, plan))
            if rec:
                rec.emit(e="res", p="/".join(map(str, info.path)))
            return behave(plan, n)
        if method_style and plan["nodes"][n - 1]["parent"] == 0:
            # served by a root-object method through the default resolver: it defers by submitting to the runtime itself
            def meth(root, ctx, info):
                return info.runtime.submit(res, root, ctx, info)
            return meth
        return res
    rootv = set_resolvers(schema, plan, kids, make)
    rt = ThreadPoolRuntime(max_workers=1)
    rt._inner.shutdown()
    pool = FakePool(plan, rec)
    rt._inner = pool
    kw = {}
    if rec:
        kw = {"instrumentation": rec.instrumentation(), "middlewares": rec.middlewares()}
    div = []
    try:
        fut = process_graphql_query(schema, query, runtime=rt, root=rootv, **kw)
    except CRASHES as e:
        fut = Future()
        fut.set_exception(e)
    except Exception as e:
        if not is_crash(e):
            return [("pool/raises/%s" % type(e).__name__, repr(e))], None
        fut = Future()
        fut.set_exception(e)
    if not isinstance(fut, Future):
        return [("pool/result-not-a-future", repr(type(fut)))], None
    div += _follow(plan, beh, fut, pool.pending, pool.complete, lambda: None, "pool", lambda: pool.submitted)
    return div, fut


def _follow(plan, beh, fut, pending, complete, settle, tag, started):
    """Common step-by-step comparison.  fut: concurrent Future-like with done()/exception()/result()."""
    div = []
    settle()
    failed_at_begin = beh["failed"] and not beh["steps"]
    if not failed_at_begin and pending() != beh["init"]:
        return [("%s/pending-after-begin" % tag, {"expected": beh["init"], "got": pending(), "op": plan["op"]})]
    for k, step in enumerate(beh["steps"]):
        n = step["n"]
        if n not in pending():
            return div + [("%s/node-not-pending" % tag, {"node": n, "pending": pending(), "step": k})]
        complete(n)
        settle()
        if step["failed"]:
            break
        if pending() != step["pending"]:
            return div + [("%s/pending-after-step/%s" % (tag, plan["op"]), {"step": k, "node": n, "expected": step["pending"], "got": pending()})]
        if fut.done() and step["pending"]:
            return div + [("%s/result-ready-while-pending" % tag, {"step": k})]
    # invocation order of the started nodes (C09): compare when the run did not fail
    if not beh["failed"]:
        inv = started()
        if inv is not None and inv != beh["inv"]:
            div.append(("%s/invocation-order/%s" % (tag, plan["op"]), {"expected": beh["inv"], "got": inv}))
    if not fut.done():
        return div + [("%s/result-left-pending/%s" % (tag, "crash" if beh["failed"] else "ok"), {"pending": pending()})]
    exc = fut.exception()
    if beh["failed"]:
        if exc is None:
            div.append(("%s/crash-lost" % tag, {"result": repr(fut.result())}))
        elif not is_crash(exc):
            div.append(("%s/crash-replaced/%s" % (tag, type(exc).__name__), repr(exc)))
        return div
    if exc is not None:
        return div + [("%s/unexpected-failure/%s" % (tag, type(exc).__name__), repr(exc))]
    data, errs = project_result(fut.result())
    xd, xe = expected_data(plan, beh["data"]), expected_errors(plan, beh["errs"])
    if data != xd:
        div.append(("%s/data" % tag, {"expected": xd, "got": data}))
    if errs != xe:
        div.append(("%s/errors" % tag, {"expected": xe, "got": errs}))
    return div + z_check(plan, tag)


def z_check(plan, tag):
    """No object of a list whose production failed is ever completed (lfail)."""
    if plan.get("_z_invoked"):
        return [("%s/item-of-a-list-that-could-not-be-produced-was-completed/%s" % (tag, plan["op"]), {"fields": sorted(set(plan["_z_invoked"]))})]
    return []


class _TaskFuture:
    def __init__(self, task):
        self.task = task

    def done(self):
        return self.task.done()

    def exception(self):
        return self.task.exception()

    def result(self):
        return self.task.result()


def run_asyncio(plan, beh, rec):
    from py_gql import process_graphql_query
    from py_gql.execution.runtime import AsyncIORuntime
    schema, query, kids = build(plan)
    loop = asyncio.new_event_loop()
    gates = {}
    started = []
    try:
        def make(n):
            if plan["nodes"][n - 1]["mode"] == "sync":
                def res(root, ctx, info):
                    started.append(node_id(info, plan))
                    if rec:
                        rec.emit(e="res", p="/".join(map(str, info.path)))
                    return behave(plan, n)
                return res

            async def ares(root, ctx, info):
                g = gates[node_id(info, plan)] = loop.create_future()
                await g
                if rec:
                    rec.emit(e="res", p="/".join(map(str, info.path)))
                return behave(plan, n)

            def outer(root, ctx, info):
                started.append(node_id(info, plan))
                return ares(root, ctx, info)
            return outer
        rootv = set_resolvers(schema, plan, kids, make)
        rt = AsyncIORuntime(loop=loop, execute_blocking_functions_in_thread=False)
        kw = {}
        if rec:
            kw = {"instrumentation": rec.instrumentation(), "middlewares": rec.middlewares()}

        async def main():
            return await process_graphql_query(schema, query, runtime=rt, root=rootv, **kw)
        task = loop.create_task(main())

        def settle():
            # drain every ready callback; there are no timers and no I/O, so an empty ready queue means quiescence
            for _ in range(200):
                loop.run_until_complete(asyncio.sleep(0))
                if not loop._ready:
                    break

        def pending():
            return sorted(n for n, g in gates.items() if not g.done())

        def complete(n):
            gates[n].set_result(None)
        div = _follow(plan, beh, _TaskFuture(task), pending, complete, settle, "asyncio", lambda: list(started))
        if not task.done():
            task.cancel()
            try:
                loop.run_until_complete(task)
            except BaseException:
                pass
        return div, task
    finally:
        try:
            loop.run_until_complete(loop.shutdown_asyncgens())
        finally:
            loop.close()


def run_blocking(plan, beh, rec, executor):
    """All-synchronous projection on the BlockingRuntime with Executor or BlockingExecutor."""
    from py_gql import graphql_blocking, process_graphql_query
    schema, query, kids = build(plan)
    invoked = []

    def make(n):
        def res(root, ctx, info):
            invoked.append(node_id(info, plan))
            if rec:
                rec.emit(e="res", p="/".join(map(str, info.path)))
            return behave(plan, n)
        return res
    rootv = set_resolvers(schema, plan, kids, make)
    kw = {}
    if rec:
        kw = {"instrumentation": rec.instrumentation(), "middlewares": rec.middlewares()}
    tag = "blocking-" + executor
    crashes = _reachable_crash(plan)
    try:
        if executor == "optimised":
            res = graphql_blocking(schema, query, root=rootv, **kw)
        else:
            res = process_graphql_query(schema, query, root=rootv, **kw)
    except CRASHES:
        return ([] if crashes else [("%s/spurious-crash" % tag, "")]), invoked
    except Exception as e:
        if crashes and is_crash(e):      # (a StopIteration that left a generator / coroutine: RuntimeError with the crash as its cause)
            return [], invoked
        return [("%s/raises/%s" % (tag, type(e).__name__), repr(e))], invoked
    if crashes:
        return [("%s/crash-lost" % tag, "")], invoked
    div = []
    data, errs = project_result(res)
    xd, xe = expected_data(plan, beh["data"]), expected_errors(plan, beh["errs"])
    if data != xd:
        div.append(("%s/data" % tag, {"expected": xd, "got": data}))
    if errs != xe:
        div.append(("%s/errors" % tag, {"expected": xe, "got": errs}))
    return div + z_check(plan, tag), invoked


def _reachable_crash(plan):
    nodes = plan["nodes"]
    for i, n in enumerate(nodes, 1):
        if n["out"] != "crash":
            continue
        p = n["parent"]
        ok = True
        while p:
            if nodes[p - 1]["out"] not in COMPOSITE:
                ok = False
                break
            p = nodes[p - 1]["parent"]
        if ok:
            return True
    return False


# ---------------------------------------------------------------------------------------------------------------
# R3-lite: the same plans on the REAL runtimes (worker threads, default event loop executor); only the final,
# schedule-independent result is compared with the specification's reference.

def _work(plan, n, delay, *, token=None):
    import time
    assert token == ("tok", n), "keyword arguments must reach submitted functions"
    time.sleep(delay)
    return behave(plan, n)


def run_real(plan, beh, rng, which):
    import time
    from py_gql import process_graphql_query
    from py_gql.execution.runtime import AsyncIORuntime, ThreadPoolRuntime
    schema, query, kids = build(plan)

    def make(n):
        mode = plan["nodes"][n - 1]["mode"]
        delay = rng.random() * 0.003

        def res(root, ctx, info):
            if mode == "def" and n % 2 == 1:
                # a resolver that offloads its work explicitly through the runtime, with keyword arguments
                return info.runtime.submit(_work, plan, n, delay, token=("tok", n))
            if mode == "def":
                time.sleep(delay)
            return behave(plan, n)

        async def ares(root, ctx, info):
            await asyncio.sleep(delay)
            return behave(plan, n)
        if which == "asyncio" and mode == "def" and n % 2 == 0:
            return ares
        return res
    rootv = set_resolvers(schema, plan, kids, make)
    tag = "real-" + which
    crashes = _reachable_crash(plan)
    try:
        if which == "pool":
            rt = ThreadPoolRuntime(max_workers=4)
            try:
                fut = process_graphql_query(schema, query, runtime=rt, root=rootv)
                try:
                    res = fut.result(timeout=90)
                except TimeoutError:
                    return [("%s/timeout/%s" % (tag, "crash" if crashes else "ok"), "result not ready after 90 s")]
            finally:
                rt._inner.shutdown(wait=False)
        else:
            loop = asyncio.new_event_loop()
            try:
                rt = AsyncIORuntime(loop=loop)

                async def main():
                    return await asyncio.wait_for(process_graphql_query(schema, query, runtime=rt, root=rootv), 90)
                try:
                    res = loop.run_until_complete(main())
                except asyncio.TimeoutError:
                    return [("%s/timeout/%s" % (tag, "crash" if crashes else "ok"), "result not ready after 90 s")]
            finally:
                loop.run_until_complete(loop.shutdown_default_executor())
                loop.close()
    except CRASHES:
        return [] if crashes else [("%s/spurious-crash" % tag, "")]
    except Exception as e:
        if crashes and is_crash(e):
            return []
        return [("%s/raises/%s" % (tag, type(e).__name__), repr(e))]
    if crashes:
        return [("%s/crash-lost" % tag, "")]
    div = []
    data, errs = project_result(res)
    xd, xe = expected_data(plan, beh["data"]), expected_errors(plan, beh["errs"])
    if data != xd:
        div.append(("%s/data" % tag, {"expected": xd, "got": data}))
    if errs != xe:
        div.append(("%s/errors" % tag, {"expected": xe, "got": errs}))
    return div + z_check(plan, tag)
