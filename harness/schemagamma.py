"""gamma / pi between AbstractSchema values (TLA+ records, see spec/GqlTypes conventions) and py_gql.schema objects.

AbstractSchema = [query, mutation, subscription, types (seq of type records), directives (seq)]
  type record  = [k in object|interface|union|enum|input|scalar, name, ifaces, fields, members, values]  (absent keys = empty)
  output field = [name, type, args, dep]      argument / input field = [name, type, hasDef, def]
  type ref     = [k |-> "named", n] | [k |-> "list", of] | [k |-> "nn", of]
  PyValue      = [k |-> null|int|str|bool|enumv|list|dict ...]
gamma_1 = render_sdl (text), gamma_2 = realize (code-built), pi = project (by walking Schema.types by name, with an identity
report: for every type reference, whether it IS the object registered under its name)."""

BUILTIN_NAMES = ("Int", "Float", "String", "Boolean", "ID")
INT_ATOMS = {"MININT": -2147483648, "MAXINT": 2147483647}
ASTRAL = 'a"q\\ \U0001F600 \u00e9'


def pyval(x):
    """Internal (Python) value of an enum member: digit strings stand for ints."""
    return int(x) if isinstance(x, str) and x.isdigit() else x


def pv(v):
    k = v["k"]
    if k == "enumv":
        return pyval(v["v"])
    if k == "null":
        return None
    if k == "int":
        return INT_ATOMS[v["v"]] if v["v"] in INT_ATOMS else int(v["v"])
    if k in ("str", "enumv"):
        return ASTRAL if v["v"] == "ASTRAL" else v["v"]
    if k == "bool":
        return bool(v["v"])
    if k == "float":
        return float(v["v"])
    if k == "list":
        return [pv(x) for x in v["vs"]]
    if k == "dict":
        return {f["key"]: pv(f["val"]) for f in v["fs"]}
    raise ValueError(k)


def realize(a, resolvers=None, extra=None, subclassed=False):
    """Code-built schema (so that invalid schemas can exist).  resolvers: optional {(type, field): callable}.
    subclassed=True: every type is an instance of a (behaviour-less) SUBCLASS of the library's type class, the documented way of
    attaching application data or behaviour to types; nothing the library does with a schema may depend on the exact class."""
    from py_gql.schema import (ID, Argument, Boolean, Directive, EnumType, EnumValue, Field, Float, InputField, InputObjectType, Int,
                               InterfaceType, ListType, NonNullType, ObjectType, ScalarType, Schema, String, UnionType)
    if subclassed:
        ScalarType = type("AppScalarType", (ScalarType,), {})
        EnumType = type("AppEnumType", (EnumType,), {})
        InputObjectType = type("AppInputObjectType", (InputObjectType,), {})
        ObjectType = type("AppObjectType", (ObjectType,), {})
        InterfaceType = type("AppInterfaceType", (InterfaceType,), {})
        UnionType = type("AppUnionType", (UnionType,), {})
    builtin = {"Int": Int, "Float": Float, "String": String, "Boolean": Boolean, "ID": ID}
    reg = {}
    resolvers = resolvers or {}

    def ref(t):
        if t["k"] == "named":
            n = t["n"]
            if n in builtin:
                return builtin[n]
            return lambda: reg[n]
        inner = ref(t["of"])
        return (ListType if t["k"] == "list" else NonNullType)(inner)

    def args(lst):
        return [Argument(x["name"], ref(x["type"]), **({"default_value": pv(x["def"])} if x.get("hasDef") else {})) for x in lst or []]
    for t in a["types"]:
        k, n = t["k"], t["name"]
        if k == "scalar":
            reg[n] = ScalarType(n, serialize=lambda v: v, parse=lambda v: v)
        elif k == "enum":
            reg[n] = EnumType(n, [EnumValue(v["name"], deprecation_reason=("" if v.get("dep") == "EMPTY" else (v.get("dep") or None)), **({"value": pyval(v["py"])} if v.get("py") else {}))
                                  for v in t.get("values", [])])
        elif k == "input":
            reg[n] = InputObjectType(n, (lambda t=t: [InputField(f["name"], ref(f["type"]), **({"default_value": pv(f["def"])} if f.get("hasDef") else {}))
                                                     for f in t.get("fields", [])]))
        elif k in ("object", "interface"):
            def mk(t=t):
                return [Field(f["name"], ref(f["type"]), args(f.get("args")), deprecation_reason=(ASTRAL if f.get("dep") == "ASTRAL" else "" if f.get("dep") == "EMPTY" else (f.get("dep") or None)),
                              resolver=resolvers.get((t["name"], f["name"]))) for f in t.get("fields", [])]
            if k == "object":
                reg[n] = ObjectType(n, mk, interfaces=(lambda t=t: [reg[i] for i in t.get("ifaces", [])]))
            else:
                reg[n] = InterfaceType(n, mk)
        elif k == "union":
            reg[n] = UnionType(n, (lambda t=t: [reg[m] for m in t.get("members", [])]))
    dirs = [Directive(d["name"], list(d["locs"]), args(d.get("args"))) for d in a.get("directives", [])]

    def g(n):
        return reg.get(n) if n else None
    return Schema(g(a.get("query")), g(a.get("mutation")), g(a.get("subscription")), directives=dirs, types=list(reg.values()))


def tref(t):
    from py_gql.schema import ListType, NonNullType
    if isinstance(t, ListType):
        return {"k": "list", "of": tref(t.type)}
    if isinstance(t, NonNullType):
        return {"k": "nn", "of": tref(t.type)}
    return {"k": "named", "n": t.name}


def canon_default(value, t):
    """Defaults are compared as GraphQL values: enum internal values are mapped back to their names."""
    from py_gql.schema import EnumType, InputObjectType, ListType, NonNullType
    if isinstance(t, NonNullType):
        return canon_default(value, t.type)
    if value is None:
        return None
    if isinstance(t, ListType):
        return [canon_default(v, t.type) for v in value] if isinstance(value, (list, tuple)) else [canon_default(value, t.type)]
    if isinstance(t, EnumType):
        try:
            return "enum:" + t.get_name(value)
        except Exception:
            return "enum?:%r" % (value,)
    if isinstance(t, InputObjectType) and isinstance(value, dict):
        out = {}
        for f in t.fields:
            if f.python_name in value:
                out[f.name] = canon_default(value[f.python_name], f.type)
            elif f.name in value:
                out[f.name] = canon_default(value[f.name], f.type)
        return out
    return value


def project(s, with_defaults=True, with_identity=False, with_desc=False):
    """Abstract value of a real Schema (types sorted by name; members / fields in declaration order)."""
    from py_gql.schema import EnumType, InputObjectType, InterfaceType, ObjectType, UnionType, unwrap_type
    types = []
    ident = []

    def chk(owner, t):
        if with_identity:
            n = unwrap_type(t)
            reg = s.types.get(n.name)
            if reg is not n:
                ident.append("%s -> %s" % (owner, n.name))

    def args(owner, lst):
        out = []
        for x in lst:
            chk("%s(%s:)" % (owner, x.name), x.type)
            d = {"name": x.name, "type": tref(x.type), "hasDef": x.has_default_value}
            if with_defaults and x.has_default_value:
                d["def"] = canon_default(x.default_value, x.type)
            if with_desc:
                d["desc"] = x.description or ""
            out.append(d)
        return out
    for n, t in s.types.items():
        if n.startswith("__") or n in BUILTIN_NAMES:
            continue
        if isinstance(t, (ObjectType, InterfaceType)):
            fields = []
            for f in t.fields:
                chk("%s.%s" % (n, f.name), f.type)
                fields.append({"name": f.name, "type": tref(f.type), "args": args("%s.%s" % (n, f.name), f.arguments), "dep": f.deprecation_reason or ""})
                if with_desc:
                    fields[-1]["desc"] = f.description or ""
            d = {"k": "object" if isinstance(t, ObjectType) else "interface", "name": n, "fields": fields}
            if isinstance(t, ObjectType):
                d["ifaces"] = [i.name for i in t.interfaces]
                for i in t.interfaces:
                    chk("%s implements" % n, i)
        elif isinstance(t, UnionType):
            d = {"k": "union", "name": n, "members": [m.name for m in t.types]}
            for m in t.types:
                chk("%s member" % n, m)
        elif isinstance(t, EnumType):
            d = {"k": "enum", "name": n, "values": [{"name": v.name, "dep": v.deprecation_reason or ""} for v in t.values]}
        elif isinstance(t, InputObjectType):
            d = {"k": "input", "name": n, "fields": args(n, t.fields)}
        else:
            d = {"k": "scalar", "name": n}
        if with_desc:
            d["desc"] = getattr(t, "description", None) or ""
        types.append(d)
    out = {"query": s.query_type.name if s.query_type else "", "mutation": s.mutation_type.name if s.mutation_type else "",
           "subscription": s.subscription_type.name if s.subscription_type else "",
           "types": sorted(types, key=lambda d: d["name"]),
           "directives": sorted(({"name": d.name, "locs": sorted(d.locations), "args": args("@" + d.name, d.arguments)}
                                 for d in s.directives.values() if d.name not in ("skip", "include", "deprecated")), key=lambda d: d["name"])}
    for root in ("query_type", "mutation_type", "subscription_type"):
        r = getattr(s, root)
        if with_identity and r is not None and s.types.get(r.name) is not r:
            ident.append("%s root -> %s" % (root, r.name))
    if with_identity:
        out["identity_violations"] = ident
    return out


def normalize(a, with_defaults=True):
    """Abstract schema (from TLC) in the same normal form as project()."""
    types = []
    for t in a["types"]:
        k = t["k"]
        d = {"k": k, "name": t["name"]}

        def args(lst):
            out = []
            for x in lst or []:
                r = {"name": x["name"], "type": x["type"], "hasDef": bool(x.get("hasDef"))}
                if with_defaults and x.get("hasDef"):
                    r["def"] = pv(x["def"])
                out.append(r)
            return out
        if k in ("object", "interface"):
            d["fields"] = [{"name": f["name"], "type": f["type"], "args": args(f.get("args")), "dep": f.get("dep") or ""} for f in t.get("fields", [])]
            if k == "object":
                d["ifaces"] = list(t.get("ifaces", []))
        elif k == "union":
            d["members"] = list(t.get("members", []))
        elif k == "enum":
            d["values"] = [{"name": v["name"], "dep": v.get("dep") or ""} for v in t.get("values", [])]
        elif k == "input":
            d["fields"] = args(t.get("fields"))
        types.append(d)
    return {"query": a.get("query") or "", "mutation": a.get("mutation") or "", "subscription": a.get("subscription") or "",
            "types": sorted(types, key=lambda d: d["name"]),
            "directives": sorted(({"name": d["name"], "locs": sorted(d["locs"]), "args": args(d.get("args"))} for d in a.get("directives", [])),
                                 key=lambda d: d["name"])}


# ---------------------------------------------------------------------------------------------------------------
def tsdl(t):
    if t["k"] == "named":
        return t["n"]
    return ("[%s]" if t["k"] == "list" else "%s!") % tsdl(t["of"])


def lit(v):
    import json
    k = v["k"]
    if k == "null":
        return "null"
    if k == "int":
        return str(pv(v))
    if k == "str":
        return json.dumps(pv(v), ensure_ascii=False)
    if k == "enumv":
        return v["v"]
    if k == "bool":
        return "true" if v["v"] else "false"
    if k == "list":
        return "[%s]" % ", ".join(lit(x) for x in v["vs"])
    if k == "dict":
        return "{%s}" % ", ".join("%s: %s" % (f["key"], lit(f["val"])) for f in v["fs"])
    raise ValueError(k)


def render_args(lst):
    if not lst:
        return ""
    return "(%s)" % ", ".join("%s: %s%s" % (x["name"], tsdl(x["type"]), (" = " + lit(x["def"])) if x.get("hasDef") else "") for x in lst)


def dep_sdl(dep):
    import json
    if not dep:
        return ""
    if dep == "No longer supported":
        return " @deprecated"
    return " @deprecated(reason: %s)" % json.dumps(dep)


def render_type(t, extend=False):
    k = t["k"]
    pre = "extend " if extend else ""
    if k == "scalar":
        return "%sscalar %s" % (pre, t["name"])
    if k == "enum":
        return "%senum %s { %s }" % (pre, t["name"], " ".join(v["name"] + dep_sdl(v.get("dep")) for v in t.get("values", [])))
    if k == "union":
        return "%sunion %s = %s" % (pre, t["name"], " | ".join(t.get("members", [])))
    if k == "input":
        return "%sinput %s { %s }" % (pre, t["name"], " ".join("%s: %s%s" % (f["name"], tsdl(f["type"]), (" = " + lit(f["def"])) if f.get("hasDef") else "")
                                                                for f in t.get("fields", [])))
    kw = "type" if k == "object" else "interface"
    impl = (" implements " + " & ".join(t["ifaces"])) if t.get("ifaces") else ""
    fields = " ".join("%s%s: %s%s" % (f["name"], render_args(f.get("args")), tsdl(f["type"]), dep_sdl(f.get("dep"))) for f in t.get("fields", []))
    body = (" { %s }" % fields) if fields else ""
    return "%s%s %s%s%s" % (pre, kw, t["name"], impl, body)
