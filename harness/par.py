"""Process-level sharding of replays (fork; workers import py_gql from /repo's working tree)."""
import multiprocessing as mp
import os

NPROC = int(os.environ.get("VERIF_PROCS", "16"))


def chunks(items, n):
    items = list(items)
    k = max(1, (len(items) + n - 1) // n)
    return [items[i:i + k] for i in range(0, len(items), k)]


def plain(x):
    """Results cross a process boundary: anything that is not plain data (a Future or lock leaked into response data by a broken
    implementation, an exception object in a witness) is replaced by its repr so that it is REPORTED instead of breaking the harness."""
    if x is None or isinstance(x, (str, int, float, bool)):
        return x
    if isinstance(x, dict):
        return {(k if isinstance(k, (str, int, float, bool, tuple)) or k is None else repr(k)): plain(v) for k, v in x.items()}
    if isinstance(x, list):
        return [plain(v) for v in x]
    if isinstance(x, tuple):
        return tuple(plain(v) for v in x)
    if isinstance(x, (set, frozenset)):
        return type(x)(plain(v) for v in x)
    return "<%s>" % repr(x)[:200]


class _Plain:
    def __init__(self, fn):
        self.fn = fn

    def __call__(self, part):
        try:
            return plain(self.fn(part))
        except Exception:
            raise
        except BaseException as e:      # e.g. asyncio.CancelledError: a worker that dies with a BaseException hangs Pool.map
            raise RuntimeError("worker aborted with %r" % (e,))


def pmap(fn, items, nproc=None, chunk=None):
    """fn(list_of_items) -> result; returns list of results (one per chunk)."""
    nproc = nproc or NPROC
    items = list(items)
    if not items:
        return []
    parts = chunks(items, nproc * 4 if chunk is None else max(1, len(items) // chunk))
    if nproc == 1 or len(parts) == 1:
        return [fn(p) for p in parts]
    ctx = mp.get_context("fork")
    # A worker process that DIES (a SystemError out of the interpreter, the OOM killer, a segmentation fault) makes Pool.map wait
    # for ever; the executor below fails the outstanding chunks instead.  The results of the chunks that finished are kept, the
    # lost ones are counted in LOST: core.Check.finish() turns lost chunks into a machinery failure unless violations were found
    # anyway (then they are reported together with the number of lost chunks).
    import concurrent.futures as cf
    from concurrent.futures.process import BrokenProcessPool
    results = [None] * len(parts)
    todo = list(range(len(parts)))
    for attempt in range(3):
        lost = []
        with cf.ProcessPoolExecutor(min(nproc, len(todo)), mp_context=ctx) as ex:
            futs = {i: ex.submit(_Plain(fn), parts[i]) for i in todo}
            for i, f in futs.items():
                try:
                    results[i] = f.result()
                except BrokenProcessPool:
                    lost.append(i)
        if not lost:
            break
        todo = lost            # chunks that merely shared the pool with the dying worker succeed on the next attempt
    else:
        LOST.append(len(todo))
    return [r for r in results if r is not None]


LOST = []
