"""Process-level sharding of replays (fork; workers import py_gql from /repo's working tree)."""
import multiprocessing as mp
import os

NPROC = int(os.environ.get("VERIF_PROCS", "16"))


def chunks(items, n):
    items = list(items)
    k = max(1, (len(items) + n - 1) // n)
    return [items[i:i + k] for i in range(0, len(items), k)]


def pmap(fn, items, nproc=None, chunk=None):
    """fn(list_of_items) -> result; returns list of results (one per chunk)."""
    nproc = nproc or NPROC
    items = list(items)
    if not items:
        return []
    parts = chunks(items, nproc * 4 if chunk is None else max(1, len(items) // chunk))
    if nproc == 1 or len(parts) == 1:
        return [fn(p) for p in parts]
    ctx = mp.get_context("fork")
    with ctx.Pool(min(nproc, len(parts))) as pool:
        return pool.map(fn, parts, chunksize=1)
