"""C14 - Extending, cloning and transforming schemas keeps them closed and intact.

spec/GqlSchemaOps.tla: a store of schema VALUES and the actions Clone / Camel / Hide(pred) / Extend(ext) / Print / Query;
TLC checks SourcesIntact (action property) and AllClosed, and enumerates every operation sequence (length <= 2 exhaustively,
longer ones by simulation).  Each sequence is replayed on real Schema objects; after EVERY action EVERY live schema object is
projected: the value must equal the specification's (sources intact, untouched attributes preserved), every type reference
must be the object registered under its name, and printing / introspection must show exactly the visible elements."""
import json
import random

from harness import dirreplay, opsreplay, par, tlc


def gen(chk, ops, simulate=None):
    cfg = tlc.cfg(spec="Spec", constants={"MaxOps": ops}, invariants=["Emit", "AllClosed"], properties=[] if simulate else ["SourcesIntact"])
    kw = {}
    if simulate:
        kw = {"simulate": simulate, "depth": ops + 1, "seed": chk.seed, "cache": False, "workers": 1}
    r = chk.tlc("GqlSchemaOps", cfg, tags=["SEQ"], coverage=not simulate, label="GqlSchemaOps ops<=%d%s" % (ops, " -simulate" if simulate else ""), heap="8g", **kw)
    if r.rc != 0:
        raise tlc.TLCError("GqlSchemaOps property violated: %s\n%s" % (r.violated, r.tail))
    if not simulate:
        tlc.require_coverage(r, ["Clone", "Camel", "HideA", "ExtendA", "Observe"])
    seen, out = set(), []
    for b in opsreplay.expand(r.tagged("SEQ")):
        k = json.dumps(b["hist"], sort_keys=True)
        if k not in seen:
            seen.add(k)
            out.append(b)
    return out


EXT_SDL = {
    "query-field": lambda camel: "extend type Query { %s: Int }" % opsreplay.spell(["added", "field"], camel),
    "enum-value": lambda camel: "extend enum Level { MID }",
    "new-type": lambda camel: "type Extra { %s: Int }" % opsreplay.spell(["extra", "value"], camel),
    "input-field": lambda camel: "extend input Filter { %s: Int }" % opsreplay.spell(["max", "size"], camel),
    "union-member": lambda camel: "extend union U = Sub",
}


def visible_names(val, camel):
    names = set()
    for t in val["types"]:
        names.add(t["name"])
        for f in t.get("fields", []):
            names.add("%s.%s" % (t["name"], opsreplay.spell(f["w"], camel)))
            for a in f.get("args", []):
                names.add("%s.%s(%s)" % (t["name"], opsreplay.spell(f["w"], camel), opsreplay.spell(a["w"], camel)))
        for v in t.get("values", []):
            names.add("%s.%s" % (t["name"], v["name"]))
        for m in t.get("members", []):
            names.add("%s|%s" % (t["name"], m))
    for d in val["directives"]:
        names.add("@" + d["name"])
    return names


def names_from_sdl(text):
    from py_gql.lang import ast as A, parse
    doc = parse(text, allow_type_system=True)
    names = set()
    for d in doc.definitions:
        if isinstance(d, A.DirectiveDefinition):
            names.add("@" + d.name.value)
            continue
        if isinstance(d, A.SchemaDefinition):
            continue
        n = d.name.value
        names.add(n)
        for f in getattr(d, "fields", None) or []:
            names.add("%s.%s" % (n, f.name.value))
            for a in getattr(f, "arguments", None) or []:
                names.add("%s.%s(%s)" % (n, f.name.value, a.name.value))
        for v in getattr(d, "values", None) or []:
            names.add("%s.%s" % (n, v.name.value))
        for m in getattr(d, "types", None) or []:
            names.add("%s|%s" % (n, m.name.value))
    return names


INTRO = "{ __schema { types { name fields(includeDeprecated: true) { name args { name } } inputFields { name } enumValues(includeDeprecated: true) { name } possibleTypes { name } kind } directives { name } } }"


def names_from_introspection(schema):
    from py_gql import graphql_blocking
    res = graphql_blocking(schema, INTRO)
    if res.errors:
        raise RuntimeError("introspection failed: %s" % res.errors[0])
    names = set()
    for t in res.data["__schema"]["types"]:
        n = t["name"]
        if n.startswith("__") or n in opsreplay.BUILTIN:
            continue
        names.add(n)
        for f in t.get("fields") or []:
            names.add("%s.%s" % (n, f["name"]))
            for a in f.get("args") or []:
                names.add("%s.%s(%s)" % (n, f["name"], a["name"]))
        for f in t.get("inputFields") or []:
            names.add("%s.%s" % (n, f["name"]))
        for v in t.get("enumValues") or []:
            names.add("%s.%s" % (n, v["name"]))
        if t["kind"] == "UNION":
            for m in t.get("possibleTypes") or []:
                names.add("%s|%s" % (n, m["name"]))
    for d in res.data["__schema"]["directives"]:
        if d["name"] not in ("skip", "include", "deprecated"):
            names.add("@" + d["name"])
    return names


DEFAULTS_Q = "{ __schema { types { name fields(includeDeprecated: true) { name args { name defaultValue } } inputFields { name defaultValue } } directives { name args { name defaultValue } } } }"


def defaults_probe(schema):
    """Every defaultValue the schema reports is GraphQL syntax for a value of the argument's / input field's type IN THIS SCHEMA.
    -> list of (owner, text, reason)"""
    from py_gql import graphql_blocking
    from py_gql.lang import parse_value
    from py_gql.utilities import value_from_ast
    res = graphql_blocking(schema, DEFAULTS_Q)
    if res.errors:
        raise RuntimeError("introspection failed: %s" % res.errors[0])
    bad = []

    def strict(node, type_):
        """literal coercion is lenient about unknown keys of object literals: a reported default must not mention any"""
        from py_gql.lang import ast as A
        from py_gql.schema import InputObjectType, ListType, NonNullType
        while isinstance(type_, NonNullType):
            type_ = type_.type
        if isinstance(node, A.ListValue) and isinstance(type_, ListType):
            for x in node.values:
                strict(x, type_.type)
        elif isinstance(type_, ListType):
            strict(node, type_.type)
        elif isinstance(node, A.ObjectValue) and isinstance(type_, InputObjectType):
            fm = type_.field_map
            for f in node.fields:
                if f.name.value not in fm:
                    raise ValueError("the literal mentions %s.%s, which the schema does not declare" % (type_.name, f.name.value))
                strict(f.value, fm[f.name.value].type)

    def one(owner, text, type_):
        if text is None:
            return
        try:
            node = parse_value(text)
            value_from_ast(node, type_)
            strict(node, type_)
        except Exception as e:
            bad.append((owner, text, "%s: %s" % (type(e).__name__, str(e)[:120])))
    for t in res.data["__schema"]["types"]:
        if t["name"].startswith("__"):
            continue
        real = schema.types[t["name"]]
        for f in t.get("fields") or []:
            for a in f["args"]:
                one("%s.%s(%s)" % (t["name"], f["name"], a["name"]), a["defaultValue"], real.field_map[f["name"]].argument_map[a["name"]].type)
        for f in t.get("inputFields") or []:
            one("%s.%s" % (t["name"], f["name"]), f["defaultValue"], real.field_map[f["name"]].type)
    for d in res.data["__schema"]["directives"]:
        for a in d["args"]:
            one("@%s(%s)" % (d["name"], a["name"]), a["defaultValue"], schema.directives[d["name"]].argument_map[a["name"]].type)
    return bad


def run_sequence(beh, style="constructor"):
    from py_gql.schema.transforms import CamelCaseSchemaTransform, VisibilitySchemaTransform, transform_schema
    from py_gql.sdl import extend_schema
    out = []
    ids = opsreplay.Ids()
    vals = beh["schemas"]
    live = {1: opsreplay.realize(vals[0], ids, style)}
    origin = {1: "base"}
    seqdesc = []

    def check_all(by, newidx):
        for j, sch in sorted(live.items()):
            exp = opsreplay.normalize(vals[j - 1])
            try:
                got, ident, styles = opsreplay.project(sch)
            except Exception as e:
                out.append(("ops/projection-raises/%s/by=%s" % (type(e).__name__, by), {"schema": j, "error": repr(e)}))
                continue
            role = "result" if j == newidx else "source"
            if ident:
                out.append(("ops/not-closed/%s/by=%s/origin=%s" % (role, by, origin[j]), {"schema": j, "stale_references": ident[:6]}))
            want = {"camel"} if vals[j - 1]["camel"] else {"snake"}
            if styles and styles != want:
                out.append(("ops/spelling/%s/by=%s" % (role, by), {"schema": j, "styles": sorted(styles)}))
            d = opsreplay.first_difference(exp, got)
            if d:
                out.append(("ops/%s/by=%s/origin=%s/%s" % ("result-differs" if role == "result" else "source-modified", by, origin[j], opsreplay.generalize(d)),
                            {"schema": j, "difference": d}))
    ALL_FILTER_FIELDS = (["min", "size"], ["tags"], ["min", "level"], ["only", "tag"], ["max", "size"])
    FILTER_VALUES = {"min_size": 1, "tags": ["x"], "min_level": "LOW", "only_tag": None, "max_size": 2}

    def coercion_probe(j, sch, by):
        """A variable of type Filter supplying every input field the BASE (or an extension) ever declared: accepted exactly when all
        of them are fields of Filter in THIS schema value (hidden fields are unknown fields).  It also warms whatever the library
        memoises per type before the next operation derives a schema from this one."""
        from py_gql import graphql_blocking
        val = vals[j - 1]
        camel = val["camel"]
        ts = {t["name"]: t for t in val["types"]}
        q = ts.get("Query")
        if "Filter" not in ts or q is None:
            return
        fi = next((f for f in q["fields"] if list(f["w"]) == ["find", "items"]), None)
        if fi is None or not any(list(a["w"]) == ["filter", "by"] for a in fi["args"]):
            return
        declared = {tuple(a["w"]) for a in ts["Filter"]["fields"]}
        supplied = list(ALL_FILTER_FIELDS)
        variables = {"f": {opsreplay.spell(w, camel): FILTER_VALUES["_".join(w)] for w in supplied}}
        ok_expected = all(tuple(w) in declared for w in supplied)
        text = "query ($f: Filter) { %s(%s: $f) { __typename } }" % (opsreplay.spell(["find", "items"], camel), opsreplay.spell(["filter", "by"], camel))
        try:
            res = graphql_blocking(sch, text, variables=variables)
        except Exception as e:
            out.append(("ops/variable-coercion/raises/%s/by=%s" % (type(e).__name__, by), {"schema": j, "error": repr(e)[:300]}))
            return
        rejected = bool(res.errors) and res.data is None
        if rejected and ok_expected:
            out.append(("ops/variable-coercion/declared-input-fields-rejected/by=%s/origin=%s" % (by, origin[j]), {"schema": j, "errors": [str(e) for e in res.errors][:2], "variables": variables}))
        if not rejected and not ok_expected:
            out.append(("ops/variable-coercion/hidden-input-field-accepted/by=%s/origin=%s" % (by, origin[j]),
                        {"schema": j, "variables": variables, "declared": sorted("_".join(w) for w in declared)}))

    _check_all = check_all

    def check_all(by, newidx):          # noqa: F811  (projection of every live schema, then the probes)
        _check_all(by, newidx)
        for j, sch in sorted(live.items()):
            coercion_probe(j, sch, by)
            if by != "init" and j != newidx:
                continue                # (defaults: the base once, then every schema when it is derived - its source was probed before)
            try:
                bad = defaults_probe(sch)
            except Exception as e:
                out.append(("ops/defaults-probe-raises/%s/by=%s" % (type(e).__name__, by), {"schema": j, "error": repr(e)[:300]}))
                continue
            if bad:
                out.append(("ops/reported-default-not-a-value-of-its-type/by=%s/origin=%s" % (by, origin[j]), {"schema": j, "defaults": bad[:3]}))

    check_all("init", 1)
    if out:
        return out, seqdesc
    for step in beh["hist"]:
        op, src, new, arg = step["op"], step["src"], step["new"], step["arg"]
        s = live[src]
        camel = vals[src - 1]["camel"]
        by = op if op != "hide" else "hide:%s" % arg["p"]
        if op == "extend":
            by = "extend:%s" % arg["p"]
        seqdesc.append((by, src))
        try:
            if op == "clone":
                r = s.clone()
            elif op == "camel":
                r = transform_schema(s, CamelCaseSchemaTransform())
            elif op == "hide":
                p = arg

                class Vis(VisibilitySchemaTransform):
                    def is_type_visible(self, name):
                        return not (p["p"] == "type" and p["t"] == name)

                    def is_field_visible(self, typename, fieldname):
                        w = opsreplay.words_of(fieldname)[0]
                        return not ((p["p"] == "field" and p["t"] == typename and w == list(p["f"]))
                                    or (p["p"] == "fields" and p["t"] == typename and w[0] == p["f"][0]))

                    def is_input_field_visible(self, typename, fieldname):
                        return not (p["p"] == "input" and p["t"] == typename and opsreplay.words_of(fieldname)[0] == list(p["f"]))

                    def is_directive_visible(self, name):
                        return not (p["p"] == "directive" and p["t"] == name)
                r = transform_schema(s, Vis())
            elif op == "extend":
                r = extend_schema(s, EXT_SDL[arg["p"]](camel))
            elif op == "print":
                text = s.to_string()
                got = names_from_sdl(text)
                exp = visible_names(opsreplay.normalize(vals[src - 1]), camel)
                if got != exp:
                    out.append(("ops/print-shows-wrong-elements/origin=%s" % origin[src], {"missing": sorted(exp - got)[:5], "extra": sorted(got - exp)[:5]}))
                r = None
            else:
                got = names_from_introspection(s)
                exp = visible_names(opsreplay.normalize(vals[src - 1]), camel)
                if got != exp:
                    out.append(("ops/introspection-shows-wrong-elements/origin=%s" % origin[src], {"missing": sorted(exp - got)[:5], "extra": sorted(got - exp)[:5]}))
                r = None
        except Exception as e:
            out.append(("ops/raises/%s/%s/origin=%s" % (by, type(e).__name__, origin[src]), {"error": repr(e)[:300], "sequence": seqdesc}))
            break
        if r is not None:
            if r is s:
                out.append(("ops/returns-source-object/%s" % by, {}))
            live[new] = r
            origin[new] = by.split(":")[0]
            # what the operation removed / added must be visible to diff_schema(source, result) (it reads the per-type indexes)
            try:
                from py_gql.schema.differ import diff_schema
                before = visible_names(opsreplay.normalize(vals[src - 1]), False)
                after = visible_names(opsreplay.normalize(vals[new - 1]), False)
                if op != "camel":
                    changes = [str(c) for c in diff_schema(s, r)]
                    if (before != after) != bool(changes):
                        out.append(("ops/diff-of-source-and-result/%s/by=%s" % ("nothing-reported" if before != after else "changes-for-equal-schemas", by),
                                    {"removed": sorted(before - after)[:4], "added": sorted(after - before)[:4], "changes": changes[:4]}))
            except Exception as e:
                out.append(("ops/diff-of-source-and-result/raises/%s/by=%s" % (type(e).__name__, by), {"error": repr(e)[:300]}))
        before = len(out)
        check_all(by, new if r is not None else 0)
        if len(out) > before:
            break
    return out, seqdesc


# ---- schema directives / generic SchemaVisitor plans (spec/GqlSchemaDirectives.tla) --------------------------------------
def gen_plans(chk, n, simulate=None):
    cfg = tlc.cfg(spec="Spec", constants={"MaxAnn": n}, invariants=["Emit", "EmitBase", "ResultClosed", "NonTargetsKept"])
    kw = {}
    if simulate:
        kw = {"simulate": simulate, "depth": n + 1, "seed": chk.seed, "cache": False, "workers": 1}
    r = chk.tlc("GqlSchemaDirectives", cfg, tags=["PLAN", "BASE"], coverage=not simulate,
                label="GqlSchemaDirectives annotations<=%d%s" % (n, " -simulate" if simulate else ""), heap="8g", **kw)
    if r.rc != 0:
        raise tlc.TLCError("GqlSchemaDirectives property violated: %s\n%s" % (r.violated, r.tail))
    if not simulate:
        tlc.require_coverage(r, ["Annotate"])
    base = r.tagged("BASE")
    seen, out = set(), []
    for b in r.tagged("PLAN"):
        k = json.dumps(b["plan"], sort_keys=True)
        if k not in seen:
            seen.add(k)
            out.append(b)
    return (base[0]["value"] if base else None), out


def _plan_key(plan):
    return "+".join(sorted(set("%s@%s" % (an["e"]["d"], an["site"]["s"]) for an in plan)))


def run_plan(base, item, seed):
    """-> list of (key, witness)"""
    from py_gql.exc import GraphQLError
    from py_gql.schema.transforms import transform_schema
    from py_gql.sdl import apply_schema_directives, build_schema
    out = []
    plan, misuse = item["plan"], item["misuse"]
    pk = _plan_key(plan)
    exp_full = opsreplay.normalize(item["value"])
    exp_blank = opsreplay.normalize(dirreplay.blank_resolvers(item["value"]))
    base_norm = opsreplay.normalize(base)
    rng = random.Random("%s/%s" % (seed, json.dumps(plan, sort_keys=True)))
    text = dirreplay.render_sdl(base, plan, rng)

    def judge(binding, schema, exp, role="result"):
        try:
            got, ident, _ = opsreplay.project(schema)
        except Exception as e:
            out.append(("dir/%s/projection-raises/%s/%s" % (binding, type(e).__name__, pk), {"error": repr(e)[:300]}))
            return
        if ident:
            out.append(("dir/%s/not-closed/%s/%s" % (binding, role, pk), {"stale_references": ident[:6]}))
        d = opsreplay.first_difference(exp, got)
        if d:
            out.append(("dir/%s/%s/%s/%s" % (binding, "result-differs" if role == "result" else "source-modified", pk, opsreplay.generalize(d)), {"difference": d}))
        if role != "result":
            return
        try:
            vis = visible_names(exp, False)
            shown = names_from_sdl(schema.to_string())
            if shown != vis:
                out.append(("dir/%s/print-shows-wrong-elements/%s" % (binding, pk), {"missing": sorted(vis - shown)[:5], "extra": sorted(shown - vis)[:5]}))
            shown = names_from_introspection(schema)
            if shown != vis:
                out.append(("dir/%s/introspection-shows-wrong-elements/%s" % (binding, pk), {"missing": sorted(vis - shown)[:5], "extra": sorted(shown - vis)[:5]}))
        except Exception as e:
            out.append(("dir/%s/observers-raise/%s/%s" % (binding, type(e).__name__, pk), {"error": repr(e)[:300]}))

    # (a) SDL bindings
    fresh = None
    for binding in ("sdl", "apply"):
        log = []
        classes = dirreplay.directive_classes(log)
        try:
            if binding == "sdl":
                schema = fresh = build_schema(text, schema_directives=classes)
            else:
                schema = build_schema(text)
                dirreplay.attach(schema, base, opsreplay.Ids())
                # operations VALIDATED before the in-place transform (which fills whatever the schema object memoises about its types)
                # and again afterwards: the second verdict is the verdict of the transformed value, i.e. that of the schema built with
                # the directives in one go
                from py_gql.lang import parse as _parse
                from py_gql.validation import validate_ast
                vdocs = [_parse(q) for q in VPROBES]
                for d_ in vdocs:
                    validate_ast(schema, d_)
                # a document parsed ONCE and served before and after the in-place transform (servers cache parsed documents)
                probe = None
                gone = {(an["site"]["s"], an["site"]["t"], an["site"]["f"], an["site"]["a"]) for an in plan if an["e"]["d"] == "drop"}
                if not gone & {("type", "U", "", ""), ("type", "Person", "", ""), ("type", "Item", "", ""), ("type", "Filter", "", ""),
                               ("field", "Query", "items", ""), ("arg", "Query", "items", "filter")}:
                    from py_gql import graphql_blocking
                    from py_gql.lang import parse
                    probe = parse("query ($f: Filter) { items(filter: $f) { id } any { ... on Person { id } ... on Item { id } } }")
                    r0 = graphql_blocking(schema, probe)
                    if r0.errors:
                        raise RuntimeError("probe document fails before the transform: %s" % r0.errors[0])
                schema = apply_schema_directives(schema, classes)
                if fresh is not None and not misuse:
                    for q_, d_ in zip(VPROBES, vdocs):
                        v_here, v_fresh = bool(validate_ast(schema, d_)), bool(validate_ast(fresh, _parse(q_)))
                        if v_here != v_fresh:
                            out.append(("dir/apply/validation-verdict-depends-on-earlier-validations/%s/%s" % ("stale-valid" if v_here else "stale-invalid", pk),
                                        {"document": q_, "after_in_place_transform": v_here, "schema_built_in_one_go": v_fresh}))
                if probe is not None and not misuse:
                    r1 = graphql_blocking(schema, probe)
                    if r1.errors:
                        out.append(("dir/apply/cached-document-fails-after-transform/%s" % pk,
                                    {"error": str(r1.errors[0])[:300], "document": "query ($f: Filter) { items(filter: $f) { id } any { ... on Person { id } ... on Item { id } } }"}))
        except GraphQLError as e:
            if not misuse:
                out.append(("dir/%s/rejected/%s/%s" % (binding, type(e).__name__, pk), {"error": repr(e)[:300]}))
            continue
        except Exception as e:
            out.append(("dir/%s/raises/%s/%s" % (binding, type(e).__name__, pk), {"error": repr(e)[:300], "misuse": misuse}))
            continue
        if misuse:
            continue          # a directive written twice at one site: SDLError or not, the property demands nothing further
        # every written directive was instantiated with its coerced arguments (declared default n = 1)
        want = sorted((an["e"]["d"], an["e"]["n"] or 1) for an in plan if an["e"]["d"] == "tag")
        seen_tags = sorted((d, a.get("n")) for d, a in log if d == "tag")
        if not set(seen_tags) <= set(want):
            out.append(("dir/%s/directive-arguments/%s" % (binding, pk), {"expected": want, "got": seen_tags}))
        judge(binding, schema, exp_blank if binding == "sdl" else exp_full)
    if misuse:
        return out
    # (b) the same plan as a SchemaVisitor through transform_schema (clone based)
    #     in two styles of the "tag" effect: the hook returns a rebuilt element / edits the element it was handed and returns it
    for style, in_place in (("constructor", False), ("registered", False), ("constructor", True)):
        try:
            src = opsreplay.realize(base, opsreplay.Ids(), style)
            res = transform_schema(src, dirreplay.plan_visitor(plan, in_place))
        except Exception as e:
            out.append(("dir/visitor/raises/%s/%s" % (type(e).__name__, pk), {"error": repr(e)[:300], "resolvers": style, "in_place": in_place}))
            continue
        if res is src:
            out.append(("dir/visitor/returns-source-object/%s" % pk, {}))
        b = "visitor-in-place" if in_place else "visitor"
        judge(b, res, exp_full)
        judge(b, src, base_norm, role="source")
    return out


# operations whose validity depends on which types overlap / exist in the schema value
VPROBES = ["{ node(id: 1) { ... on W { __typename } } }", "{ any { ... on Node { id } } }", "{ node(id: 1) { ... on U { __typename } } }",
           "{ any { ... on Person { label } ... on Item { label } } }", "{ items { owner { ... on Node { id } } } }"]


def _plan_worker(args):
    res = {}
    n = 0
    for base, item, seed in args:
        n += 1
        try:
            divs = run_plan(base, item, seed)
        except Exception as e:
            divs = [("dir/harness-exception/%s" % type(e).__name__, {"error": repr(e)[:300]})]
        for k, d in divs:
            res.setdefault(k, dict(d, plan=[(an["site"], an["e"]) for an in item["plan"]]))
    return res, n


def _worker(behs):
    res = {}
    n = 0
    for b in behs:
        n += 1
        for style in ("constructor", "registered"):
            try:
                divs, seq = run_sequence(b, style)
            except Exception as e:
                divs, seq = [("ops/harness-exception/%s" % type(e).__name__, {"error": repr(e)})], []
            for k, d in divs:
                res.setdefault(k, dict(d, resolvers=style, sequence=[(s["op"], s["src"], s["arg"]["p"], s["arg"]["t"]) for s in b["hist"]]))
    return res, n


def run(chk):
    rng = random.Random(chk.seed)
    behs = gen(chk, 2)
    chk.count("sequences length 2 (exhaustive)", len(behs))
    sim = gen(chk, 4, simulate=120 if chk.quick else 1500)
    sim = [b for b in sim if len(b["hist"]) > 2]
    chk.count("sequences length 3-4 (simulated)", len(sim))
    chk.exhaustive = False
    behs += sim
    for out, n in par.pmap(_worker, behs):
        chk.traces += n
        for k, wit in out.items():
            chk.diverge(k, wit, "replay of a GqlSchemaOps sequence diverges (%s)" % k.split("/")[1])
    chk.sample({"sequence": [(s["op"], s["src"], s["arg"]) for s in behs[len(behs) // 2]["hist"]]})
    # schema directives and generic visitor plans
    base, plans = gen_plans(chk, 2)
    chk.count("directive / visitor plans with <= 2 annotations (TLC, exhaustive)", len(plans))
    if chk.quick:       # quick tier: every single annotation, every plan with a removal of a type, a seeded third of the other pairs
        plans = [p for p in plans if len(p["plan"]) == 1 or p["misuse"] or any(a["e"]["d"] == "drop" and a["site"]["s"] == "type" for a in p["plan"])
                 or rng.random() < 0.33]
    chk.count("directive / visitor plans with <= 2 annotations (replayed)", len(plans))
    _, more = gen_plans(chk, 4, simulate=25 if chk.quick else 600)
    more = [p for p in more if len(p["plan"]) > 2]
    chk.count("directive / visitor plans with 3-4 annotations (simulated)", len(more))
    plans += more
    for out, n in par.pmap(_plan_worker, [(base, p, chk.seed) for p in plans]):
        chk.traces += n
        for k, wit in out.items():
            chk.diverge(k, wit, "schema directive / SchemaVisitor plan of GqlSchemaDirectives diverges (%s)" % "/".join(k.split("/")[1:3]))
    chk.sample({"plan": plans[len(plans) // 2]["plan"]})
    chk.assumptions += ["names are compared as word sequences with one spelling per schema", "resolvers are identified by id strings attached to the callables"]
    return chk.finish(rule="operation sequences on a store of schemas: length 2 exhaustive, 3-4 simulated; every live schema projected after every step")


def replay_cmd(path):
    print(json.dumps(json.load(open(path)), indent=1)[:3000])
    return 0
