"""C10 - Every outcome is a well-formed, serialisable response; failures stay contained.

R2: spec/GqlRequest.tla enumerates documents x operation names x variable payloads and fixes the outcome class
    (syntax / invalid / noop / badvars / executed); each request runs on the four entry-point configurations.
R3: the responses of those requests, of every prefix of a set of request texts (truncation anywhere), and of TLC-generated
    GqlSched executions (error paths incl. list indices known from the specification) are projected and judged by
    spec/GqlResponse.tla clause by clause (strict JSON, data omitted after parse/validation failure, string messages,
    line/column keys and ranges, path of keys and indices, extensions passed through, one error per error-null)."""
import asyncio
import random

from checks import c08
from harness import corpus, par, respjudge, schedreplay, tlc

SDL = """
type Query { hello: String, n: Int, echo(x: Int!): Int, nn: Int!, err: Int, items: [Item], fnan: Float, finf: Float, paint(c: Color!): Int }
enum Color { RED GREEN }
type Item { nnitem: Int!, erritem: Int, echo(values: [Int]): Int, ok: Int }
type Subscription { tick: Int }
"""
DOCS = {
    "anon": "{ hello }",
    "namedA": "query A { hello }",
    "twoOps": "query A { hello }\nquery B { n }",
    "needsVar": "query A($v: Int!) { echo(x: $v) }",
    "needsEnum": "query A($v: Color!) { paint(c: $v) }",
    "invalidWide": "{ hello nope }",
    "syntaxErr": "{ hello",
    "syntaxEsc": '{ echo(x: "\\',
    "invalid": "{\n  hello\n  nope\n}",
    "invalidCR": "{\r  hello\r  nope\r}",
    "failing": "{ nn err items { nnitem erritem ok } hello }",
    "listArgs": "query A($v: Int) { items { echo(values: [1, $v]) } }",
    "floats": "{ fnan finf }",
    "subscr": "subscription S { tick }",
    "dirRoot": "query A($v: Boolean = true) { hello @include(if: $v) n }",
    "dirNested": "query A($v: Boolean = true) { hello items { ok @skip(if: $v) echo } }",
}
VARS = {"none": None, "ok": {"v": 3}, "wrongtype": {"v": "three"}, "null": {"v": None}, "list": {"v": [3]}, "object": {"v": {"x": 3}}}
# per-document payloads (a Boolean variable; an enum variable)
DOC_VARS = {"dirRoot": {"ok": {"v": False}}, "dirNested": {"ok": {"v": False}},
            "needsEnum": {"ok": {"v": "RED"}, "wrongtype": {"v": "PURPLE"}, "list": {"v": ["RED"]}, "object": {"v": {"c": "RED"}}}}


def vars_for(q):
    return DOC_VARS.get(q["doc"], {}).get(q["vars"], VARS[q["vars"]])


EXT = {"code": 7, "detail": ["x", 1]}


def make_schema():
    from py_gql import build_schema
    from py_gql.exc import ResolverError
    schema = build_schema(SDL)
    q = schema.query_type.field_map
    q["hello"].resolver = lambda r, c, i: "world"
    q["n"].resolver = lambda r, c, i: 1
    q["echo"].resolver = lambda r, c, i, x: x
    q["paint"].resolver = lambda root, ctx, info, c: 1
    q["nn"].resolver = lambda r, c, i: None

    def err(r, c, i):
        raise ResolverError("boom", extensions=EXT)
    q["err"].resolver = err
    q["items"].resolver = lambda r, c, i: [{"k": 0}, {"k": 1}, {"k": 2}]
    q["fnan"].resolver = lambda r, c, i: float("nan")
    q["finf"].resolver = lambda r, c, i: float("inf")
    it = schema.get_type("Item").field_map
    it["nnitem"].resolver = lambda r, c, i: None if r["k"] in (0, 2) else 5

    def erritem(r, c, i):
        if r["k"] == 1:
            raise ResolverError("item boom", extensions=EXT)
        return 6
    it["erritem"].resolver = erritem
    it["echo"].resolver = lambda r, c, i, values=None: len(values or [])
    it["ok"].resolver = lambda r, c, i: 1
    return schema


def run_config(cfgname, schema, text, variables=None, operation_name=None):
    from py_gql import graphql_blocking, process_graphql_query
    from py_gql.execution.runtime import AsyncIORuntime, ThreadPoolRuntime
    kw = {"variables": variables, "operation_name": operation_name}
    if cfgname == "blocking-optimised":
        return graphql_blocking(schema, text, **kw)
    if cfgname == "blocking-generic":
        return process_graphql_query(schema, text, **kw)
    if cfgname == "pool":
        rt = ThreadPoolRuntime(max_workers=2)
        try:
            return process_graphql_query(schema, text, runtime=rt, **kw).result(timeout=90)
        finally:
            rt._inner.shutdown()
    loop = asyncio.new_event_loop()
    try:
        rt = AsyncIORuntime(loop=loop, execute_blocking_functions_in_thread=False)

        async def main():
            return await process_graphql_query(schema, text, runtime=rt, **kw)
        return loop.run_until_complete(main())
    finally:
        loop.close()


CONFIGS = ("blocking-optimised", "blocking-generic", "pool", "asyncio")


def request_cases(chk):
    cfg = tlc.cfg(invariants=["Out", "Sane"])
    r = chk.tlc("GqlRequest", cfg, tags=["REQ"], label="GqlRequest documents x operation names x variables")
    if r.rc != 0:
        raise tlc.TLCError("GqlRequest invariant violated: %s\n%s" % (r.violated, r.tail))
    reqs = r.tagged("REQ")
    schema = make_schema()
    cases, meta = [], []
    for q in reqs:
        text = DOCS[q["doc"]]
        for cfgname in CONFIGS:
            paths = [p.split("/") for p in q["errs"]]
            paths = [[int(x) if x.isdigit() else x for x in p] for p in paths]
            c = respjudge.project(text, q["outcome"],
                                  lambda: run_config(cfgname, schema, text, vars_for(q), q["opname"] or None),
                                  null_paths=paths, ext_expect=[EXT])
            cases.append(c)
            meta.append({"stage": "request", "doc": q["doc"], "opname": q["opname"], "vars": q["vars"], "cfg": cfgname, "text": text,
                         "key": "%s/%s" % (q["doc"], q["outcome"])})
    return cases, meta


PREFIX_TEXTS = [
    "query Q($a: Int = 1 @d) {\n  a: hello @skip(if: false)\n  ...F\n}\nfragment F on Query { n }",
    "{\r\n  echo(x: 12)\r\n  # comment é\r\n  items { ok }\r\n}",
    "{\r  hello\r  nope\r  n\r}",
    '{ echo(x: "a\\u00e9\\n\\"q\\"") items { echo(values: [1, 2.5e3, -0]) } }',
    'query { b: echo(x: """\n  block \\""" string\n  """) }',
    "﻿{ hello, , n }",
    "mutation M { hello }  subscription S { hello }",
    "{ \U0001F600 }",
    "extend type Query { z: Int }  { hello }",
    # a raw line terminator inside a quoted string: the syntax error sits exactly ON the terminator (LF, CRLF, CR)
    '{ echo(x: "ab\ncd") n }',
    '{\n  echo(x: "ab\r\ncd")\n}',
    '{ hello\r  echo(x: "ab\rcd") }',
]


def _classify(schema, text):
    from py_gql.exc import GraphQLSyntaxError
    from py_gql.lang import parse
    from py_gql.validation import validate_ast
    try:
        doc = parse(text)
    except GraphQLSyntaxError:
        return "syntax"
    except Exception:
        return "syntax"
    try:
        if not validate_ast(schema, doc):
            return "invalid"
    except Exception:
        return "invalid"
    return None


def _prefix_worker(texts):
    schema = make_schema()
    cases, meta = [], []
    for text, origin in texts:
        oc = _classify(schema, text)
        if oc is None:
            continue  # executable prefixes are covered by the other stages
        for cfgname in ("blocking-optimised", "asyncio"):
            c = respjudge.project(text, oc, lambda: run_config(cfgname, schema, text))
            cases.append(c)
            meta.append({"stage": "prefix", "cfg": cfgname, "text": text, "key": "prefix/%s" % oc})
    return cases, meta


def prefix_cases(chk, rng):
    from checks import c01
    texts = []
    for t in PREFIX_TEXTS:
        for i in range(len(t) + 1):
            texts.append((t[:i], "crafted"))
    items = c01.grammar_corpus(chk)
    rng.shuffle(items)
    for it in items[:150 if chk.quick else 3000]:
        if it["start"] not in ("Document",) or it["ts"]:
            continue
        text, _ = corpus.render(it["toks"], rng)
        for i in range(0, len(text) + 1):
            texts.append((text[:i], "corpus"))
    seen = set()
    uniq = []
    for t in texts:
        if t[0] not in seen:
            seen.add(t[0])
            uniq.append(t)
    cases, meta = [], []
    for cs, ms in par.pmap(_prefix_worker, uniq):
        cases += cs
        meta += ms
    return cases, meta


def _sched_worker(behs):
    cases, meta = [], []
    for b in behs:
        plan = {"op": b["op"], "nodes": b["nodes"], "variant": b.get("_variant")}
        if b["failed"] or schedreplay._reachable_crash(plan):
            continue
        nullp = schedreplay.expected_errors(plan, b["errs"])
        schema, query, kids = schedreplay.build(plan)
        for cfgname in ("pool", "asyncio", "blocking-optimised"):
            def call():
                if cfgname == "pool":
                    div, fut = schedreplay.run_pool(plan, b, None)
                    return fut.result(timeout=0)
                if cfgname == "asyncio":
                    div, task = schedreplay.run_asyncio(plan, b, None)
                    return task.result()
                from py_gql import graphql_blocking
                sp = {"op": plan["op"], "nodes": [dict(x, mode="sync") for x in plan["nodes"]], "variant": plan["variant"]}
                s2, q2, k2 = schedreplay.build(sp)
                rootv = schedreplay.set_resolvers(s2, sp, k2, lambda n: (lambda r, c, i: schedreplay.behave(sp, n)))
                return graphql_blocking(s2, q2, root=rootv)
            c = respjudge.project(query, "executed", call, null_paths=nullp, ext_expect=None)
            cases.append(c)
            meta.append({"stage": "sched", "cfg": cfgname, "text": query, "plan": plan, "schedule": [s["n"] for s in b["steps"]],
                         "key": "sched/%s" % plan["op"]})
    return cases, meta


def sched_cases(chk, rng):
    behs = []
    for op in ("query", "mutation"):
        bs = c08.generate(chk, op, 3)
        rng.shuffle(bs)
        behs += bs[:1200 if chk.quick else 10000]
    c08.decorate(behs, rng)
    cases, meta = [], []
    for cs, ms in par.pmap(_sched_worker, behs):
        cases += cs
        meta += ms
    return cases, meta


def run(chk):
    rng = random.Random(chk.seed)
    cases, meta = request_cases(chk)
    chk.count("request-matrix responses", len(cases))
    pc, pm = prefix_cases(chk, rng)
    chk.count("prefix responses", len(pc))
    sc, sm = sched_cases(chk, rng)
    chk.count("GqlSched execution responses", len(sc))
    cases += pc + sc
    meta += pm + sm
    # canaries: a well-formed executed response with one error path duplicated / data added to a syntax failure
    canaries = []
    for c in cases:
        if c["outcome"] == "executed" and c["raised"] == "" and c["errors"] and c["errors"][0]["hasPath"] and not any(x for x in canaries if x["outcome"] == "executed"):
            canaries.append(dict(c, errors=c["errors"] + [c["errors"][0]]))
        if c["outcome"] == "syntax" and c["raised"] == "" and not any(x for x in canaries if x["outcome"] == "syntax"):
            canaries.append(dict(c, hasData=True))
    verdicts = respjudge.judge(chk, cases + canaries)
    for v in verdicts[len(cases):]:
        if not v:
            from harness.core import Machinery
            raise Machinery("GqlResponse accepted a canary response")
    chk.count("canaries rejected", len(canaries))
    chk.traces += len(cases)
    for c, m, vs in zip(cases, meta, verdicts):
        for v in vs:
            extra = c["raised"] if v == "exception-escapes" else ""
            if extra and c["outcome"] == "syntax":
                import re
                extra += "/trunc-escape" if re.search(r"\\(u[0-9A-Za-z]{0,3})?$", m.get("text", "")) else "/other"
            key = "resp/%s/%s%s" % (v, m["key"], ("/" + extra) if extra else "")
            chk.diverge(key, dict(m, case={k: c[k] for k in ("raised", "outcome", "hasData", "jsonOk", "errors", "nullPaths")}),
                        "response violates the C10 clause '%s'" % v)
    ok = next((c, m) for c, m, v in zip(cases, meta, verdicts) if not v and c["errors"])
    chk.sample({"request": ok[1].get("text"), "projected_response": ok[0]})
    chk.assumptions += ["outcome class of free texts comes from the parser / validator verified by C01 and C05/C06",
                        "strict JSON is decided by json.dumps(allow_nan=False) (harness observation consumed by the judge)"]
    return chk.finish(rule="TLC request matrix x 4 configurations + every prefix of request texts + TLC-generated executions; judged by GqlResponse")


replay_cmd = c08.replay_file
