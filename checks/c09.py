"""C09 - Top-level mutation fields run strictly one after another in document order.

R1 (TLC, spec/GqlSched.tla with op = mutation): Serial (a later top-level field is not started before the earlier one has
    settled with its whole sub-selection), TopOrder (top-level resolvers invoked in document order), NoLostWakeup, Terminates.
R2: every mutation plan x completion order is replayed on the fake-pool thread-pool runtime and the private-loop asyncio
    runtime with the pending set compared after EVERY completion and the resolver invocation order compared at the end;
    the all-synchronous projection runs on both blocking executors (ordered data, error paths, invocation order)."""
from checks import c08


def run(chk):
    return c08.run(chk, op="mutation")


replay_cmd = c08.replay_file
