"""C13 - Schema validation accepts valid schemas and rejects each rule violation.

Part 1 (spec/GqlSchemaValidate.tla): every labelled violation of the base schema, every pair of violations on different types
and the 6 x 6 covariance matrix (validity decided by the predicate OutOk) is realised as a code-built schema, with the type
list in both orders: validate_schema must raise exactly for the invalid ones and report both elements of a pair.
Part 2 (spec/GqlSchemaMemo.tla): TLC enumerates sequences of register_resolver (six signature classes, shared function
objects, overrides) and validate() calls; after every step the real Schema.validate() must raise exactly when the
specification's verdict for the CURRENT state says so."""
import random

from harness import par, schemagamma, tlc


def _violation_worker(cases):
    from py_gql.exc import SchemaError, SchemaValidationError
    from py_gql.schema.validation import validate_schema
    out = {}
    n = 0
    for c in cases:
        for order in ("same", "reversed", "subclassed"):
            n += 1
            a = c["new"]
            if order == "reversed":
                a = dict(a, types=list(reversed(a["types"])))
            label = "+".join(c["labels"])
            if c["mode"] == "matrix":
                label = "covariance(%s<=%s)" % (schemagamma.tsdl(c["ot"]), schemagamma.tsdl(c["it"]))
            wit = {"labels": c["labels"], "order": order, "schema": a}
            try:
                schema = schemagamma.realize(a, subclassed=(order == "subclassed"))
            except Exception as e:
                if c["valid"]:
                    out.setdefault("schema/constructor-rejects-valid/%s" % label, ["Schema() rejects a valid schema", dict(wit, error=repr(e))])
                elif not isinstance(e, SchemaError):
                    out.setdefault("schema/constructor-raises/%s/%s" % (type(e).__name__, label), ["unexpected exception class", dict(wit, error=repr(e))])
                continue
            try:
                validate_schema(schema)
                raised = None
            except SchemaValidationError as e:
                raised = e
            except SchemaError as e:
                raised = e
            except Exception as e:
                out.setdefault("schema/validate-raises/%s/%s" % (type(e).__name__, label), ["validate_schema raises an unrelated exception", dict(wit, error=repr(e))])
                continue
            # the same verdict through the entry point's option that leaves resolver signatures out (none of the labelled violations
            # concerns a resolver: the rules that are left are the same rules)
            try:
                validate_schema(schema, enable_resolver_validation=False)
                raised_nr = None
            except SchemaError as e:
                raised_nr = e
            except Exception as e:
                raised_nr = raised
                out.setdefault("schema/validate-raises/%s/without-resolver-validation/%s" % (type(e).__name__, label), ["validate_schema raises an unrelated exception", dict(wit, error=repr(e))])
            if (raised_nr is None) != (raised is None):
                out.setdefault("schema/verdict-depends-on-resolver-validation-option/%s/%s" % ("accepts" if raised_nr is None else "rejects", label),
                               ["validate_schema(schema, enable_resolver_validation=False) reaches another verdict on a schema whose resolvers play no part", dict(wit, error=str(raised or raised_nr))])
            if c["valid"] and raised is not None:
                out.setdefault("schema/valid-rejected/%s/%s" % (label, order), ["a valid schema is rejected", dict(wit, error=str(raised))])
            elif not c["valid"] and raised is None:
                out.setdefault("schema/violation-accepted/%s/%s" % (label, order), ["a rule violation is accepted", wit])
            elif not c["valid"] and c["mode"] == "pair":
                msgs = [str(x) for x in getattr(raised, "errors", [raised])]
                for lab, m in zip(c["labels"], c["mention"]):
                    if not any(m in s for s in msgs):
                        out.setdefault("schema/violation-not-reported-together/%s/in:%s" % (lab, label), ["one of two violations is missing from the error list", dict(wit, errors=msgs)])
    return out, n


def make_resolvers():
    def exact(root, ctx, info, a):
        return 1

    def default(root, ctx, info, a=None):
        return 1

    def kwargs(root, ctx, info, **kw):
        return 1

    def missing(root, ctx, info):
        return 1

    def few(root, ctx):
        return 1
    def varargs(root, ctx, info, *args):
        return 1

    def short(root, ctx, a=None):
        return 1

    def argfirst(a, root, ctx, info):
        return 1
    return {"exact": exact, "default": default, "kwargs": kwargs, "missing": missing, "few": few, "varargs": varargs, "short": short, "argfirst": argfirst}


def _memo_worker(hists):
    from py_gql import build_schema
    from py_gql.exc import SchemaError
    out = {}
    n = 0
    for h, origin in [(h, o) for h in hists for o in ("built", "clone-of-a-validated-schema")]:
        schema = build_schema("type Query { strict(a: String!): Int  loose(a: String): Int  plain: Int }")
        source = None
        if origin != "built":
            # gamma: the machine runs on a CLONE of a schema that has been validated and queried (its name indexes have been read);
            # a clone is a machine of its own: what it is told never reaches its source, which stays valid throughout
            source = schema
            source.validate()
            [t.field_map for t in source.types.values() if hasattr(t, "field_map")]
            schema = source.clone()
        res = make_resolvers()
        seq = [(s["op"], s["f"], s["c"]) for s in h]
        if origin != "built":
            seq = [("clone", "", "")] + seq
        for i, s in enumerate(h):
            n += 1
            if source is not None:
                try:
                    source.validate()
                    from py_gql.schema.validation import validate_schema
                    validate_schema(source)
                except Exception as e:
                    out.setdefault("memo/clone-changes-its-source/%s" % type(e).__name__, ["after registering resolvers on a clone the SOURCE schema no longer validates", {"sequence": seq, "step": i, "error": repr(e)[:300]}])
                    break
            if s["op"] in ("register", "type-default", "schema-default"):
                try:
                    if s["op"] == "register":
                        schema.register_resolver("Query", s["f"], res[s["c"]], allow_override=True)
                    elif s["op"] == "type-default":
                        schema.register_default_resolver("Query", res[s["c"]], allow_override=True)
                    else:
                        schema.default_resolver = res[s["c"]]
                except Exception as e:
                    out.setdefault("memo/register-raises/%s" % type(e).__name__, ["register_resolver raises", {"sequence": seq, "step": i, "error": repr(e)}])
                    break
            else:
                try:
                    schema.validate()
                    raised = False
                except SchemaError:
                    raised = True
                except Exception as e:
                    out.setdefault("memo/validate-raises/%s" % type(e).__name__, ["validate() raises an unrelated exception", {"sequence": seq, "step": i, "error": repr(e)}])
                    break
                if raised != s["raises"]:
                    prev = [x for x in seq[:i] if x[0] != "validate"]
                    kind = "stale-valid" if s["raises"] else "stale-invalid"
                    out.setdefault("memo/%s/after=%s" % (kind, "%s:%s" % (prev[-1][1] or prev[-1][0], prev[-1][2]) if prev else "-"),
                                   ["validate() verdict differs from the verdict of the current state", {"sequence": seq, "step": i, "expected_raise": s["raises"]}])
                    break
    return out, n


def run(chk):
    rng = random.Random(chk.seed)
    cfg = tlc.cfg(invariants=["Emit"])
    r = chk.tlc("GqlSchemaValidate", cfg, tags=["VIO"], label="GqlSchemaValidate violations / pairs / covariance matrix")
    if r.rc != 0:
        raise tlc.TLCError("GqlSchemaValidate failed: %s\n%s" % (r.violated, r.tail))
    cases = r.tagged("VIO")
    chk.count("violation cases", len(cases))
    for out, n in par.pmap(_violation_worker, cases):
        chk.traces += n
        for k, (what, wit) in out.items():
            chk.diverge(k, wit, what)
    ops = 4 if chk.quick else 5
    cfg = tlc.cfg(constants={"MaxOps": ops}, invariants=["Emit"])
    r = chk.tlc("GqlSchemaMemo", cfg, tags=["MEM"], label="GqlSchemaMemo ops<=%d" % ops)
    if r.rc != 0:
        raise tlc.TLCError("GqlSchemaMemo failed: %s\n%s" % (r.violated, r.tail))
    hists = r.tagged("MEM")
    chk.count("register/validate sequences", len(hists))
    for out, n in par.pmap(_memo_worker, hists):
        chk.traces += n
        for k, (what, wit) in out.items():
            chk.diverge(k, wit, what)
    chk.sample({"labels": cases[0]["labels"], "valid": cases[0]["valid"]})
    chk.sample({"sequence": hists[len(hists) // 2]})
    chk.assumptions += ["rules in scope are exactly those the property enumerates", "attribution for pairs: the error list mentions the edited element's name"]
    return chk.finish(rule="labelled violations, pairs, covariance matrix x 2 type orders; register/validate sequences of length %d" % ops)


def replay_cmd(path):
    import json
    print(json.dumps(json.load(open(path)), indent=1)[:3000])
    return 0
