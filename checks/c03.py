"""C03 - Printing a parsed document and parsing it again is the identity.

Corpus: every grammar skeleton <= N tokens (TLC, GqlGrammarGen) x string contents that stress the printer.
A: parse -> print (several indent settings) -> re-parse -> compare trees (positions ignored) -> print again (idempotent, deterministic, never raises).
B: the printed text's token sequence (real lexer, verified by C01/C02) together with the ORIGINAL derivation's node
   kinds is judged by GqlGrammarTrace: the printed text must be a sentence whose derivation is the original tree."""
import random

from checks import c01
from harness import langreplay, printreplay


def run(chk):
    items = c01.grammar_corpus(chk)
    indents = printreplay.INDENTS_QUICK if chk.quick else printreplay.INDENTS_ALL
    n, div, traces = printreplay.replay(items, 2 if chk.quick else 5, chk.seed, indents, True)
    chk.traces += n
    rng = random.Random(chk.seed)
    rng.shuffle(traces)
    sample = traces[:3000 if chk.quick else 40000]
    # canary: a printed text with one token dropped must be rejected
    canary = None
    for tr, w in sample:
        if len(tr["toks"]) > 3:
            canary = dict(tr, toks=tr["toks"][:1] + tr["toks"][2:])
            break
    batch = [t for t, _ in sample] + ([canary] if canary else [])
    acc = langreplay.tlc_judge(chk, batch, "GqlGrammarTrace printed texts")
    if canary and (len(batch) - 1) in acc:
        from harness.core import Machinery
        raise Machinery("canary (printed text with a token removed) accepted by GqlGrammarTrace")
    for i, (tr, w) in enumerate(sample):
        if i not in acc:
            feats = "-"
            div.setdefault(("C03", "print/printed-text-not-a-derivation-of-the-tree/%s" % tr["start"]),
                           ["TLC: the printed token sequence does not derive with the original tree's node kinds", w])
    chk.traces += len(sample)
    chk.count("printed/judged-by-TLC", len(sample))
    chk.count("printed/replays", n)
    if sample:
        chk.sample({"stage": "print", "text": sample[0][1]["text"], "printed": sample[0][1].get("printed")})
    for (prop, key), (what, wit) in div.items():
        if prop == "C03":
            chk.diverge(key, wit, what)
    chk.assumptions += ["the real lexer used to tokenise printed text is the one verified by C01/C02 on the same corpus"]
    return chk.finish(rule="every TLC-generated grammar skeleton x concretisations x indent settings; distinct = skeletons")


replay = c01.replay
