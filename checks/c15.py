"""C15 - Introspection reports exactly the schema.

spec/GqlIntrospect.tla: Introspection(schema, includeDeprecated) over the base of GqlDiff and every single edit (TLC, Sound
checked).  The library's introspection query runs on the realised schema under all four executor/runtime configurations;
the JSON is projected to name-keyed collections and compared with the report; every defaultValue must parse as a constant
value and coerce (value_from_ast) to the declared default; with disable_introspection the meta-fields yield nothing and an
ordinary field next to them still resolves.  History: introspect, hide an element IN PLACE, introspect again (values from
spec/GqlSchemaOps.tla) - possibleTypes and type lists must follow."""
import json
import random

from harness import opsreplay, par, schemagamma, tlc
from checks import c10

KIND = {"object": "OBJECT", "interface": "INTERFACE", "union": "UNION", "enum": "ENUM", "input": "INPUT_OBJECT", "scalar": "SCALAR"}


def tref_json(t):
    if t is None:
        return None
    # a report that stops before the named type (ofType not selected) is a wrong report, not a harness failure
    if t["kind"] == "LIST":
        return {"k": "list", "of": tref_json(t["ofType"]) if "ofType" in t else {"k": "named", "n": "<type reference cut off>"}}
    if t["kind"] == "NON_NULL":
        return {"k": "nn", "of": tref_json(t["ofType"]) if "ofType" in t else {"k": "named", "n": "<type reference cut off>"}}
    return {"k": "named", "n": t["name"]}


def query_text(incl):
    from py_gql.utilities import introspection_query
    q = introspection_query()
    if not incl:
        q = q.replace("includeDeprecated: true", "includeDeprecated: false")
    return q


def check_default(schema, owner, arg_json, arg_def, out, wit):
    """defaultValue must be GraphQL syntax that parses back to the declared default."""
    from py_gql.lang import parse_value
    from py_gql.utilities import value_from_ast
    text = arg_json.get("defaultValue")
    if not arg_def.has_default_value:
        if text is not None:
            out.setdefault("intro/default-reported-but-not-declared", ["defaultValue reported although none is declared", dict(wit, owner=owner)])
        return
    tname = schemagamma.tsdl(schemagamma.tref(arg_def.type)).replace("Int", "T").replace("ID", "T")
    if text is None:
        out.setdefault("intro/default-missing/%s" % kind_of_default(arg_def), ["declared default not reported", dict(wit, owner=owner)])
        return
    try:
        node = parse_value(text)
        back = value_from_ast(node, arg_def.type)
    except Exception as e:
        out.setdefault("intro/default-does-not-parse/%s" % kind_of_default(arg_def), ["defaultValue is not GraphQL syntax for the declared type", dict(wit, owner=owner, text=text, error=repr(e)[:200])])
        return
    want = schemagamma.canon_default(arg_def.default_value, arg_def.type)
    got = schemagamma.canon_default(back, arg_def.type)
    if want != got:
        out.setdefault("intro/default-parses-to-other-value/%s" % kind_of_default(arg_def), ["defaultValue parses back to a different value", dict(wit, owner=owner, text=text, want=repr(want), got=repr(got))])


def kind_of_default(arg_def):
    from py_gql.schema import EnumType, InputObjectType, ListType, unwrap_type
    v = arg_def.default_value
    t = unwrap_type(arg_def.type)
    if v is None:
        return "null"
    if isinstance(v, (list, tuple)):
        return "list"
    if isinstance(t, EnumType):
        return "enum"
    if isinstance(t, InputObjectType):
        return "input-object"
    if isinstance(v, bool):
        return "boolean"
    if isinstance(v, str):
        return "string"
    if isinstance(v, float):
        return "float"
    return "int"


def compare(schema, report, data, incl, out, wit):
    sj = data["__schema"]
    for root in ("query", "mutation", "subscription"):
        got = (sj.get(root + "Type") or {}).get("name") or ""
        if got != report[root]:
            out.setdefault("intro/root/%s" % root, ["root operation type differs", dict(wit, got=got)])
    tj = {t["name"]: t for t in sj["types"] if not t["name"].startswith("__") and t["name"] not in schemagamma.BUILTIN_NAMES}
    exp = {t["t"]["name"]: t for t in report["types"]}
    if set(tj) != set(exp):
        out.setdefault("intro/types/%s" % ("missing" if set(exp) - set(tj) else "extra"), ["type list differs", dict(wit, missing=sorted(set(exp) - set(tj)), extra=sorted(set(tj) - set(exp)))])
    for n, e in exp.items():
        if n not in tj:
            continue
        t, j = e["t"], tj[n]
        if j["kind"] != KIND[t["k"]]:
            out.setdefault("intro/kind/%s" % t["k"], ["kind differs", dict(wit, type=n, got=j["kind"])])
        real = schema.types[n]
        if t["k"] in ("object", "interface"):
            fj = {f["name"]: f for f in j.get("fields") or []}
            fe = {f["name"]: f for f in t.get("fields", [])}
            if set(fj) != set(fe):
                k = "deprecated-leak" if (set(fj) - set(fe)) and not incl else ("missing" if set(fe) - set(fj) else "extra")
                out.setdefault("intro/fields/%s" % k, ["field list differs", dict(wit, type=n, missing=sorted(set(fe) - set(fj)), extra=sorted(set(fj) - set(fe)))])
            for fn, f in fe.items():
                if fn not in fj:
                    continue
                g = fj[fn]
                if tref_json(g["type"]) != f["type"]:
                    out.setdefault("intro/field-type", ["field type differs", dict(wit, type=n, field=fn)])
                raw = f.get("dep") or ""
                dep = schemagamma.ASTRAL if raw == "ASTRAL" else "" if raw == "EMPTY" else raw       # EMPTY: deprecated, with the empty string as reason
                if bool(g["isDeprecated"]) != bool(raw) or (g.get("deprecationReason") or "") != dep:
                    out.setdefault("intro/deprecation/field", ["deprecation flag / reason differs", dict(wit, type=n, field=fn, got=[g["isDeprecated"], g.get("deprecationReason")])])
                aj = {a["name"]: a for a in g.get("args") or []}
                ae = {a["name"]: a for a in f.get("args", [])}
                if set(aj) != set(ae):
                    out.setdefault("intro/args", ["argument list differs", dict(wit, type=n, field=fn)])
                for an, a in ae.items():
                    if an in aj:
                        if tref_json(aj[an]["type"]) != a["type"]:
                            out.setdefault("intro/arg-type", ["argument type differs", dict(wit, type=n, field=fn, arg=an)])
                        check_default(schema, "%s.%s(%s)" % (n, fn, an), aj[an], real.field_map[fn].argument_map[an], out, wit)
            if t["k"] == "object":
                ij = sorted(i["name"] for i in j.get("interfaces") or [])
                if ij != sorted(t.get("ifaces", [])):
                    out.setdefault("intro/interfaces", ["interfaces differ", dict(wit, type=n, got=ij)])
        if t["k"] in ("interface", "union"):
            pj = sorted(p["name"] for p in j.get("possibleTypes") or [])
            if pj != sorted(e["possible"]):
                out.setdefault("intro/possible-types/%s" % t["k"], ["possibleTypes differ", dict(wit, type=n, expected=sorted(e["possible"]), got=pj)])
        if t["k"] == "enum":
            vj = {v["name"]: v for v in j.get("enumValues") or []}
            ve = {v["name"]: v for v in t.get("values", [])}
            if set(vj) != set(ve):
                k = "deprecated-leak" if (set(vj) - set(ve)) and not incl else ("missing" if set(ve) - set(vj) else "extra")
                out.setdefault("intro/enum-values/%s" % k, ["enum value list differs", dict(wit, type=n, missing=sorted(set(ve) - set(vj)), extra=sorted(set(vj) - set(ve)))])
            for vn, v in ve.items():
                xdep = "" if v.get("dep") == "EMPTY" else (v.get("dep") or "")
                if vn in vj and (bool(vj[vn]["isDeprecated"]) != bool(v.get("dep")) or (vj[vn].get("deprecationReason") or "") != xdep):
                    out.setdefault("intro/deprecation/enum-value", ["deprecation flag / reason differs", dict(wit, type=n, value=vn, got=[vj[vn]["isDeprecated"], vj[vn].get("deprecationReason")])])
        if t["k"] == "input":
            ij = {f["name"]: f for f in j.get("inputFields") or []}
            ie = {f["name"]: f for f in t.get("fields", [])}
            if set(ij) != set(ie):
                out.setdefault("intro/input-fields", ["input field list differs", dict(wit, type=n)])
            for fn, f in ie.items():
                if fn in ij:
                    if tref_json(ij[fn]["type"]) != f["type"]:
                        out.setdefault("intro/input-field-type", ["input field type differs", dict(wit, type=n, field=fn)])
                    check_default(schema, "%s.%s" % (n, fn), ij[fn], real.field_map[fn], out, wit)
    dj = {d["name"]: d for d in sj["directives"] if d["name"] not in ("skip", "include", "deprecated")}
    de = {d["name"]: d for d in report["directives"]}
    if set(dj) != set(de):
        out.setdefault("intro/directives", ["directive list differs", dict(wit, got=sorted(dj))])
    for dn, d in de.items():
        if dn in dj:
            if sorted(dj[dn]["locations"]) != sorted(d["locs"]):
                out.setdefault("intro/directive-locations", ["directive locations differ", dict(wit, directive=dn, got=dj[dn]["locations"])])
            aj = {a["name"]: a for a in dj[dn].get("args") or []}
            if set(aj) != {a["name"] for a in d.get("args", [])}:
                out.setdefault("intro/directive-args", ["directive arguments differ", dict(wit, directive=dn)])
            for a in d.get("args", []):
                if a["name"] in aj:
                    check_default(schema, "@%s(%s)" % (dn, a["name"]), aj[a["name"]], schema.directives[dn].argument_map[a["name"]] if hasattr(schema.directives[dn], "argument_map") else
                                  next(x for x in schema.directives[dn].arguments if x.name == a["name"]), out, wit)


def _worker(cases):
    out = {}
    n = 0
    for c in cases:
        a, incl, report = c["schema"], c["incl"], c["report"]
        if "retype-arg" in (c.get("_label") or ""):
            pass
        try:
            schema = schemagamma.realize(a)
            schema.validate()
            bad = False
            for f in schema.query_type.fields:
                for x in f.arguments:
                    from py_gql.schema import NonNullType
                    if x.has_default_value and x.default_value is None and isinstance(x.type, NonNullType):
                        bad = True   # generator hygiene: a retyping edit left a null default on a non-null argument
            if bad:
                continue
        except Exception:
            continue  # edits that leave an invalid schema are C13's business
        q = query_text(incl)
        for cfgname in (c10.CONFIGS if c.get("_all_cfg") else ("blocking-optimised",)):
            n += 1
            wit = {"incl": incl, "cfg": cfgname, "schema_edit": c.get("_label")}
            try:
                res = c10.run_config(cfgname, schema, q)
            except Exception as e:
                out.setdefault("intro/raises/%s" % type(e).__name__, ["introspection raises", dict(wit, error=repr(e)[:300])])
                continue
            if res.errors:
                out.setdefault("intro/errors", ["introspection query reports errors", dict(wit, errors=[str(e) for e in res.errors][:3])])
                continue
            compare(schema, report, res.data, incl, out, wit)
        # the same schema with a schema-wide default resolver (schema.default_resolver = f, the documented way of serving ordinary
        # fields): it is still a valid schema and introspection must report exactly the same
        def everything_is_none(root, ctx, info, **kw):
            return None
        try:        # ... built from subclasses of the library's type classes at the same time
            schema = schemagamma.realize(a, subclassed=True)
        except Exception:
            pass
        schema.default_resolver = everything_is_none
        n += 1
        wit = {"incl": incl, "cfg": "blocking-optimised + schema.default_resolver + subclassed type classes", "schema_edit": c.get("_label")}
        sub = {}
        try:
            res = c10.run_config("blocking-optimised", schema, q)
            if res.errors:
                sub["intro/errors"] = ["introspection query reports errors", dict(wit, errors=[str(e) for e in res.errors][:3])]
            else:
                compare(schema, report, res.data, incl, sub, wit)
        except Exception as e:
            sub["intro/raises/%s" % type(e).__name__] = ["introspection raises", dict(wit, error=repr(e)[:300])]
        for k, v in sub.items():
            if k not in out:        # only what the default resolver changes
                out.setdefault("intro/with-schema-default-resolver/" + k[len("intro/"):], v)
    return out, n


def disabled_probe(out):
    from py_gql import build_schema, process_graphql_query
    from py_gql.utilities import introspection_query
    schema = build_schema("type Query { a: Int } ")
    schema.query_type.field_map["a"].resolver = lambda r, c, i: 1
    from py_gql.execution import BlockingExecutor, Executor
    schema2 = build_schema("type Query { a: Int  o: O  u: U } type O { b: Int } type P { c: Int } union U = O | P  type Mutation { m: O }")
    schema2.query_type.field_map["a"].resolver = lambda r, c, i: 1
    schema2.query_type.field_map["o"].resolver = lambda r, c, i: {"b": 2}
    schema2.query_type.field_map["u"].resolver = lambda r, c, i: {"b": 3}
    schema2.mutation_type.field_map["m"].resolver = lambda r, c, i: {"b": 4}
    schema2.get_type("U").resolve_type = lambda v, *a: "O"
    cases = [(schema, q, what, ex) for q, what in (("{ a __schema { queryType { name } } }", "__schema"), ('{ a __type(name: "Query") { name } }', "__type"), ("{ a __typename }", "__typename"))
             for ex in (Executor, BlockingExecutor)]
    # every executor variant enforces the option, wherever the meta field is selected (nested object, abstract type, mutation root)
    cases += [(schema2, q, what, ex) for q, what in (("{ a o { b __typename } }", "__typename-nested"), ("{ a u { __typename ... on O { b } } }", "__typename-abstract"),
                                                    ("mutation { m { b } __typename }", "__typename-mutation-root"))
              for ex in (Executor, BlockingExecutor)]
    # ... and under whatever response key: a meta field behind an ALIAS is still a meta field (hidden), an ordinary field whose alias
    # looks like a meta field is still an ordinary field (served)
    cases += [(schema2, q, what, ex) for q, what in (("{ a zs: __schema { queryType { name } } }", "__schema-aliased"), ('{ a zt: __type(name: "Query") { name } }', "__type-aliased"),
                                                    ("{ a zk: __typename }", "__typename-aliased"), ("{ a o { b zk: __typename } }", "__typename-aliased-nested"))
              for ex in (Executor, BlockingExecutor)]
    for ex in (Executor, BlockingExecutor):
        for q, want in (("{ __typename: a }", {"__typename": 1}), ("{ a o { __type: b } }", {"a": 1, "o": {"__type": 2}}), ("{ __schema: a zz: a }", {"__schema": 1, "zz": 1})):
            res = process_graphql_query(schema2, q, disable_introspection=True, executor_cls=ex)
            import json as _json
            if res.errors or _json.loads(_json.dumps(res.data)) != want:
                out.setdefault("intro/disabled-breaks-ordinary-field/alias-like-a-meta-field/%s" % ("optimised" if ex is BlockingExecutor else "generic"),
                               ["an ordinary field under an alias that looks like a meta field is affected by disabling introspection", {"query": q, "data": repr(res.data), "expected": want}])
    for sch, q, what, ex in cases:
        what = "%s/%s" % (what, "optimised" if ex is BlockingExecutor else "generic")
        res = process_graphql_query(sch, q, disable_introspection=True, executor_cls=ex)
        data = res.data or {}
        if "aliased" in what:
            def aliased(d, acc):
                for k, v in (d or {}).items():
                    if k in ("zs", "zt", "zk") and v is not None:
                        acc.append(k)
                    if isinstance(v, dict):
                        aliased(v, acc)
                return acc
            if aliased(data, []):
                out.setdefault("intro/disabled-leaks/%s" % what, ["introspection data visible (behind an alias) although disabled", {"query": q, "data": repr(data)}])
                continue

        def flat(d, acc):
            for k, v in (d or {}).items():
                if k.startswith("__") and v is not None:
                    acc.append(k)
                if isinstance(v, dict):
                    flat(v, acc)
            return acc
        if flat(data, []):
            out.setdefault("intro/disabled-leaks/%s" % what, ["introspection data visible although disabled", {"query": q, "data": repr(data)}])
            continue
        leaked = [k for k in data if k.startswith("__") and data[k] is not None]
        if leaked:
            out.setdefault("intro/disabled-leaks/%s" % what, ["introspection data visible although disabled", {"query": q, "data": repr(data)}])
        if not res.errors and q.startswith("{ a") and data.get("a") != 1:
            out.setdefault("intro/disabled-breaks-ordinary-field/%s" % what, ["ordinary field affected by disabling introspection", {"query": q, "data": repr(data)}])


def unknown_type_probe(out):
    """`__type(name:)` of a name the schema does not define reports null (4.2 Schema Introspection: "__type(name: String!): __Type");
    together with the full reports this is "exactly the schema": nothing is reported for what is not there, and nothing raises."""
    from py_gql import build_schema, graphql_blocking, process_graphql_query
    schema = build_schema("type Query { a: Int } ")
    schema.query_type.field_map["a"].resolver = lambda r, c, i: 1
    for fn, cfg in ((graphql_blocking, "blocking-optimised"), (process_graphql_query, "blocking-generic")):
        q = '{ a __type(name: "Nope") { name kind } known: __type(name: "Query") { name } }'
        try:
            res = fn(schema, q)
        except Exception as e:
            out.setdefault("intro/unknown-type/raises/%s" % type(e).__name__, ["__type of an undefined name raises instead of reporting null", {"query": q, "cfg": cfg, "error": repr(e)}])
            continue
        data = res.data or {}
        if data.get("__type") is not None or res.errors or data.get("known") != {"name": "Query"} or data.get("a") != 1:
            out.setdefault("intro/unknown-type/wrong-report", ["__type of an undefined name does not simply report null", {"query": q, "cfg": cfg, "data": repr(data), "errors": [str(e) for e in res.errors]}])


def reachability_probe(out):
    """Types only reachable through a directive argument / an input object field / an interface implementation are part of the schema and
    must be listed by __schema.types even when the schema was built WITHOUT an explicit type list."""
    from py_gql import graphql_blocking
    from py_gql.schema import Argument, Directive, EnumType, Field, InputField, InputObjectType, Int, ObjectType, Schema
    only = EnumType("OnlyHere", ["X", "Y"])
    deep = InputObjectType("DirDeep", [InputField("o", only)])
    din = InputObjectType("DirIn", [InputField("d", deep)])
    argin = InputObjectType("ArgIn", [InputField("n", Int)])
    schema = Schema(ObjectType("Query", [Field("a", Int, [Argument("i", argin)])]), directives=[Directive("cfg", ["FIELD"], [Argument("with", din)])])
    res = graphql_blocking(schema, "{ __schema { types { name inputFields { name type { name } } } directives { name args { name type { name } } } } }")
    if res.errors or not res.data:
        out.setdefault("intro/reachability/query-fails", ["introspection of a code-built schema fails", {"errors": [str(e) for e in res.errors or []]}])
        return
    names = {t["name"] for t in res.data["__schema"]["types"]}
    missing = sorted({"OnlyHere", "DirDeep", "DirIn", "ArgIn"} - names)
    if missing:
        out.setdefault("intro/reachability/types-missing/%s" % "+".join(missing), ["types referenced by the schema are not listed by __schema.types", {"missing": missing, "listed": sorted(n for n in names if not n.startswith("__"))}])


def history_stage(chk, out):
    """introspect -> hide in place -> introspect again (possibleTypes / type lists must follow)."""
    from py_gql.schema.transforms import VisibilitySchemaTransform
    cfg = tlc.cfg(spec="Spec", constants={"MaxOps": 1}, invariants=["Emit", "AllClosed"])
    r = chk.tlc("GqlSchemaOps", cfg, tags=["SEQ"], label="GqlSchemaOps ops<=1 (in-place history for C15)", heap="8g")
    from checks import c14
    n = 0
    for b in opsreplay.expand(r.tagged("SEQ")):
        h = b["hist"][0]
        if h["op"] != "hide":
            continue
        n += 1
        p = h["arg"]
        schema = opsreplay.realize(b["schemas"][0], opsreplay.Ids())
        try:
            before = c14.names_from_introspection(schema)
            c14.defaults_probe(schema)         # (fills whatever the library memoises about defaults before the transform)
        except Exception as e:
            out.setdefault("intro/history/raises/%s/before" % type(e).__name__, ["introspection of the base schema raises", {"error": repr(e)[:300]}])
            continue
        exp0 = c14.visible_names(opsreplay.normalize(b["schemas"][0]), False)
        if before != exp0:
            out.setdefault("intro/history/before", ["introspection before the transform differs", {"missing": sorted(exp0 - before)[:5], "extra": sorted(before - exp0)[:5]}])

        class Vis(VisibilitySchemaTransform):
            def is_type_visible(self, name):
                return not (p["p"] == "type" and p["t"] == name)

            def is_field_visible(self, typename, fieldname):
                w = opsreplay.words_of(fieldname)[0]
                return not ((p["p"] == "field" and p["t"] == typename and w == list(p["f"]))
                            or (p["p"] == "fields" and p["t"] == typename and w[0] == p["f"][0]))

            def is_input_field_visible(self, typename, fieldname):
                return not (p["p"] == "input" and p["t"] == typename and opsreplay.words_of(fieldname)[0] == list(p["f"]))

            def is_directive_visible(self, name):
                return not (p["p"] == "directive" and p["t"] == name)
        try:
            Vis().on_schema(schema)
            after = c14.names_from_introspection(schema)
            bad = c14.defaults_probe(schema)
            if bad:
                out.setdefault("intro/history/default-not-a-value-of-its-type/hide:%s" % p["p"], ["after an in-place transform a reported defaultValue is not a value of the argument's (new) type", {"pred": p, "defaults": bad[:3]}])
        except Exception as e:
            out.setdefault("intro/history/raises/%s/hide:%s" % (type(e).__name__, p["p"]), ["in-place transform + introspection raises", {"pred": p, "error": repr(e)[:300]}])
            continue
        exp1 = c14.visible_names(opsreplay.normalize(b["schemas"][1]), False)
        if after != exp1:
            out.setdefault("intro/history/stale-after-in-place-hide:%s" % p["p"], ["introspection after an in-place transform still shows removed elements (or lost others)",
                           {"pred": p, "missing": sorted(exp1 - after)[:5], "extra": sorted(after - exp1)[:5]}])
    return n


def run(chk):
    rng = random.Random(chk.seed)
    cfg = tlc.cfg(invariants=["Emit", "Sound"], constants={"TwoEdits": not chk.quick})
    r = chk.tlc("GqlIntrospect", cfg, tags=["INT"], label="GqlIntrospect base + %s edits x includeDeprecated" % ("single" if chk.quick else "single and double"))
    if r.rc != 0:
        raise tlc.TLCError("GqlIntrospect: %s\n%s" % (r.violated, r.tail))
    cases = r.tagged("INT")
    for i, c in enumerate(cases):
        c["_all_cfg"] = (i % 12 == 0)
    chk.count("schema x includeDeprecated cases", len(cases))
    for out, n in par.pmap(_worker, cases):
        chk.traces += n
        for k, (what, wit) in out.items():
            chk.diverge(k, wit, what)
    out = {}
    disabled_probe(out)
    unknown_type_probe(out)
    reachability_probe(out)
    chk.traces += history_stage(chk, out)
    for k, (what, wit) in out.items():
        chk.diverge(k, wit, what)
    chk.sample({"incl": cases[0]["incl"], "report_types": [t["t"]["name"] for t in cases[0]["report"]["types"]]})
    chk.assumptions += ["collections are compared keyed by name (list order is not part of the property)",
                        "defaultValue: must parse as a const value and coerce (value_from_ast, verified by C07) to the declared default"]
    return chk.finish(rule="base + every single edit x includeDeprecated (all four configurations on a subset) + in-place hide histories + disabled probes")


def replay_cmd(path):
    print(json.dumps(json.load(open(path)), indent=1)[:3000])
    return 0
