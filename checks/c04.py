"""C04 - Execution yields the specified result for every valid operation.

spec/GqlExec.tla: documents are built by actions over a fixed schema (objects, interface, union, enum with internal values,
custom scalar, list and non-null wrappers) so that only valid documents arise; the denotational reference
(Collect / ExecSet: ordered grouping, aliases, merged sub-selections, type conditions, @skip/@include with a variable,
visited-fragment tracking, null + one error at non-null / resolver-error positions) is evaluated by TLC for every document
of <= MaxSteps build steps and every world of a pairwise-covering family; Shape and ErrorsAtNulls are checked on the model.
Every behaviour is replayed on graphql_blocking (BlockingExecutor) and process_graphql_query (Executor), each on a fresh
schema object and on one long-lived schema object serving the whole (shuffled) batch: ordered data and error paths must
equal the reference."""
import json
import random

from harness import par, respjudge, tlc

SDL = """
type Query { a: Int  s: String!  e: E  c: Cust  o: Obj  i: I  u: U  os: [Obj] }
type Obj implements I { a: Int  s: String!  e: E  o: Obj }
type Obj2 implements I { a: Int  n: String }
interface I { a: Int }
union U = Obj | Obj2
enum E { A B }
scalar Cust
"""
FRAGS = "fragment FObj on Obj { a ks: s }\nfragment FI on I { a }\n"
DIR = {"none": "", "skipT": " @skip(if: true)", "skipF": " @skip(if: false)", "inclF": " @include(if: false)",
       "skipV": " @skip(if: $v)", "inclV": " @include(if: $v)"}


def render(sel):
    out = []
    for s in sel:
        if s["k"] == "field":
            t = ("%s: " % s["alias"] if s["alias"] else "") + s["name"] + DIR[s["dir"]]
            if s["sel"]:
                t += " { %s }" % render(s["sel"])
            out.append(t)
        elif s["k"] == "inline":
            out.append("...%s%s { %s }" % ((" on " + s["name"]) if s["name"] else "", DIR[s["dir"]], render(s["sel"])))
        else:
            out.append("...%s%s" % (s["name"], DIR[s["dir"]]))
    return " ".join(out)


def uses_v(sel):
    return any(s["dir"] in ("skipV", "inclV") or uses_v(s["sel"]) for s in sel)


def uses_frag(sel, name):
    return any((s["k"] == "spread" and s["name"] == name) or uses_frag(s["sel"], name) for s in sel)


class Obj(dict):
    pass


def make_schema():
    from py_gql import build_schema
    from py_gql.exc import ResolverError
    from py_gql.schema import EnumType, EnumValue, ScalarType
    schema = build_schema(SDL)
    # enum with internal values, custom scalar with its own serialiser
    e = schema.get_type("E")
    for v, internal in zip(e.values, (101, "bee")):
        v.value = internal
    e._values = {v.value: v for v in e.values} if hasattr(e, "_values") else None
    return schema


def build_world_schema(deferred=None, error_lifetime="request", shared_fields=False, scalar_style="function"):
    """Schema built in code so that the enum has internal values and the scalar a custom serialiser.
    deferred = "async": every resolver is a coroutine function that yields to the event loop a request-specific number of times
    (ctx["delays"]: seeded per request), so that sibling / list-item resolvers finish in varying orders."""
    from py_gql.exc import ResolverError
    from py_gql.schema import (Argument, EnumType, EnumValue, Field, Int, InterfaceType, ListType, NonNullType, ObjectType, ScalarType,
                               Schema, String, UnionType)

    def fa_(tname, extra=False):
        # a(d: Int = <the type's own default>): Int; Obj2 adds a further optional argument
        return Field("a", Int, [Argument("d", Int, default_value=A_DEFAULT.get(tname, 0))] + ([Argument("x", Int)] if extra else []),
                     resolver=None if tname == "I" else res("a"))
    E = EnumType("E", [EnumValue("A", value=101), EnumValue("B", value="bee")])
    Cust = ScalarType("Cust", serialize=lambda v: "cust:%s" % v, parse=lambda v: v)
    if scalar_style == "subclass":
        # gamma: the custom scalar is an application SUBCLASS of ScalarType that overrides the public serialize() method (the functions
        # handed to the base constructor pass values through): leaf values are completed through that method
        class CustType(ScalarType):
            def serialize(self, value):
                return "cust:%s" % (value,)
        Cust = CustType("Cust", serialize=lambda v: v, parse=lambda v: v)
    reg = {}

    def res(name):
        def r(root, ctx, info, **kw):
            w = ctx["world"]
            t = root.get("__t") if isinstance(root, dict) else "Query"
            if name == "a":
                if w["errA"] and t != "Query":
                    # every failing `a` of one request raises the SAME exception object (each position still needs its own error)
                    # error_lifetime = "schema": the application raises one module-level constant (NOT_FOUND = ResolverError(...)) in
                    # every request it serves; what a response reports must still only depend on its own request
                    raise (reg if error_lifetime == "schema" else ctx).setdefault("_err_a", ResolverError("a failed"))
                return 7 + kw["d"]
            if name == "s":
                return None if w["nullS"] else "str"
            if name == "n":
                return "str"
            if name == "e":
                return 101
            if name == "c":
                return 5
            if name == "o":
                return None if (w["nullO"] and t != "Query") else {"__t": "Obj", "__typename__": "Obj"}
            if name == "i":
                return {"__t": w["iType"], "__typename__": w["iType"]}
            if name == "u":
                return {"__t": w["uType"], "__typename__": w["uType"]}
            if name == "os":
                return [{"__t": "Obj", "__typename__": "Obj"}, None]
            if name == "is":
                return [{"__t": "Obj", "__typename__": "Obj"}, {"__t": "Obj2", "__typename__": "Obj2"}, {"__t": "Obj", "__typename__": "Obj"}]
        if deferred == "async":
            import asyncio

            async def ar(root, ctx, info, **kw):
                d = ctx.get("delays")
                for _ in range(d.randrange(0, 4) if d is not None else 0):
                    await asyncio.sleep(0)
                return r(root, ctx, info, **kw)
            return ar
        return r
    if shared_fields:
        # the interface fields a and o are declared ONCE and the same Field objects are listed by I, Obj and Obj2; they have no
        # resolver of their own: each object type serves them through its type-level default resolver, which refuses roots of
        # the other type (a resolver looked up for one parent type must never serve another)
        fa, fo = Field("a", Int, [Argument("d", Int, default_value=0)]), Field("o", lambda: reg["Obj"])

        def dres(tname):
            def by_type(root, ctx, info, **kw):
                if not isinstance(root, dict) or root.get("__t") != tname:
                    raise RuntimeError("default resolver of %s used for a value of type %r" % (tname, root.get("__t") if isinstance(root, dict) else root))
                return res(info.field_definition.name)(root, ctx, info, **kw)
            return by_type
        I = InterfaceType("I", [fa, fo])
        reg["Obj"] = ObjectType("Obj", lambda: [fa, Field("s", NonNullType(String), resolver=res("s")), Field("e", E, resolver=res("e")), fo],
                                interfaces=[I], default_resolver=dres("Obj"))
        reg["Obj2"] = ObjectType("Obj2", lambda: [fa, Field("n", String, resolver=res("n")), fo], interfaces=[I], default_resolver=dres("Obj2"))
        U = UnionType("U", [reg["Obj"], reg["Obj2"]])
        Q = ObjectType("Query", [fa_("Query"), Field("s", NonNullType(String), resolver=res("s")),
                                 Field("e", E, resolver=res("e")), Field("c", Cust, resolver=res("c")), Field("o", reg["Obj"], resolver=res("o")),
                                 Field("i", I, resolver=res("i")), Field("u", U, resolver=res("u")), Field("os", ListType(reg["Obj"]), resolver=res("os")), Field("is", ListType(I), resolver=res("is"))])
        return Schema(Q, types=[reg["Obj"], reg["Obj2"], U, I])
    I = InterfaceType("I", lambda: [fa_("I"), Field("o", reg["Obj"])])
    reg["Obj"] = ObjectType("Obj", lambda: [fa_("Obj"), Field("s", NonNullType(String), resolver=res("s")),
                                             Field("e", E, resolver=res("e")), Field("o", reg["Obj"], resolver=res("o"))], interfaces=[I])
    reg["Obj2"] = ObjectType("Obj2", lambda: [fa_("Obj2", extra=True), Field("n", String, resolver=res("n")),
                                               Field("o", reg["Obj"], resolver=res("o"))], interfaces=[I])
    U = UnionType("U", [reg["Obj"], reg["Obj2"]])
    Q = ObjectType("Query", [fa_("Query"), Field("s", NonNullType(String), resolver=res("s")),
                             Field("e", E, resolver=res("e")), Field("c", Cust, resolver=res("c")), Field("o", reg["Obj"], resolver=res("o")),
                             Field("i", I, resolver=res("i")), Field("u", U, resolver=res("u")), Field("os", ListType(reg["Obj"]), resolver=res("os")), Field("is", ListType(I), resolver=res("is"))])
    return Schema(Q, types=[reg["Obj"], reg["Obj2"], U, I])


A_DEFAULT = {"Query": 0, "Obj": 1, "Obj2": 2}        # default of a's argument d, per declaring type


def conv_data(data, per_type=True):
    out = []
    for kv in data:
        out.append([kv["key"], conv_val(kv["v"], per_type)])
    return out


def conv_val(v, per_type=True):
    k = v["k"]
    if k == "null":
        return None
    if k == "int":
        # the resolver of `a` returns 7 + d; with ONE Field object shared by I, Obj and Obj2 there is one default (0)
        return 7 + (A_DEFAULT[v.get("of", "Query")] if per_type else 0)
    if k == "strv":
        return "str"
    if k == "str":
        return v["v"]
    if k == "enumname":
        return "A"
    if k == "cust":
        return "cust:5"
    if k == "obj":
        return conv_data(v["fs"], per_type)
    if k == "list":
        return [conv_val(x, per_type) for x in v["items"]]
    raise ValueError(k)


def plain(v):
    if isinstance(v, dict):
        return [[k, plain(x)] for k, x in v.items()]
    if isinstance(v, list):
        return [plain(x) for x in v]
    return v


def shape_key(sel):
    f = set()

    def walk(sel):
        for s in sel:
            f.add(s["k"])
            if s["dir"] != "none":
                f.add("dir")
            if s["k"] == "field" and s["alias"]:
                f.add("alias")
            walk(s["sel"])
    walk(sel)
    return "+".join(sorted(f))


def _worker(args):
    behs, seed = args
    from py_gql import graphql_blocking, process_graphql_query
    rng = random.Random(seed)
    shared = build_world_schema(error_lifetime="schema", scalar_style="subclass")
    shared_fields = build_world_schema(shared_fields=True)
    out = {}
    n = 0
    cases = []
    held = []           # (result, snapshot of its error dictionaries, witness): responses handed out earlier must not change later
    order = list(range(len(behs)))
    rng.shuffle(order)
    for idx in order:
        b = behs[idx]
        sel, w = b["sel"], b["world"]
        var = "($v: Boolean!)" if uses_v(sel) else ""
        q = "query%s { %s }" % (var, render(sel))
        for fr, text in (("FObj", "fragment FObj on Obj { a ks: s }"), ("FI", "fragment FI on I { a }"),
                         ("FIo", "fragment FIo on I { o { a } }"), ("FOo", "fragment FOo on Obj { o { ks: s e } }"), ("FO2o", "fragment FO2o on Obj2 { o { e ka: a } }")):
            if uses_frag(sel, fr):
                q += "\n" + text
        variables = {"v": w["v"]} if var else None
        xdata_types = conv_data(b["r"]["data"])
        xdata_shared = conv_data(b["r"]["data"], per_type=False)
        xerrs = sorted((tuple(p) for p in b["r"]["errs"]), key=repr)
        fresh_dicts = {}
        for schema_kind in ("fresh", "long-lived", "shared-field-objects"):
            schema = build_world_schema() if schema_kind == "fresh" else shared if schema_kind == "long-lived" else shared_fields
            xdata = xdata_shared if schema_kind == "shared-field-objects" else xdata_types
            for exe in ("optimised", "generic"):
                n += 1
                wit = {"query": q, "variables": variables, "world": w, "executor": exe, "schema": schema_kind}
                try:
                    fn = graphql_blocking if exe == "optimised" else process_graphql_query
                    res = fn(schema, q, variables=variables, context={"world": w})
                except Exception as e:
                    out.setdefault("exec/raises/%s/%s" % (type(e).__name__, shape_key(sel)), ["execution raises", dict(wit, error=repr(e))])
                    continue
                if res.data is None and res.errors and not any(getattr(e, "path", None) for e in res.errors):
                    out.setdefault("exec/built-document-rejected/%s" % shape_key(sel), ["a document built valid is rejected", dict(wit, errors=[str(e) for e in res.errors][:3])])
                    continue
                data = plain(res.data)
                errs = sorted((tuple(e.path) if getattr(e, "path", None) else ("?",) for e in res.errors), key=repr)
                if data != xdata:
                    out.setdefault("exec/data/%s/%s/%s" % (exe, schema_kind, shape_key(sel)), ["response data differs from the reference", dict(wit, expected=xdata, got=data)])
                if errs != xerrs:
                    out.setdefault("exec/errors/%s/%s/%s" % (exe, schema_kind, shape_key(sel)), ["error paths differ from the reference", dict(wit, expected=xerrs, got=errs)])
                dicts = sorted((json.dumps(e.to_dict(), sort_keys=True, default=str) for e in res.errors))
                if schema_kind == "fresh":
                    fresh_dicts[exe] = dicts
                elif schema_kind == "long-lived":
                    if exe in fresh_dicts and dicts != fresh_dicts[exe]:
                        out.setdefault("exec/error-entries-depend-on-history/%s" % exe, ["the errors (message, locations, path) a long-lived schema reports differ from "
                                       "those of a fresh schema for the same request", dict(wit, fresh=fresh_dicts[exe][:4], long_lived=dicts[:4])])
                    if res.errors:
                        held.append((res, dicts, wit))
                        del held[:-12]
                    for old_res, snap, old_wit in held[:-1]:
                        now = sorted((json.dumps(e.to_dict(), sort_keys=True, default=str) for e in old_res.errors))
                        if now != snap:
                            out.setdefault("exec/handed-out-result-changes-later/%s" % exe, ["the errors of a result that was already returned changed while a later "
                                           "request was served", dict(old_wit, before=snap[:4], after=now[:4], later_request=q)])
                if schema_kind == "fresh" and exe == "generic" and idx % 7 == 0:
                    cases.append(respjudge.project(q, "executed", lambda: res, null_paths=[list(p) for p in xerrs]))
    return out, n, cases


def render_query(b):
    sel, w = b["sel"], b["world"]
    var = "($v: Boolean!)" if uses_v(sel) else ""
    q = "query%s { %s }" % (var, render(sel))
    for fr, text in (("FObj", "fragment FObj on Obj { a ks: s }"), ("FI", "fragment FI on I { a }"),
                     ("FIo", "fragment FIo on I { o { a } }"), ("FOo", "fragment FOo on Obj { o { ks: s e } }"), ("FO2o", "fragment FO2o on Obj2 { o { e ka: a } }")):
        if uses_frag(sel, fr):
            q += "\n" + text
    return q, ({"v": w["v"]} if var else None)


def deferred_worker(args):
    """C08: GqlExec documents (lists of objects, abstract types, merged sub-selections) on the real deferring runtimes; the final
    result must equal the schedule-independent reference whatever order the resolvers finish in."""
    behs, seed = args
    import asyncio
    from py_gql import process_graphql_query
    from py_gql.execution.runtime import AsyncIORuntime, ThreadPoolRuntime
    rng = random.Random(seed)
    out = {}
    n = 0
    aschema = build_world_schema("async")
    pschema = build_world_schema()
    loop = asyncio.new_event_loop()
    pool = ThreadPoolRuntime(max_workers=3)
    hangs = 0
    try:
        for b in behs:
            q, variables = render_query(b)
            xdata = conv_data(b["r"]["data"])
            xerrs = sorted((tuple(p) for p in b["r"]["errs"]), key=repr)
            for which in ("asyncio", "pool"):
                n += 1
                wit = {"query": q, "variables": variables, "world": b["world"], "runtime": which}
                try:
                    if which == "asyncio":
                        rt = AsyncIORuntime(loop=loop)
                        ctx = {"world": b["world"], "delays": random.Random(rng.random())}

                        async def main():
                            return await process_graphql_query(aschema, q, variables=variables, context=ctx, runtime=rt)
                        res = loop.run_until_complete(asyncio.wait_for(main(), 90))
                    else:
                        res = process_graphql_query(pschema, q, variables=variables, context={"world": b["world"]}, runtime=pool).result(timeout=90)
                except Exception as e:
                    out.setdefault("rich-%s/raises/%s" % (which, type(e).__name__), ["execution on the real runtime raises or hangs", dict(wit, error=repr(e))])
                    hangs += isinstance(e, (asyncio.TimeoutError, TimeoutError)) or "Timeout" in type(e).__name__
                    if hangs >= 2:
                        return out, n       # a hanging runtime would cost 90 s per document
                    if which == "asyncio":  # the loop may hold abandoned tasks
                        loop.close()
                        loop = asyncio.new_event_loop()
                    continue
                data = plain(res.data)
                errs = sorted((tuple(e.path) if getattr(e, "path", None) else ("?",) for e in res.errors), key=repr)
                if data != xdata:
                    out.setdefault("rich-%s/data/%s" % (which, shape_key(b["sel"])), ["result on the real runtime differs from the schedule-independent reference", dict(wit, expected=xdata, got=data)])
                if errs != xerrs:
                    out.setdefault("rich-%s/errors/%s" % (which, shape_key(b["sel"])), ["error paths on the real runtime differ from the reference", dict(wit, expected=xerrs, got=errs)])
    finally:
        loop.close()
        pool._inner.shutdown()
    return out, n


def deferred_shards(shards):
    merged, n = {}, 0
    for a in shards:
        out, k = deferred_worker(a)
        n += k
        for key, v in out.items():
            merged.setdefault(key, v)
    return merged, n


def rich_behaviours(chk):
    behs = generate(chk, 2)
    for t in range(1, NTEMPLATES + 1):
        behs += generate(chk, 1, template=t)
    return behs


def _shards(shards):
    merged, n, cases = {}, 0, []
    for a in shards:
        out, k, cs = _worker(a)
        n += k
        cases += cs
        for key, v in out.items():
            merged.setdefault(key, v)
    return merged, n, cases


NTEMPLATES = 4


def generate(chk, steps, simulate=None, template=0):
    cfg = tlc.cfg(constants={"MaxSteps": steps, "Template": template}, invariants=["Emit", "Shape", "ErrorsAtNulls"])
    kw = {}
    if simulate:
        kw = {"simulate": simulate, "depth": 3 * steps + 6, "seed": chk.seed, "cache": False}
    r = chk.tlc("GqlExec", cfg, tags=["EXE"], coverage=not simulate, label="GqlExec %ssteps<=%d%s" % ("template %d + " % template if template else "", steps, " -simulate" if simulate else ""), **kw)
    if r.rc != 0:
        raise tlc.TLCError("GqlExec invariant violated: %s\n%s" % (r.violated, r.tail))
    if not simulate and not template:
        tlc.require_coverage(r, ["AddLeaf", "OpenField", "OpenInline", "AddSpread", "Close", "Finish"])
    return r.tagged("EXE")


def run(chk):
    rng = random.Random(chk.seed)
    if chk.quick:
        behs = generate(chk, 2)
        chk.count("behaviours steps<=2 (exhaustive)", len(behs))
        chk.exhaustive = False
        sim = generate(chk, 5, simulate=3000)
        rng.shuffle(sim)
        chk.count("behaviours steps<=5 (simulated)", len(sim))
        behs += sim[:9000]
    else:
        behs = generate(chk, 3)
        chk.count("behaviours steps<=3 (exhaustive)", len(behs))
        chk.exhaustive = False
        sim = generate(chk, 7, simulate=4000)      # (num is per TLC worker: x16 behaviours)
        rng.shuffle(sim)
        sim = sim[:80000]                           # memory: every worker process inherits the list
        chk.count("behaviours steps<=7 (simulated)", len(sim))
        behs += sim
    tb = []
    for t in range(1, NTEMPLATES + 1):
        tb += generate(chk, 1 if chk.quick else 2, template=t)
    chk.count("behaviours from templates (+<=%d steps, exhaustive)" % (1 if chk.quick else 2), len(tb))
    behs += tb
    rng.shuffle(behs)
    parts = par.chunks(behs, par.NPROC * 2)
    cases = []
    for out, n, cs in par.pmap(_shards, [(p, chk.seed + i) for i, p in enumerate(parts)]):
        chk.traces += n
        cases += cs
        for k, (what, wit) in out.items():
            chk.diverge(k, wit, what)
    # every response also goes through the C10 judge (format clauses)
    verdicts = respjudge.judge(chk, cases, "GqlResponse on C04 executions")
    for c, vs in zip(cases, verdicts):
        for v in vs:
            chk.diverge("exec/response-format/%s" % v, {"case": c}, "response of a C04 execution violates format clause %s" % v)
    chk.count("responses judged by GqlResponse", len(cases))
    b = behs[0]
    chk.sample({"query": "query { %s }" % render(b["sel"]), "world": b["world"], "reference": b["r"]})
    chk.assumptions += ["non-null rule as the property states it (null stays, one error, no propagation)",
                        "worlds: a pairwise-covering family of 8 resolver behaviours"]
    return chk.finish(rule="documents built in <= 3 steps x 8 worlds (sampled in quick) + simulated longer builds; 2 executors x fresh/long-lived schema")


def replay_cmd(path):
    import json
    print(json.dumps(json.load(open(path)), indent=1)[:3000])
    return 0
