"""C18 - AST visitors reach every node once with balanced enter/leave; edits stay local.

Trees: the TLC-generated derivation corpus (GqlGrammarGen), one rendering per distinct tree shape.
Plans: enumerated by TLC in spec/GqlVisitor.tla (empty plan, every single edit, every pair on small trees; chains of 1-3).
R1: Balanced / NoopComplete / EditLocal are invariants of the semantics itself.
R2: every (tree, plan) is executed on real ASTVisitor / DispatchingVisitor / ChainedVisitor objects; the event log and the
    resulting tree must equal Visit(tree, plan, {}); runs explained only by the named deviations are KNOWN-FINDINGs."""
import random

from checks import c01
from harness import corpus, langreplay, visitreplay


def run(chk):
    rng = random.Random(chk.seed)
    items = c01.grammar_corpus(chk)
    seen = set()
    base = []
    max_nodes = 14 if chk.quick else 18
    for it in items:
        text, tokens = corpus.render(it["toks"], rng, compact=True, avoid_keywords=True)
        entry = langreplay.entry_of(it["start"])
        c = visitreplay.build_case(entry, text, it["ts"], it["fv"], 1, False)
        if c is None or c["n"] > max_nodes:
            continue
        sig = tuple((n["k"], n["role"], len(n["ch"])) for n in c["nodes"][:c["n"]])
        if sig in seen:
            continue
        seen.add(sig)
        base.append(c)
    # quick: a budgeted subset that still covers every (parent kind, role, child kind) triple of the corpus
    budget = 900 if chk.quick else min(len(base), 5000)      # (memory: every plan of every case is held for the replay)
    rng.shuffle(base)
    base.sort(key=lambda c: c["n"])
    covered = set()
    chosen, rest = [], []
    for c in base:
        tr = set()
        for n in c["nodes"][:c["n"]]:
            for x in n["ch"]:
                tr.add((n["k"], c["nodes"][x - 1]["role"], c["nodes"][x - 1]["k"]))
        if tr - covered:
            covered |= tr
            chosen.append(c)
        else:
            rest.append(c)
    rng.shuffle(rest)
    chosen += rest[:max(0, budget - len(chosen))]
    chk.count("trees/parent-role-child-triples-covered", len(covered))
    cases = []
    for k, c in enumerate(chosen):
        cases.append(c)
        if k % 2 == 0:
            cases.append(dict(c, disp=True))
        if c["n"] <= 8 and k % 3 == 0:
            cases.append(dict(c, m=2, vis=[1, 2] if k % 2 else [1, 1], disp=(k % 2 == 0)))
        if c["n"] <= 6 and k % 5 == 0:
            cases.append(dict(c, m=3, vis=[1, 2, 3] if k % 2 else [1, 2, 1]))
    chk.count("trees/distinct-shapes", len(seen))
    chk.count("cases", len(cases))
    behs = visitreplay.generate(chk, cases, 12 if chk.quick else 15, 5 if chk.quick else 6,
                                "GqlVisitor plans for %d cases" % len(cases))
    chk.count("plans", len(behs))
    n, div = visitreplay.replay(cases, behs)
    chk.traces += n
    if behs:
        b = behs[len(behs) // 2]
        chk.sample({"text": cases[b["cid"] - 1]["text"], "plan": b["plan"], "expected_events": b["ev"][:12]})
    for (prop, key), (what, wit) in div.items():
        chk.diverge(key, wit, what)
    chk.assumptions += ["tree shape = derivation (established by C02 on the same corpus)",
                        "replacement nodes are the fixed family in harness/visitreplay.replacement_for"]
    return chk.finish(rule="distinct tree shapes of the TLC grammar corpus x TLC-enumerated edit plans; distinct = (tree, plan) pairs")


replay = c01.replay
