"""X03 (supplementary, not one of the twenty listed properties) - the default resolver behaves as its docstring says.

spec/GqlDefaultResolver.tla enumerates every case (kind of parent value x where the member is stored x kind of member x
configured python name x arguments) with the documented outcome (NoInvention checked on the model).  Every case is replayed
twice: by calling py_gql.execution.default_resolver directly with a ResolveInfo-like object, and through graphql_blocking on a
schema whose field has no resolver (so the executor picks the default resolver itself), for Mapping roots that are dicts and
Mappings that are not.  Evidence goes to out/extra/X03.json (evidence/ is reserved for the listed properties)."""
import collections.abc
import json
import os

from harness import core, tlc


class ROMap(collections.abc.Mapping):
    """A Mapping that is not a dict."""

    def __init__(self, d):
        self._d = dict(d)

    def __getitem__(self, k):
        return self._d[k]

    def __iter__(self):
        return iter(self._d)

    def __len__(self):
        return len(self._d)


def make_root(c, calls, mapping_cls=dict):
    if c["root"] == "none":
        return None

    def member(tag):
        m = c["member"]
        if m == "value":
            return "value-under-" + tag
        if m == "falsy":
            return 0
        if m == "none":
            return None

        def method(*a, **kw):
            calls.append((tag, a, kw))
            return "called-" + tag
        return method
    names = {"name": ["fieldName"], "python": ["py_name"], "both": ["fieldName", "py_name"], "absent": []}[c["where"]]
    content = {n: member("name" if n == "fieldName" else "python") for n in names}
    if c["root"] == "mapping":
        return mapping_cls(content)

    class Obj:
        pass
    o = Obj()
    for k, v in content.items():
        setattr(o, k, v)
    return o


def judge(c, got, calls, ctx, info_check):
    """-> None or a short reason"""
    r = c["r"]
    k = r["k"]
    if k == "none":
        return None if got is None and not calls else "expected None, got %r (calls: %d)" % (got, len(calls))
    if k == "falsy":
        return None if got == 0 and got is not None and not calls else "expected the stored 0, got %r" % (got,)
    if k == "value":
        return None if got == "value-under-" + r["of"] and not calls else "expected the value stored under the %s, got %r" % (r["of"], got)
    if k == "callable-returned":
        return None if callable(got) and not calls else "a callable stored in a Mapping must be returned as it is, got %r (calls: %d)" % (got, len(calls))
    if k == "called":
        if got != "called-" + r["of"] or len(calls) != 1:
            return "expected the result of calling the %s member once, got %r (calls: %d)" % (r["of"], got, len(calls))
        tag, a, kw = calls[0]
        want_kw = {"x": 5} if r["args"] else {}
        if len(a) != 2 or a[0] is not ctx or not info_check(a[1]) or kw != want_kw:
            return "the method must be called with (context, info, **args): got %d positional, kwargs %r" % (len(a), kw)
        return None
    return "unknown expectation " + k


def run(chk):
    from py_gql import graphql_blocking
    from py_gql.execution import default_resolver
    core.EVID = os.path.join(core.VERIF, "out", "extra")
    cfg = tlc.cfg(invariants=["Emit", "NoInvention"])
    r = chk.tlc("GqlDefaultResolver", cfg, tags=["DRS"], label="GqlDefaultResolver cases")
    if r.rc != 0:
        raise tlc.TLCError("GqlDefaultResolver: %s\n%s" % (r.violated, r.tail))
    cases = r.tagged("DRS")
    chk.count("cases", len(cases))
    for c in cases:
        label = "%s/%s/%s/%s" % (c["root"], c["where"], c["member"], "python-name" if c["named"] else "plain")
        for mapping_cls in ((dict, ROMap) if c["root"] == "mapping" else (dict,)):
            # (a) direct call
            calls = []
            ctx = object()

            class FD:
                name = "fieldName"
                python_name = "py_name" if c["named"] else "fieldName"

            class Info:
                field_definition = FD
            info = Info()
            args = {"x": 5} if c["args"] else {}
            chk.traces += 1
            try:
                got = default_resolver(make_root(c, calls, mapping_cls), ctx, info, **args)
                why = judge(c, got, calls, ctx, lambda i: i is info)
            except Exception as e:
                why = "raises %r" % (e,)
            if why:
                chk.diverge("default-resolver/direct/%s/%s" % (mapping_cls.__name__, label), {"case": c, "reason": why}, "default_resolver differs from its documented lookup")
            # (b) through the executor: a field without resolver on a parent value produced by the root resolver
            if c["r"]["k"] == "callable-returned":
                continue          # (a callable is not a value of a scalar field: only the direct call observes it)
            calls = []
            from py_gql.schema import Argument, Field, Int, ObjectType, Schema, String
            fld = Field("fieldName", String, [Argument("x", Int)] , python_name=("py_name" if c["named"] else None))
            parent = ObjectType("P", [fld])
            holder = make_root(c, calls, mapping_cls)
            schema = Schema(ObjectType("Query", [Field("p", parent, resolver=lambda *_a, **_k: holder)]))
            ctx2 = {"ctx": 1}
            q = "{ p { fieldName%s } }" % ("(x: 5)" if c["args"] else "")
            chk.traces += 1
            try:
                res = graphql_blocking(schema, q, context=ctx2)
                if res.errors:
                    why = "errors: %s" % [str(e) for e in res.errors][:2]
                else:
                    p = res.data["p"]
                    got = None if p is None else p["fieldName"]
                    if c["root"] == "none":
                        why = None if p is None else "a None parent must give a null object"
                    else:
                        exp = dict(c, r=dict(c["r"]))
                        if exp["r"]["k"] == "falsy":
                            got = 0 if got == "0" else got      # String serialisation of the stored 0
                        why = judge(exp, got, calls, ctx2, lambda i: hasattr(i, "field_definition"))
            except Exception as e:
                why = "raises %r" % (e,)
            if why:
                chk.diverge("default-resolver/executed/%s/%s" % (mapping_cls.__name__, label), {"case": c, "query": q, "reason": why}, "a field served by the default resolver differs from the documented lookup")
    chk.sample({"case": cases[len(cases) // 2]})
    chk.assumptions += ["ResolveInfo is represented by an object with a field_definition for the direct call"]
    return chk.finish(level="model_checking", rule="every case of the lookup table x direct call / executed request x dict / non-dict Mapping")


def replay_cmd(path):
    print(json.dumps(json.load(open(path)), indent=1)[:3000])
    return 0
