"""C16 - Instrumentation and middlewares see every field exactly once, properly nested.

R3 (code -> spec): every replay of GqlSched behaviours (queries and mutations, all completion orders TLC generated, four
executor/runtime configurations, 1-3 stacked instrumentations, 0-2 middlewares) and requests of every non-execution outcome
(syntax error, validation error, variable error, unknown / ambiguous operation) are recorded by one Recorder object and the
event logs are judged by the trace specification spec/GqlHooks.tla (stack discipline of stage hooks, per-path field
discipline, middleware nesting, reverse-order ends).  Canary traces (one event dropped / swapped) must be rejected."""
import concurrent.futures as cf
import json
import os
import random
import tempfile

from checks import c08
from harness import par, schedreplay, tlc


def non_execution_logs(rng):
    from py_gql import build_schema, graphql_blocking, process_graphql_query
    from py_gql.execution.runtime import AsyncIORuntime, ThreadPoolRuntime
    import asyncio
    schema = build_schema("type Query { a(x: Int!): Int, b: Int }")
    cases = [("syntax-error", "{ a(x: 1", None, None), ("syntax-error-lex", '{ a(x: "\\q") }', None, None),
             ("invalid", "{ nope }", None, None), ("invalid-arg", "{ a }", None, None),
             ("bad-variables", "query ($v: Int!) { a(x: $v) }", {}, None), ("bad-variables-type", "query ($v: Int!) { a(x: $v) }", {"v": "s"}, None),
             ("unknown-operation", "query A { b }", None, "B"), ("ambiguous-operation", "query A { b } query B { b }", None, None),
             ]
    logs = []
    for name, q, variables, opname in cases:
        for cfgname in ("blocking-optimised", "blocking-generic", "pool", "asyncio"):
            for ni in (1, 2, 3):
                rec = schedreplay.Recorder(ni, rng.choice([0, 1, 2]))
                kw = {"instrumentation": rec.instrumentation(), "middlewares": rec.middlewares(), "variables": variables, "operation_name": opname}
                exc = None
                try:
                    if cfgname == "blocking-optimised":
                        graphql_blocking(schema, q, **kw)
                    elif cfgname == "blocking-generic":
                        process_graphql_query(schema, q, **kw)
                    elif cfgname == "pool":
                        rt = ThreadPoolRuntime(max_workers=1)
                        try:
                            process_graphql_query(schema, q, runtime=rt, **kw).result(timeout=90)
                        finally:
                            rt._inner.shutdown()
                    else:
                        loop = asyncio.new_event_loop()
                        try:
                            rt = AsyncIORuntime(loop=loop, execute_blocking_functions_in_thread=False)

                            async def main():
                                return await process_graphql_query(schema, q, runtime=rt, **kw)
                            loop.run_until_complete(main())
                        finally:
                            loop.close()
                except Exception as e:
                    exc = repr(e)
                logs.append({"cfg": cfgname, "ninstr": ni, "nmw": rec.nmw, "events": rec.log, "crash": False,
                             "request": name, "query": q, "exception": exc})
    return logs


def history_logs(rng):
    """Several requests served by ONE schema object and ONE runtime instance, with different instrumentation / middleware
    stacks per request: every request's log must satisfy the discipline with its own stacks (no carry-over)."""
    import asyncio
    from py_gql import build_schema, graphql_blocking, process_graphql_query
    from py_gql.execution.runtime import AsyncIORuntime, BlockingRuntime, ThreadPoolRuntime
    logs = []
    partial = []
    for cfgname in ("blocking-generic", "blocking-optimised", "pool", "asyncio"):
        cur = {}

        def res_a(root, ctx, info):
            cur["rec"].emit(e="res", p="/".join(map(str, info.path)))
            return {"c": 1}

        def res_b(root, ctx, info):
            cur["rec"].emit(e="res", p="/".join(map(str, info.path)))
            return 2

        def res_c(root, ctx, info):
            cur["rec"].emit(e="res", p="/".join(map(str, info.path)))
            return 3
        def res_default(root, ctx, info):
            cur["rec"].emit(e="res", p="/".join(map(str, info.path)))
            return 4

        def res_g(root, ctx, info, x):
            cur["rec"].emit(e="res", p="/".join(map(str, info.path)))
            return x
        # A.d has no resolver of its own: it is served by the TYPE-LEVEL default resolver of A and still goes through every middleware;
        # Query.g receives an explicit null through a nullable variable for `x: Int! = 3`: argument coercion fails at execution time,
        # the field hooks still come in pairs and neither middleware nor resolver runs
        schema = build_schema("type Query { a: A, b: Int, g(x: Int! = 3): Int } type A { c: Int, d: Int }")
        schema.query_type.field_map["a"].resolver = res_a
        schema.query_type.field_map["b"].resolver = res_b
        schema.query_type.field_map["g"].resolver = res_g
        schema.get_type("A").field_map["c"].resolver = res_c
        schema.register_default_resolver("A", res_default)
        loop = None
        if cfgname == "pool":
            rt = ThreadPoolRuntime(max_workers=1)
        elif cfgname == "asyncio":
            loop = asyncio.new_event_loop()
            rt = AsyncIORuntime(loop=loop, execute_blocking_functions_in_thread=False)
        else:
            rt = BlockingRuntime()
        try:
            stacks = [(1, 2), (2, 0), (1, 1), (3, 2), (1, 0)]
            rng.shuffle(stacks)
            for k, (ni, nm) in enumerate(stacks):
                rec = schedreplay.Recorder(ni, nm)
                cur["rec"] = rec
                from py_gql.execution import Instrumentation

                class EndOnly(Instrumentation):          # implements only the field END hook (e.g. a counter of completed fields)
                    seen = []

                    def on_field_end(self, root, context, info):
                        self.seen.append("/".join(map(str, info.path)))

                class StartOnly(Instrumentation):
                    seen = []

                    def on_field_start(self, root, context, info):
                        self.seen.append("/".join(map(str, info.path)))
                eo, so = EndOnly(), StartOnly()
                eo.seen, so.seen = [], []
                partial.append((rec, eo, so, cfgname, nm))
                kw = {"instrumentation": rec.instrumentation(extra=(eo, so)), "middlewares": rec.middlewares(), "variables": {"nv": None}}
                q = "query ($nv: Int) { __typename a { c d __typename } b g(x: $nv) }"
                exc = None
                try:
                    if cfgname == "blocking-optimised":
                        from py_gql.execution import BlockingExecutor
                        process_graphql_query(schema, q, runtime=rt, executor_cls=BlockingExecutor, **kw)
                    elif cfgname == "blocking-generic":
                        process_graphql_query(schema, q, runtime=rt, **kw)
                    elif cfgname == "pool":
                        process_graphql_query(schema, q, runtime=rt, **kw).result(timeout=90)
                    else:
                        async def main():
                            return await process_graphql_query(schema, q, runtime=rt, **kw)
                        loop.run_until_complete(main())
                except Exception as e:
                    exc = repr(e)
                logs.append({"cfg": cfgname, "ninstr": ni, "nmw": nm, "events": rec.log, "crash": False,
                             "request": "history-%d" % (k + 1), "query": q, "exception": exc})
        finally:
            if cfgname == "pool":
                rt._inner.shutdown()
            if loop is not None:
                loop.close()
    # clauses the event judge cannot see: instrumentations implementing only one of the two field hooks still see every field;
    # every field except the one whose arguments do not coerce (g) goes through every middleware - meta fields included
    extra = []
    for rec, eo, so, cfgname, nm in partial:
        fs1 = sorted(e["p"] for e in rec.log if e["e"] == "fs" and e["i"] == 1)
        fe1 = sorted(e["p"] for e in rec.log if e["e"] == "fe" and e["i"] == 1)
        if sorted(so.seen) != fs1:
            extra.append(("hooks/partial-instrumentation/start-only/%s" % cfgname, {"expected": fs1, "got": sorted(so.seen)}))
        if sorted(eo.seen) != fe1:
            extra.append(("hooks/partial-instrumentation/end-only/%s" % cfgname, {"expected": fe1, "got": sorted(eo.seen)}))
        for p in fs1:
            if p == "g":
                continue
            ms = sorted(e["m"] for e in rec.log if e["e"] == "mwin" and e["p"] == p)
            if ms != list(range(1, nm + 1)):
                extra.append(("hooks/middleware-bypassed/%s/%s" % ("meta-field" if p.split("/")[-1].startswith("__") else "field", cfgname), {"path": p, "middlewares_entered": ms, "configured": nm}))
    return logs, extra


def subscription_logs(rng):
    """py_gql.execution.subscribe under instrumentation and middlewares: the execution stage brackets the set-up of the source
    stream and fires once for the whole subscription; every delivered event is one segment of field hooks (closed by the
    harness' pseudo event "ev")."""
    import asyncio
    from py_gql import build_schema
    from py_gql.execution import subscribe
    from py_gql.execution.runtime import AsyncIORuntime
    from py_gql.lang import parse
    logs = []
    for ni, nm, nevents in ((1, 0, 2), (2, 0, 3), (3, 0, 1), (2, 0, 0)):      # subscribe() takes no middlewares
        rec = schedreplay.Recorder(ni, nm)
        schema = build_schema("type Query { a: Int } type Subscription { s(n: Int = 1): M } type M { x: Int, y: M }")

        async def source(root, ctx, info, **kw):
            for i in range(nevents):
                yield {"x": i, "y": {"x": 10 + i}}

        def res_s(root, ctx, info, **kw):
            rec.emit(e="res", p="/".join(map(str, info.path)))
            return root

        def res_x(root, ctx, info, **kw):
            rec.emit(e="res", p="/".join(map(str, info.path)))
            return root["x"]

        def res_y(root, ctx, info, **kw):
            rec.emit(e="res", p="/".join(map(str, info.path)))
            return root.get("y")
        schema.register_subscription("Subscription", "s", source)
        schema.register_resolver("Subscription", "s", res_s)
        schema.register_resolver("M", "x", res_x)
        schema.register_resolver("M", "y", res_y)
        loop = asyncio.new_event_loop()
        exc = None
        q = "subscription { s { x y { x } } }"
        try:
            rt = AsyncIORuntime(loop=loop, execute_blocking_functions_in_thread=False)

            async def main():
                stream = await subscribe(schema, parse(q), runtime=rt, instrumentation=rec.instrumentation())
                async for _ in stream:
                    rec.emit(e="ev")
            loop.run_until_complete(main())
        except Exception as e:
            exc = repr(e)
        finally:
            loop.close()
        logs.append({"cfg": "asyncio", "ninstr": ni, "nmw": nm, "events": rec.log, "crash": False, "sub": True,
                     "request": "subscription-%d-events" % nevents, "query": q, "exception": exc})
    return logs


def norm_events(events):
    return [{"e": ev["e"], "i": ev.get("i", 0), "m": ev.get("m", 0), "p": ev.get("p", "")} for ev in events]


def judge(chk, logs, label):
    traces = [{"events": norm_events(l["events"]), "ninstr": max(1, l["ninstr"]), "nmw": l["nmw"], "crash": bool(l["crash"]), "sub": bool(l.get("sub"))} for l in logs]
    shards = par.chunks(list(enumerate(traces)), min(par.NPROC, max(1, len(traces) // 300)))
    cfg = tlc.cfg(invariants=["Verdict"])

    def one(part):
        fd, path = tempfile.mkstemp(prefix="hk-", suffix=".json")
        with os.fdopen(fd, "w") as f:
            json.dump([t for _, t in part], f)
        try:
            r = chk.tlc("GqlHooks", cfg, env={"TRACE_FILE": path}, tags=["HK"], workers=2, heap="3g", label="%s [%d traces]" % (label, len(part)))
            if r.rc != 0:
                raise tlc.TLCError("GqlHooks failed: %s\n%s" % (r.violated, r.tail))
            return [(part[v["tid"] - 1][0], v) for v in r.tagged("HK")]
        finally:
            os.unlink(path)
    out = {}
    with cf.ThreadPoolExecutor(len(shards)) as ex:
        for res in ex.map(one, shards):
            for idx, v in res:
                out[idx] = v
    return out


def run(chk):
    rng = random.Random(chk.seed)
    logs = []
    for op in ("query", "mutation"):
        behs = c08.generate(chk, op, 3)
        rng.shuffle(behs)
        lob = [b for b in behs[1500 if chk.quick else 12000:] if any(x["out"] == "lobj" for x in b["nodes"])]
        behs = behs[:1500 if chk.quick else 12000] + lob[:500 if chk.quick else 4000]      # (lists of objects: one field node, several paths)
        if not chk.quick:
            behs += c08.generate(chk, op, 5, simulate=4000, depth=26, label="GqlSched -simulate %s nodes<=5" % op)[:6000]
        c08.decorate(behs, rng)
        res = par.pmap(c08._worker, behs)
        for out, n, lg in res:
            logs += lg
    chk.count("execution logs", len(logs))
    nx = non_execution_logs(rng)
    chk.count("non-execution logs", len(nx))
    logs += nx
    sl = subscription_logs(rng)
    chk.count("subscription logs", len(sl))
    for l in sl:
        if l["exception"]:
            chk.diverge("hooks/subscription-raises", {"error": l["exception"], "events": l["events"][:30]}, "subscribe() under instrumentation raises")
    logs += sl
    hl, hextra = history_logs(rng)
    chk.count("shared-runtime history logs", len(hl))
    logs += hl
    for key, wit in hextra:
        chk.diverge(key, wit, "instrumentation / middleware clause of the request-history scenario is violated")
    # canaries: drop one fe event / swap two stage ends in accepted-looking traces
    canaries = []
    for l in logs:
        ev = l["events"]
        if not l["crash"] and any(e["e"] == "fe" for e in ev) and len(canaries) < 3:
            k = next(i for i, e in enumerate(ev) if e["e"] == "fe")
            canaries.append(dict(l, events=ev[:k] + ev[k + 1:], canary="fe dropped"))
        if not l["crash"] and l["ninstr"] >= 2 and any(e["e"] == "ee" for e in ev) and len(canaries) < 6:
            ks = [i for i, e in enumerate(ev) if e["e"] == "ee"]
            ev2 = list(ev)
            ev2[ks[0]], ev2[ks[1]] = ev2[ks[1]], ev2[ks[0]]
            canaries.append(dict(l, events=ev2, canary="ee order swapped"))
        if len(canaries) >= 6:
            break
    verdicts = judge(chk, logs + canaries, "GqlHooks")
    for j in range(len(logs), len(logs) + len(canaries)):
        if verdicts.get(j, {}).get("v") == "ok":
            from harness.core import Machinery
            raise Machinery("GqlHooks accepted a canary trace (%s): the judge does not bind" % canaries[j - len(logs)]["canary"])
    chk.count("canaries rejected", len(canaries))
    chk.traces += len(logs)
    missing = 0
    for idx, l in enumerate(logs):
        v = verdicts.get(idx)
        if v is None:
            missing += 1
            continue
        if v["v"] == "ok":
            continue
        at = v["at"]
        kind = l.get("request") or ("exec-" + l["plan"]["op"])
        kind = kind.split("-")[0] + "-nth-request" if kind.startswith("history-") else kind
        key = "hooks/%s/%s/top=%s/%s" % (v["v"], at["e"], at["top"], kind if l.get("request") else "execution")
        chk.diverge(key, {"cfg": l["cfg"], "ninstr": l["ninstr"], "nmw": l["nmw"], "at": at, "events": l["events"][:40],
                          "plan": l.get("plan"), "schedule": l.get("schedule"), "query": l.get("query")},
                    "hook / middleware event log violates the C16 discipline: %s at event %s" % (v["v"], at["e"]))
    if missing:
        from harness.core import Machinery
        raise Machinery("%d traces without verdict" % missing)
    ok = next(l for l in logs if not l["crash"] and l["events"])
    chk.sample({"cfg": ok["cfg"], "ninstr": ok["ninstr"], "nmw": ok["nmw"], "events": ok["events"][:30]})
    chk.assumptions += ["middleware order = apply_middlewares' documented order (last listed outermost)",
                        "after an unexpected resolver exception only the prefix discipline is required"]
    return chk.finish(rule="event logs of TLC-generated executions (all completion orders) on four configurations plus every non-execution "
                           "outcome, judged by GqlHooks; distinct = logs")


replay_cmd = c08.replay_file
