"""X01 (supplementary, not one of the twenty listed properties) - ResolverMap behaves as documented.

spec/GqlResolverMap.tla: two resolver maps and the operations register_resolver (incl. the "*" form), register_default_resolver,
register_subscription, default_resolver assignment and merge_resolvers, with the documented override rule; TLC enumerates every
operation sequence of <= MaxOps operations (exhaustive for 2, simulation beyond), checks NoInvention / Monotone on the model and
prints, for every reachable state, the history with the expected outcome of each operation (ok / ValueError) and the expected
answers of get_resolver / get_subscription for every (type, field).  Each history is replayed on fresh ResolverMap objects and on
Schema objects (Schema inherits ResolverMap): outcomes and lookups must agree.
Evidence goes to out/extra/X01.json (evidence/ is reserved for the listed properties)."""
import json
import os

from harness import core, par, tlc


def _replay(cases):
    from py_gql import build_schema
    from py_gql.schema import ResolverMap
    out = {}
    n = 0
    fns = {}

    def fn(r):
        if r not in fns:
            def f(root, ctx, info, **kw):
                return r
            f.rid = r
            fns[r] = f
        return fns[r]
    for c in cases:
        for kind in ("map", "schema"):
            n += 1
            if kind == "map":
                ms = {1: ResolverMap(), 2: ResolverMap()}
            else:
                sdl = "type Query { t: T u: U } type T { f: Int g: Int } type U { f: Int g: Int }"
                ms = {1: build_schema(sdl), 2: build_schema(sdl)}
            wit = {"kind": kind, "history": c["hist"]}
            bad = False
            for k, h in enumerate(c["hist"]):
                m = ms[h["m"]]
                try:
                    if h["op"] == "reg":
                        m.register_resolver(h["t"], h["f"], fn(h["r"]), allow_override=h["ov"])
                    elif h["op"] == "star":
                        m.register_resolver(h["t"], "*", fn(h["r"]), allow_override=h["ov"])
                    elif h["op"] == "def":
                        m.register_default_resolver(h["t"], fn(h["r"]), allow_override=h["ov"])
                    elif h["op"] == "sub":
                        m.register_subscription(h["t"], h["f"], fn(h["r"]), allow_override=h["ov"])
                    elif h["op"] == "setg":
                        m.default_resolver = fn(h["r"])
                    elif h["op"] == "merge":
                        m.merge_resolvers(ms[3 - h["m"]], allow_override=h["ov"])
                    got = True
                except ValueError:
                    got = False
                except Exception as e:
                    out.setdefault("rmap/raises/%s/%s/%s" % (type(e).__name__, h["op"], kind), ["unexpected exception", dict(wit, step=k, error=repr(e))])
                    bad = True
                    break
                if got != h["ok"]:
                    out.setdefault("rmap/outcome/%s/%s/%s" % (h["op"], "accepted-redefinition" if got else ("refused-with-allow_override" if h["ov"] else "refused"), kind),
                                   ["operation outcome differs from the documented override rule", dict(wit, step=k, expected_ok=h["ok"], got_ok=got)])
                    bad = True
                    break
            if bad or c["dead"]:
                continue
            for mi in (1, 2):
                exp = c["final"][mi - 1]
                for t in ("T", "U"):
                    for f in ("f", "g"):
                        r = ms[mi].get_resolver(t, f)
                        g = getattr(r, "rid", "") if r is not None else ""
                        if g != exp["get"][t][f]:
                            last = c["hist"][-1]["op"] if c["hist"] else "-"
                            out.setdefault("rmap/get_resolver/after-%s/%s" % (last, kind), ["get_resolver differs from the specification", dict(wit, map=mi, type=t, field=f, expected=exp["get"][t][f], got=g)])
                        s = ms[mi].get_subscription(t, f)
                        g = getattr(s, "rid", "") if s is not None else ""
                        if g != exp["sub"][t][f]:
                            out.setdefault("rmap/get_subscription/%s" % kind, ["get_subscription differs from the specification", dict(wit, map=mi, type=t, field=f, expected=exp["sub"][t][f], got=g)])
    return out, n


def run(chk):
    core.EVID = os.path.join(core.VERIF, "out", "extra")
    cfg = tlc.cfg(spec="Spec", constants={"MaxOps": 2}, invariants=["Emit", "NoInvention"], properties=["Monotone"])
    r = chk.tlc("GqlResolverMap", cfg, tags=["RMP"], label="GqlResolverMap ops<=2")
    if r.rc != 0:
        raise tlc.TLCError("GqlResolverMap: %s\n%s" % (r.violated, r.tail))
    cases = r.tagged("RMP")
    n = 3000 if chk.quick else 40000
    cfg = tlc.cfg(spec="Spec", constants={"MaxOps": 5}, invariants=["Emit", "NoInvention"])
    r = chk.tlc("GqlResolverMap", cfg, tags=["RMP"], simulate=n // 10, depth=6, seed=chk.seed, workers=1, cache=False, label="GqlResolverMap ops<=5 -simulate")
    cases += r.tagged("RMP")
    chk.exhaustive = False
    chk.count("histories", len(cases))
    for out, k in par.pmap(_replay, cases):
        chk.traces += k
        for key, (what, wit) in out.items():
            chk.diverge(key, wit, what)
    chk.sample({"history": cases[len(cases) // 2]["hist"]})
    return chk.finish(rule="every operation sequence <= 2 (exhaustive) + simulated sequences <= 5, on ResolverMap and Schema objects")


def replay_cmd(path):
    print(json.dumps(json.load(open(path)), indent=1)[:3000])
    return 0
