"""X02 (supplementary, not one of the twenty listed properties) - selected_fields returns every selected field path.

spec/GqlSelected.tla computes, for every top-level field of the first operation of an abstract document (the GqlValidate
generator: fragments, inline fragments, @skip / @include, repeated fields), the expected list of "/"-joined field-name paths for
maxdepth 0..3, with the sub-selections of fields that share a response key merged.  TLC judges the documents; the real
utilities.selected_fields is called on the parsed text and must return the same paths (as a multiset and in the same order).
Evidence goes to out/extra/X02.json."""
import json
import os
import random
import tempfile

from harness import core, par, tlc, valgamma


def judge(chk, docs):
    import concurrent.futures as cf
    shards = par.chunks(list(enumerate(docs)), min(par.NPROC, max(1, len(docs) // 60)))
    cfg = tlc.cfg(spec="SSpec", invariants=["SOut"])

    def one(part):
        fd, path = tempfile.mkstemp(prefix="sel-", suffix=".json")
        with os.fdopen(fd, "w") as f:
            json.dump([d for _, d in part], f)
        try:
            r = chk.tlc("GqlSelected", cfg, env={"TRACE_FILE": path}, tags=["SEL"], workers=1, heap="2g", label="GqlSelected [%d docs]" % len(part))
            if r.rc != 0:
                raise tlc.TLCError("GqlSelected failed: %s\n%s" % (r.violated, r.tail))
            return [(part[v["id"] - 1][0], v["e"]) for v in r.tagged("SEL")]
        finally:
            os.unlink(path)
    out = [None] * len(docs)
    with cf.ThreadPoolExecutor(len(shards)) as ex:
        for res in ex.map(one, shards):
            for idx, e in res:
                out[idx] = e
    return out


def _worker(cases):
    from py_gql.lang import ast as _ast, parse
    from py_gql.utilities import selected_fields
    out = {}
    n = skipped = 0
    for doc, exp in cases:
        text = valgamma.render(doc)
        try:
            ast = parse(text)
        except Exception:
            skipped += 1
            continue
        frags = {}
        for d in ast.definitions:
            if isinstance(d, _ast.FragmentDefinition):
                frags.setdefault(d.name.value, d)
        ops = [d for d in ast.definitions if isinstance(d, _ast.OperationDefinition)]
        if not ops or not exp:
            continue
        tops = [s for s in ops[0].selection_set.selections if isinstance(s, _ast.Field) and s.selection_set is not None]
        variables = {v["name"]: True for d in doc["defs"] if d["k"] == "op" for v in d["vars"]}
        for node, per in zip(tops, exp):
            for md, want in enumerate(per):
                n += 1
                try:
                    got = selected_fields(node, fragments=frags, variables=variables, maxdepth=md)
                except Exception as e:
                    skipped += 1      # directives the helper cannot evaluate (documents that validation rejects)
                    continue
                if got != want:
                    kind = "missing-paths" if set(want) - set(got) else "extra-paths" if set(got) - set(want) else "order-or-duplicates"
                    out.setdefault("selected/%s/maxdepth=%d" % (kind, md), ["selected_fields differs from the specification", {"query": text, "field": node.name.value, "maxdepth": md, "expected": want, "got": got}])
    return out, n, skipped


def run(chk):
    core.EVID = os.path.join(core.VERIF, "out", "extra")
    rng = random.Random(chk.seed)
    docs = [valgamma.gen_doc(rng) for _ in range(5000 if chk.quick else 40000)]
    docs = [d for d in docs if any(x["k"] == "op" for x in d["defs"])]
    exp = judge(chk, docs)
    cases = [(d, e) for d, e in zip(docs, exp) if e]
    chk.count("documents with a composite top-level field", len(cases))
    sk = 0
    for out, n, s in par.pmap(_worker, cases):
        chk.traces += n
        sk += s
        for k, (what, wit) in out.items():
            chk.diverge(k, wit, what)
    chk.count("calls skipped (helper raised on directives validation would reject)", sk)
    chk.exhaustive = False
    return chk.finish(rule="random abstract documents x top-level composite fields x maxdepth 0..3")


def replay_cmd(path):
    print(json.dumps(json.load(open(path)), indent=1)[:3000])
    return 0
