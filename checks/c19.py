"""C19 - Depth limiting flags exactly the operations deeper than the limit.

R1: spec/GqlDepth.tla WrapInvariant (wrapping in fragments never changes the depth; a field level adds exactly one).
R2: TLC builds every operation of <= MaxSteps build actions (fields, inline fragments, named fragment spreads, @skip/@include
    steered by $v), chooses v and the operation-name filter, and computes the set of operations to flag for limits 0..5;
    each is replayed into MaxDepthValidationRule directly and through validate_ast."""
import signal

from harness import par, tlc

SCHEMA_SDL = "schema { query: O }  type O { a: Int  o: O }"
FRAGS = "fragment F on O { o { a } }\nfragment G on O { a }\nfragment H on O { o { ...F } }\n"
DIR = {"": "", "skipT": " @skip(if: true)", "inclV": " @include(if: $v)", "skipV": " @skip(if: $v)",
       "sFiF": " @skip(if: false) @include(if: false)", "iTsF": " @include(if: true) @skip(if: false)"}


def render_sel(sel, depth=0):
    out = []
    for i, s in enumerate(sel):
        k = s["k"]
        if k == "leaf":
            out.append("a")
        elif k == "obj":
            out.append("o%s { %s }" % (DIR[s["dir"]], render_sel(s["sel"], depth + 1)))
        elif k == "inline":
            cond = " on O" if (i + depth) % 2 == 0 else ""
            out.append("...%s%s { %s }" % (cond, DIR[s["dir"]], render_sel(s["sel"], depth)))
        else:
            out.append("...%s%s" % (s["name"], DIR[s["dir"]]))
    return " ".join(out)


def uses_var(sel):
    return any(s["dir"] in ("inclV", "skipV") or uses_var(s["sel"]) for s in sel)


def features(sel):
    kinds = {s["k"] for s in sel}
    f = []
    if kinds <= {"leaf"}:
        f.append("flat")
    if "inline" in kinds:
        f.append("top-inline")
    if "spread" in kinds:
        f.append("top-spread")

    def twins(sel):
        n = sum(1 for s in sel if s["k"] == "obj")
        n += sum(1 for s in sel if s["k"] == "spread" and s["name"] in ("F", "H"))
        return n > 1 or any(twins(s["sel"]) for s in sel) or any(s["k"] == "inline" for s in sel) and (
            sum(1 for s in sel for x in ([s] if s["k"] != "inline" else s["sel"]) if x["k"] == "obj" or (x["k"] == "spread" and x["name"] in ("F", "H"))) > 1)
    if twins(sel):
        f.append("same-key-fields")

    def anydir(sel):
        return any(s["dir"] or anydir(s["sel"]) for s in sel)
    if anydir(sel):
        f.append("directives")
    return "+".join(f) or "plain"


BUDGET_S = 2        # CPU seconds of the worker (ITIMER_VIRTUAL): independent of the load of the machine


class _RunsAway(BaseException):
    pass


def _alarm(signum, frame):
    raise _RunsAway()


def guarded(rule, schema, doc, variables):
    signal.setitimer(signal.ITIMER_VIRTUAL, BUDGET_S)
    try:
        return list(rule(schema, doc, variables))
    except _RunsAway:
        raise RuntimeError("measuring one small operation takes longer than %d s" % BUDGET_S)
    finally:
        signal.setitimer(signal.ITIMER_VIRTUAL, 0)


def doc_size(doc):
    """Number of selection nodes of a document (cheap fingerprint: a rule that grows the tree it measures is caught at once).
    Total on damaged trees: a selection list reached twice (shared or cyclic) or more than 20000 nodes give -1."""
    n = 0
    seen = set()
    stack = [d.selection_set.selections for d in doc.definitions]
    while stack:
        sels = stack.pop()
        if id(sels) in seen:
            return -1
        seen.add(id(sels))
        for x in sels:
            n += 1
            if n > 20000:
                return -1
            ss = getattr(x, "selection_set", None)
            if ss is not None:
                stack.append(ss.selections)
    return n


def _worker(behs):
    """Total: a rule that exhausts the worker's (capped) memory is a divergence of the rule, not a failure of the harness."""
    out, n, docs = {}, [0], {}
    try:
        _worker_inner(behs, out, n, docs)
    except MemoryError:
        docs.clear()
        out.setdefault("depth/exhausts-memory", ["measuring small operations exhausts the worker's address space (3 GB): the rule grows what it measures",
                                                 {"behaviours_in_batch": len(behs), "measurements_before": n[0]}])
    return out, n[0]


def _worker_inner(behs, out, nbox, docs):
    from py_gql import build_schema, process_graphql_query
    from py_gql.lang import parse, print_ast
    from py_gql.utilities import MaxDepthValidationRule
    from py_gql.validation import validate_ast
    schema = build_schema(SCHEMA_SDL)
    n = 0
    signal.signal(signal.SIGVTALRM, _alarm)
    try:        # a rule that doubles a list on every step exhausts the machine within the time budget: cap the worker's address space
        import resource
        soft, hard = resource.getrlimit(resource.RLIMIT_AS)
        cap = 3 << 30
        resource.setrlimit(resource.RLIMIT_AS, (cap if hard == resource.RLIM_INFINITY else min(cap, hard), hard))
    except Exception:
        pass
    # long-lived rule instances and parsed documents: the verdict must not depend on earlier calls (C19 is a pure
    # function of document, variables, limit and filter)
    rules = {}
    runaway = 0
    for b in behs:
        nbox[0] = n
        if runaway >= 3:
            break           # the violation is reported; replaying the rest at BUDGET_S per measurement would take hours
        sel = b["sel"]
        var = "($v: Boolean!)" if uses_var(sel) else ""
        text = "query A%s { %s }\nquery B { ...H }\n%s" % (var, render_sel(sel), FRAGS)
        doc = docs.get(text)
        if doc is None:
            if len(docs) > 2000:
                docs.clear()
            doc = docs[text] = parse(text)
        printed_before = print_ast(doc)
        size_before = doc_size(doc)
        modified = False
        variables = {"v": b["v"]} if var else {}
        fl = b["flagged"]
        feat = features(sel)
        for limit in range(6):
            exp = sorted(fl[str(limit)] if isinstance(fl, dict) else fl[limit])
            filt = b["filter"] or None
            near = abs(limit - b["depth"]) <= 1
            for via in (("direct", "validate_ast") + (("entry-point",) if var else ()) if near else ("direct",)):
                n += 1
                wit = {"text": text, "variables": variables, "limit": limit, "operation_name": filt, "expected_flagged": exp,
                       "spec_depth": b["depth"], "via": via}
                try:
                    signal.setitimer(signal.ITIMER_VIRTUAL, BUDGET_S)       # a measurement takes microseconds: seconds mean it runs away
                    rule = rules.get((limit, filt))
                    if rule is None:
                        rule = rules[(limit, filt)] = MaxDepthValidationRule(limit, operation_name=filt)
                    if via == "direct":
                        errs = list(rule(schema, doc, variables))
                    elif via == "entry-point":
                        # the top-level entry point hands the request's variables to the validators it was given
                        res = process_graphql_query(schema, doc, variables=variables, operation_name="A", validators=[rule])
                        errs = [e for e in (res.errors or []) if "exceeds maximum depth" in str(e)]
                        if len(errs) != len(res.errors or []):
                            raise RuntimeError("unexpected errors: %s" % [str(e) for e in res.errors][:2])
                    else:
                        errs = list(validate_ast(schema, doc, validators=[rule], variables=variables).errors)
                    got = sorted(e.nodes[0].name.value for e in errs)
                    signal.setitimer(signal.ITIMER_VIRTUAL, 0)
                except _RunsAway:
                    out.setdefault("depth/does-not-terminate/%s" % feat, ["measuring one small operation takes longer than %d s" % BUDGET_S, wit])
                    modified = True
                    runaway += 1
                    break
                except Exception as e:
                    signal.setitimer(signal.ITIMER_VIRTUAL, 0)
                    out.setdefault("depth/raises/%s/%s" % (type(e).__name__, feat), ["depth rule raises", dict(wit, error=repr(e))])
                    continue
                if got != exp:
                    kind = "not-flagged" if len(got) < len(exp) else ("spurious-flag" if len(got) > len(exp) else "wrong-operation")
                    out.setdefault("depth/%s/%s" % (kind, feat), ["flagged operations differ from the specification", dict(wit, got=got)])
                if doc_size(doc) != size_before:
                    modified = True
                    break
            if modified:
                break
        # a validator reads the document: the tree it was given is the same afterwards (servers cache parsed documents)
        if not modified:
            try:
                modified = doc_size(doc) != size_before or print_ast(doc) != printed_before
            except BaseException:           # (a tree that can no longer be printed has certainly been changed)
                modified = True
        if modified:
            out.setdefault("depth/document-modified/%s" % feat, ["the rule changed the document it measured", {"text": text, "selections_before": size_before, "selections_after": doc_size(doc)}])
            docs.pop(text, None)
            continue            # (a rule that rewrites its input is reported once per document; the remaining stages need an intact one)
        # ---- the same selection as the document's only, ANONYMOUS operation: a name filter selects nothing, no filter measures it
        extra = (hash(text) % 3 == 0)
        if b["filter"] != "B" and extra:
            atext = "query%s { %s }\n%s" % (var, render_sel(sel), FRAGS)
            adoc = parse(atext)
            for limit in (b["depth"] - 1, b["depth"]):
                if limit < 0:
                    continue
                for filt in (None, "A"):
                    n += 1
                    exp = ["<anonymous>"] if (filt is None and b["depth"] > limit) else []
                    wit = {"text": atext, "variables": variables, "limit": limit, "operation_name": filt, "expected_flagged": exp, "spec_depth": b["depth"]}
                    try:
                        errs = guarded(MaxDepthValidationRule(limit, operation_name=filt), schema, adoc, variables)
                        got = sorted((e.nodes[0].name.value if e.nodes[0].name else "<anonymous>") for e in errs)
                    except Exception as e:
                        out.setdefault("depth/raises/%s/anonymous+%s" % (type(e).__name__, feat), ["depth rule raises", dict(wit, error=repr(e))])
                        continue
                    if got != exp:
                        out.setdefault("depth/anonymous-operation/%s/filter=%s" % ("not-flagged" if len(got) < len(exp) else "spurious-flag", filt),
                                       ["flagged operations differ from the specification (anonymous operation)", dict(wit, got=got)])
        # ---- the value of $v comes from the DEFAULT the operation declares (no variables submitted): same verdict; and a
        #      variable without any value never makes the rule raise (the verdict is then not specified)
        if var and b["filter"] != "B" and extra:
            dtext = "query A($v: Boolean = %s) { %s }\nquery B { ...H }\n%s" % ("true" if b["v"] else "false", render_sel(sel), FRAGS)
            ddoc = parse(dtext)
            for limit in (b["depth"] - 1, b["depth"]):
                if limit < 0:
                    continue
                n += 1
                fl_l = sorted(fl[str(limit)] if isinstance(fl, dict) else fl[limit])
                wit = {"text": dtext, "variables": {}, "limit": limit, "operation_name": b["filter"] or None, "expected_flagged": fl_l, "spec_depth": b["depth"]}
                for submitted, label in (({}, "declared-default"), (None, "declared-default")):
                    try:
                        errs = guarded(MaxDepthValidationRule(limit, operation_name=b["filter"] or None), schema, ddoc, submitted)
                        got = sorted(e.nodes[0].name.value for e in errs)
                    except Exception as e:
                        out.setdefault("depth/raises/%s/variable-with-%s" % (type(e).__name__, label), ["depth rule raises", dict(wit, error=repr(e))])
                        break
                    if got != fl_l:
                        out.setdefault("depth/variable-default-ignored/%s" % ("not-flagged" if len(got) < len(fl_l) else "spurious-flag"),
                                       ["with no submitted value the variable has its declared default: flagged operations differ", dict(wit, got=got)])
                try:
                    guarded(MaxDepthValidationRule(limit), schema, doc, {})        # $v: Boolean! without a value
                except Exception as e:
                    out.setdefault("depth/raises/%s/variable-without-value" % type(e).__name__, ["depth rule raises", dict(wit, text=text, error=repr(e))])
    nbox[0] = n


CYCLIC = [
    ("through-a-field", "{ ...A }\nfragment A on O { o { ...A } }"),
    ("direct", "{ a ...A }\nfragment A on O { a ...A }"),
    ("two-fragments", "query Q { o { ...A } }\nfragment A on O { o { ...B } }\nfragment B on O { a o { ...A } }"),
    ("behind-a-sibling", "{ o { ...G ...A } }\nfragment G on O { a }\nfragment A on O { o { ...G ...A } }"),
]


def cyclic_probe(out):
    """Documents with fragment cycles are executable documents too (the depth rule runs next to the rule that reports cycles):
    it must return, never raise.  A cycle through a field level nests without bound, so every limit is exceeded; a cycle that
    adds no level ("direct") has the depth of its fields."""
    from py_gql import build_schema
    from py_gql.lang import parse
    from py_gql.utilities import MaxDepthValidationRule
    schema = build_schema(SCHEMA_SDL)
    n = 0
    for label, text in CYCLIC:
        doc = parse(text)
        for limit in (0, 3, 50):
            n += 1
            wit = {"text": text, "limit": limit}
            try:
                errs = list(MaxDepthValidationRule(limit)(schema, doc, {}))
            except BaseException as e:
                out.setdefault("depth/raises/%s/fragment-cycle-%s" % (type(e).__name__, label), ["depth rule raises on a document with a fragment cycle", dict(wit, error=repr(e)[:200])])
                break
            flagged = bool(errs)
            if label != "direct" and not flagged:
                out.setdefault("depth/not-flagged/fragment-cycle-%s" % label, ["an operation that nests without bound is not flagged", wit])
            if label == "direct" and flagged:
                out.setdefault("depth/spurious-flag/fragment-cycle-direct", ["a flat operation is flagged", wit])
    return n


def run(chk):
    steps = 5 if chk.quick else 6
    cfg = tlc.cfg(constants={"MaxSteps": steps, "UseDirs": False}, invariants=["Out", "WrapInvariant"])
    r1 = chk.tlc("GqlDepth", cfg, tags=["DOC"], coverage=True, label="GqlDepth steps<=%d, no directives" % steps)
    steps2 = 3 if chk.quick else 4
    cfg2 = tlc.cfg(constants={"MaxSteps": steps2, "UseDirs": True}, invariants=["Out", "WrapInvariant"])
    r2 = chk.tlc("GqlDepth", cfg2, tags=["DOC"], coverage=True, label="GqlDepth steps<=%d, with directives" % steps2)
    for r in (r1, r2):
        if r.rc != 0:
            raise tlc.TLCError("GqlDepth invariant violated: %s\n%s" % (r.violated, r.tail))
        tlc.require_coverage(r, ["AddLeaf", "AddSpread", "Open", "Close", "Finish"])
    behs = r1.tagged("DOC") + r2.tagged("DOC")
    chk.count("documents", len(behs))
    res = par.pmap(_worker, behs)
    for out, n in res:
        chk.traces += n
        for k, (what, wit) in out.items():
            chk.diverge(k, wit, what)
    probe = {}
    chk.traces += cyclic_probe(probe)
    for k, (what, wit) in probe.items():
        chk.diverge(k, wit, what)
    chk.sample({"sel": behs[len(behs) // 2]["sel"], "depth": behs[len(behs) // 2]["depth"], "filter": behs[len(behs) // 2]["filter"]})
    chk.assumptions += ["depth = number of nested field selection sets below the operation's own (the library's documented example has depth 4)"]
    return chk.finish(rule="every operation buildable in <= MaxSteps actions x v x operation-name filter x limits 0..5 x 2 call paths")


def replay(path):
    import json
    print(json.dumps(json.load(open(path)), indent=1)[:3000])
    return 0
