"""C19 - Depth limiting flags exactly the operations deeper than the limit.

R1: spec/GqlDepth.tla WrapInvariant (wrapping in fragments never changes the depth; a field level adds exactly one).
R2: TLC builds every operation of <= MaxSteps build actions (fields, inline fragments, named fragment spreads, @skip/@include
    steered by $v), chooses v and the operation-name filter, and computes the set of operations to flag for limits 0..5;
    each is replayed into MaxDepthValidationRule directly and through validate_ast."""
from harness import par, tlc

SCHEMA_SDL = "schema { query: O }  type O { a: Int  o: O }"
FRAGS = "fragment F on O { o { a } }\nfragment G on O { a }\nfragment H on O { o { ...F } }\n"
DIR = {"": "", "skipT": " @skip(if: true)", "inclV": " @include(if: $v)", "skipV": " @skip(if: $v)"}


def render_sel(sel, depth=0):
    out = []
    for i, s in enumerate(sel):
        k = s["k"]
        if k == "leaf":
            out.append("a")
        elif k == "obj":
            out.append("o%s { %s }" % (DIR[s["dir"]], render_sel(s["sel"], depth + 1)))
        elif k == "inline":
            cond = " on O" if (i + depth) % 2 == 0 else ""
            out.append("...%s%s { %s }" % (cond, DIR[s["dir"]], render_sel(s["sel"], depth)))
        else:
            out.append("...%s%s" % (s["name"], DIR[s["dir"]]))
    return " ".join(out)


def uses_var(sel):
    return any(s["dir"] in ("inclV", "skipV") or uses_var(s["sel"]) for s in sel)


def features(sel):
    kinds = {s["k"] for s in sel}
    f = []
    if kinds <= {"leaf"}:
        f.append("flat")
    if "inline" in kinds:
        f.append("top-inline")
    if "spread" in kinds:
        f.append("top-spread")

    def twins(sel):
        n = sum(1 for s in sel if s["k"] == "obj")
        n += sum(1 for s in sel if s["k"] == "spread" and s["name"] in ("F", "H"))
        return n > 1 or any(twins(s["sel"]) for s in sel) or any(s["k"] == "inline" for s in sel) and (
            sum(1 for s in sel for x in ([s] if s["k"] != "inline" else s["sel"]) if x["k"] == "obj" or (x["k"] == "spread" and x["name"] in ("F", "H"))) > 1)
    if twins(sel):
        f.append("same-key-fields")

    def anydir(sel):
        return any(s["dir"] or anydir(s["sel"]) for s in sel)
    if anydir(sel):
        f.append("directives")
    return "+".join(f) or "plain"


def _worker(behs):
    from py_gql import build_schema
    from py_gql.lang import parse
    from py_gql.utilities import MaxDepthValidationRule
    from py_gql.validation import validate_ast
    schema = build_schema(SCHEMA_SDL)
    out = {}
    n = 0
    # long-lived rule instances and parsed documents: the verdict must not depend on earlier calls (C19 is a pure
    # function of document, variables, limit and filter)
    rules = {}
    docs = {}
    for b in behs:
        sel = b["sel"]
        var = "($v: Boolean!)" if uses_var(sel) else ""
        text = "query A%s { %s }\nquery B { o { o { a } } }\n%s" % (var, render_sel(sel), FRAGS)
        doc = docs.get(text)
        if doc is None:
            if len(docs) > 2000:
                docs.clear()
            doc = docs[text] = parse(text)
        variables = {"v": b["v"]} if var else {}
        fl = b["flagged"]
        feat = features(sel)
        for limit in range(6):
            exp = sorted(fl[str(limit)] if isinstance(fl, dict) else fl[limit])
            filt = b["filter"] or None
            for via in (("direct", "validate_ast") if abs(limit - b["depth"]) <= 1 else ("direct",)):
                n += 1
                wit = {"text": text, "variables": variables, "limit": limit, "operation_name": filt, "expected_flagged": exp,
                       "spec_depth": b["depth"], "via": via}
                try:
                    rule = rules.get((limit, filt))
                    if rule is None:
                        rule = rules[(limit, filt)] = MaxDepthValidationRule(limit, operation_name=filt)
                    if via == "direct":
                        errs = list(rule(schema, doc, variables))
                    else:
                        errs = list(validate_ast(schema, doc, validators=[rule], variables=variables).errors)
                    got = sorted(e.nodes[0].name.value for e in errs)
                except Exception as e:
                    out.setdefault("depth/raises/%s/%s" % (type(e).__name__, feat), ["depth rule raises", dict(wit, error=repr(e))])
                    continue
                if got != exp:
                    kind = "not-flagged" if len(got) < len(exp) else ("spurious-flag" if len(got) > len(exp) else "wrong-operation")
                    out.setdefault("depth/%s/%s" % (kind, feat), ["flagged operations differ from the specification", dict(wit, got=got)])
    return out, n


def run(chk):
    steps = 5 if chk.quick else 6
    cfg = tlc.cfg(constants={"MaxSteps": steps, "UseDirs": False}, invariants=["Out", "WrapInvariant"])
    r1 = chk.tlc("GqlDepth", cfg, tags=["DOC"], coverage=True, label="GqlDepth steps<=%d, no directives" % steps)
    steps2 = 3 if chk.quick else 4
    cfg2 = tlc.cfg(constants={"MaxSteps": steps2, "UseDirs": True}, invariants=["Out", "WrapInvariant"])
    r2 = chk.tlc("GqlDepth", cfg2, tags=["DOC"], coverage=True, label="GqlDepth steps<=%d, with directives" % steps2)
    for r in (r1, r2):
        if r.rc != 0:
            raise tlc.TLCError("GqlDepth invariant violated: %s\n%s" % (r.violated, r.tail))
        tlc.require_coverage(r, ["AddLeaf", "AddSpread", "Open", "Close", "Finish"])
    behs = r1.tagged("DOC") + r2.tagged("DOC")
    chk.count("documents", len(behs))
    res = par.pmap(_worker, behs)
    for out, n in res:
        chk.traces += n
        for k, (what, wit) in out.items():
            chk.diverge(k, wit, what)
    chk.sample({"sel": behs[len(behs) // 2]["sel"], "depth": behs[len(behs) // 2]["depth"], "filter": behs[len(behs) // 2]["filter"]})
    chk.assumptions += ["depth = number of nested field selection sets below the operation's own (the library's documented example has depth 4)"]
    return chk.finish(rule="every operation buildable in <= MaxSteps actions x v x operation-name filter x limits 0..5 x 2 call paths")


def replay(path):
    import json
    print(json.dumps(json.load(open(path)), indent=1)[:3000])
    return 0
