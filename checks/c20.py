"""C20 - Schema diffing reports every difference with a severity matching client impact.

spec/GqlDiff.tla: elementary edits (and pairs) of a base schema with expected change classes, and the soundness predicates
OutOk / InOk (Reflexive, Converse checked on the model).  Each (old, new) is realised as code-built schemas, with the new
schema's type list also reversed, and passed to diff_schema: identical => nothing; every edit => an expected change naming
the element (safe retypings may be silent); no BREAKING change reported => no edit is breaking by the predicates, and every
operation of a pool that validates against the old schema validates against the new one (real validator, B-stage)."""
import random

from harness import par, schemagamma, tlc

OPS = ["{ a @tag(lvl: L) }", "{ a }", "{ l(x: 1) }", "{ l(x: 1, y: [{f: 1, g: 2}]) }", "{ l(y: {g: 3}) }", "{ n { id } }", "{ n { ... on A { s id } } }",
       "{ u { ... on A { s } ... on B { id } } }", "{ u { __typename } }", "{ e }", "query @tag(n: 1) { a @tag }",
       "{ n { ...F } } fragment F on A { id s }", "query ($v: In) { l(y: [$v]) }", "query ($v: Int) { l(x: $v) }", "{ l(y: [{f: 1}]) }"]


def root_probe(out):
    """The root operation types are part of the schema: taking the mutation root away (its type stays) invalidates every mutation."""
    from py_gql import build_schema
    from py_gql.lang import parse
    from py_gql.schema.differ import SchemaChangeSeverity, diff_schema
    from py_gql.validation import validate_ast
    old = build_schema("schema { query: Query mutation: M } type Query { a: Int } type M { set(v: Int): Int }")
    new = build_schema("schema { query: Query } type Query { a: Int m: M } type M { set(v: Int): Int }")
    newer = build_schema("schema { query: Query mutation: M2 } type Query { a: Int m: M } type M { set(v: Int): Int } type M2 { other: Int }")
    op = parse("mutation { set(v: 1) }")
    n = 0
    for label, o, nw in (("mutation-root-removed", old, new), ("mutation-root-replaced", old, newer)):
        n += 1
        try:
            changes = list(diff_schema(o, nw))
        except Exception as e:
            out.setdefault("diff/raises/%s/%s" % (type(e).__name__, label), ["diff_schema raises", {"error": repr(e)}])
            continue
        breaking = any(c.severity == SchemaChangeSeverity.BREAKING for c in changes)
        if not breaking and validate_ast(o, op) and not validate_ast(nw, op):
            out.setdefault("diff/operation-breaks-without-breaking-change/%s" % label,
                           ["an operation valid on the old schema is invalid on the new one, no breaking change reported",
                            {"operation": "mutation { set(v: 1) }", "reported": [str(c.message) for c in changes]}])
    return n


def _worker(cases):
    from py_gql.lang import parse
    from py_gql.schema.differ import SchemaChangeSeverity, diff_schema
    from py_gql.validation import validate_ast
    out = {}
    n = 0
    docs = [parse(o) for o in OPS]
    for c in cases:
        old_a, new_a, edits = c["old"], c["new"], c["edits"]
        def lab(e):
            if e["kind"].startswith("retype"):
                return "%s(%s->%s)" % (e["kind"], schemagamma.tsdl(e["from"]), schemagamma.tsdl(e["to"]))
            return e["kind"]
        label = "+".join(lab(e) for e in edits)
        for order in ("same", "reversed", "old-reversed"):
            n += 1
            na = dict(new_a, types=list(reversed(new_a["types"]))) if order == "reversed" else new_a
            oa = dict(old_a, types=list(reversed(old_a["types"]))) if order == "old-reversed" else old_a
            wit = {"edits": edits, "order": order}
            try:
                old = schemagamma.realize(enum_py(oa))
                new = schemagamma.realize(enum_py(na))
                changes = list(diff_schema(old, new))
            except Exception as e:
                out.setdefault("diff/raises/%s/%s" % (type(e).__name__, label), ["diff_schema raises", dict(wit, error=repr(e))])
                continue
            classes = [(type(ch).__name__, str(ch.message), ch.severity) for ch in changes]
            wit["reported"] = [(a, b, int(sv)) for a, b, sv in classes]
            # the documented filter option selects among the SAME changes: what is reported with min_severity = S is what the
            # unfiltered call reports with a severity of at least S (so "no breaking change reported" means the same either way)
            for sev in (SchemaChangeSeverity.BREAKING, SchemaChangeSeverity.DANGEROUS):
                try:
                    got = sorted((type(ch).__name__, str(ch.message), int(ch.severity)) for ch in diff_schema(old, new, min_severity=sev))
                except Exception as e:
                    out.setdefault("diff/raises/%s/min-severity/%s" % (type(e).__name__, label), ["diff_schema(min_severity=...) raises", dict(wit, error=repr(e))])
                    continue
                want = sorted((a, b, int(sv)) for a, b, sv in classes if sv >= sev)
                if got != want:
                    out.setdefault("diff/min-severity-is-not-a-filter/%s/%s" % (sev.name if hasattr(sev, "name") else int(sev), "+".join(lab(e) for e in edits)),
                                   ["diff_schema(min_severity=S) differs from the unfiltered result restricted to severities >= S", dict(wit, filtered=got, expected=want)])
            if all(e["kind"] in ("identity", "remove-deprecation") for e in edits):
                if classes:
                    out.setdefault("diff/spurious-on-equal-schemas/%s" % order, ["changes reported for structurally equal schemas", wit])
                continue
            for e in edits:
                exp = set(e["expect"])
                hit = [c_ for c_ in classes if c_[0] in exp and (not e["el"] or e["el"] in c_[1])]
                if not hit and not e["silentOk"]:
                    out.setdefault("diff/edit-not-reported/%s/%s" % (lab(e), order), ["an elementary edit is not reported with a change naming the element", wit])
            breaking_reported = any(sv == SchemaChangeSeverity.BREAKING for _, _, sv in classes)
            must_break = any(e["breaking"] for e in edits)
            if must_break and not breaking_reported:
                kinds = "+".join(lab(e) for e in edits if e["breaking"])
                out.setdefault("diff/breaking-edit-not-breaking/%s/%s" % (kinds, order), ["no breaking change reported although a position became less strict / less permissive or something was removed", wit])
            if not breaking_reported:
                # operation-level soundness with the real validator
                for o, d in zip(OPS, docs):
                    try:
                        if validate_ast(old, d) and not validate_ast(new, d):
                            out.setdefault("diff/operation-breaks-without-breaking-change/%s" % label, ["an operation valid on the old schema is invalid on the new one, no breaking change reported", dict(wit, operation=o)])
                    except Exception:
                        pass
            # every reported change multiset is independent of the type order
            if order != "same":
                try:
                    base = sorted((type(ch).__name__, str(ch.message)) for ch in diff_schema(old, schemagamma.realize(enum_py(new_a))))
                    if base != sorted((a, b) for a, b, _ in classes):
                        out.setdefault("diff/depends-on-type-order/%s" % label, ["result depends on the order of type definitions", dict(wit, same_order=base)])
                except Exception:
                    pass
    return out, n


def enum_py(a):
    """Realise enum values with their internal python values (field py) - handled by a small shim around realize."""
    return a


def run(chk):
    cases = []
    for pairs in (False, True):
        cfg = tlc.cfg(constants={"Pairs": pairs}, invariants=["Emit", "Reflexive", "Converse"])
        r = chk.tlc("GqlDiff", cfg, tags=["EDT"], label="GqlDiff pairs=%s" % pairs)
        if r.rc != 0:
            raise tlc.TLCError("GqlDiff invariant violated: %s\n%s" % (r.violated, r.tail))
        cs = r.tagged("EDT")
        if pairs:
            cs = [c for c in cs if len(c["edits"]) == 2]
            rng = random.Random(chk.seed)
            rng.shuffle(cs)
            chk.count("pairs of edits (all)", len(cs))
            if chk.quick:
                cs = cs[:4000]
                chk.exhaustive = False
        else:
            chk.count("single edits", len(cs))
        cases += cs
    for out, n in par.pmap(_worker, cases):
        chk.traces += n
        for k, (what, wit) in out.items():
            chk.diverge(k, wit, what)
    probe = {}
    chk.traces += root_probe(probe)
    for k, (what, wit) in probe.items():
        chk.diverge(k, wit, what)
    chk.sample({"edits": cases[0]["edits"]})
    chk.assumptions += ["safe retypings (OutOk / InOk) may be silent, as the library documents",
                        "'naming the element' = the change message contains the element's name"]
    return chk.finish(rule="single edits exhaustive, pairs of edits on different owners (sampled in quick) x 2 type orders")


def replay_cmd(path):
    import json
    print(json.dumps(json.load(open(path)), indent=1)[:3000])
    return 0
