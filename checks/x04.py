"""X04 (supplementary, not one of the twenty listed properties) - the Apollo-tracing extension reports the request it observed.

The request matrix of spec/GqlRequest.tla (documents x operation names x variable payloads, enumerated by TLC) is run on the four
entry-point configurations with MultiInstrumentation(recording instrumentation, ApolloTracer); the tracer's payload is projected
(sections present, resolver paths / offsets / durations, total duration; times are clamped to 2^30 ns units for TLC's integers) and
judged clause by clause by spec/GqlTracing.tla against the hook events the recorder saw in the same request.
Evidence goes to out/extra/X04.json (evidence/ is reserved for the listed properties)."""
import json
import os
import tempfile

from checks import c10
from harness import core, schedreplay, tlc

UNIT = 1000      # payload times are ns; TLC integers are 32 bit: judge in microseconds, clamped


def clamp(x):
    if not isinstance(x, (int, float)) or isinstance(x, bool):
        return -1
    return max(-1, min(int(x // UNIT), 2 ** 30))


def run(chk):
    import asyncio
    from py_gql import process_graphql_query
    from py_gql.execution import BlockingExecutor, MultiInstrumentation
    from py_gql.execution.runtime import AsyncIORuntime, ThreadPoolRuntime
    from py_gql.tracers import ApolloTracer
    core.EVID = os.path.join(core.VERIF, "out", "extra")
    cfg = tlc.cfg(invariants=["Out", "Sane"])
    r = chk.tlc("GqlRequest", cfg, tags=["REQ"], label="GqlRequest documents x operation names x variables")
    if r.rc != 0:
        raise tlc.TLCError("GqlRequest invariant violated: %s\n%s" % (r.violated, r.tail))
    schema = c10.make_schema()
    cases, meta = [], []
    for q in r.tagged("REQ"):
        text = c10.DOCS[q["doc"]]
        for cfgname in c10.CONFIGS:
            rec = schedreplay.Recorder(1, 0)
            tracer = ApolloTracer()
            kw = {"variables": c10.vars_for(q), "operation_name": q["opname"] or None, "instrumentation": MultiInstrumentation(rec.instrumentation(), tracer)}
            m = {"doc": q["doc"], "opname": q["opname"], "vars": q["vars"], "cfg": cfgname, "outcome": q["outcome"], "text": text}
            try:
                if cfgname == "blocking-optimised":
                    process_graphql_query(schema, text, executor_cls=BlockingExecutor, **kw)
                elif cfgname == "blocking-generic":
                    process_graphql_query(schema, text, **kw)
                elif cfgname == "pool":
                    rt = ThreadPoolRuntime(max_workers=2)
                    try:
                        process_graphql_query(schema, text, runtime=rt, **kw).result(timeout=90)
                    finally:
                        rt._inner.shutdown()
                else:
                    loop = asyncio.new_event_loop()
                    try:
                        rt = AsyncIORuntime(loop=loop, execute_blocking_functions_in_thread=False)

                        async def main():
                            return await process_graphql_query(schema, text, runtime=rt, **kw)
                        loop.run_until_complete(main())
                    finally:
                        loop.close()
                payload = tracer.payload()
            except Exception as e:
                if q["doc"] == "syntaxEsc":
                    continue        # (the known C01 / C10 finding: the request itself raises IndexError)
                chk.diverge("tracing/raises/%s/%s" % (type(e).__name__, q["outcome"]), dict(m, error=repr(e)[:300]), "request under the tracer (or its payload) raises")
                continue
            try:
                json.dumps(payload, allow_nan=False)
                json_ok = True
            except Exception:
                json_ok = False
            ex = payload.get("execution") or {}
            cases.append({"events": [{"e": ev["e"], "p": ev.get("p", "")} for ev in rec.log if ev["e"] in ("qs", "qe", "ps", "pe", "vs", "ve", "es", "ee", "fs", "fe")],
                          "parsing": payload.get("parsing") is not None, "validation": payload.get("validation") is not None,
                          "execution": payload.get("execution") is not None,
                          "resolvers": [{"p": "/".join(map(str, x.get("path", []))), "start": clamp(x.get("startOffset")), "dur": clamp(x.get("duration"))} for x in ex.get("resolvers", [])],
                          "total": clamp(payload.get("duration")), "jsonOk": json_ok})
            meta.append(m)
    chk.count("requests traced", len(cases))
    fd, path = tempfile.mkstemp(prefix="trc-", suffix=".json")
    with os.fdopen(fd, "w") as f:
        json.dump(cases, f)
    try:
        jr = chk.tlc("GqlTracing", tlc.cfg(invariants=["Verdict"]), env={"TRACE_FILE": path}, tags=["TRC"], workers=4, label="GqlTracing [%d cases]" % len(cases))
    finally:
        os.unlink(path)
    if jr.rc != 0:
        raise tlc.TLCError("GqlTracing failed: %s\n%s" % (jr.violated, jr.tail))
    verdicts = {v["i"]: v["v"] for v in jr.tagged("TRC")}
    if len(verdicts) != len(cases):
        raise core.Machinery("%d cases, %d verdicts" % (len(cases), len(verdicts)))
    chk.traces += len(cases)
    for k, c in enumerate(cases, 1):
        for clause in verdicts[k]:
            chk.diverge("tracing/%s/%s" % (clause, meta[k - 1]["outcome"]), dict(meta[k - 1], payload_summary={x: c[x] for x in ("parsing", "validation", "execution", "total")},
                                                                                resolvers=c["resolvers"][:6], events=c["events"][:20]),
                        "the tracing payload violates: " + clause)
    chk.sample({"case": cases[len(cases) // 2], "request": meta[len(cases) // 2]})
    return chk.finish(rule="request matrix of GqlRequest x 4 entry-point configurations, payload judged by GqlTracing against the recorded hooks")


def replay_cmd(path):
    print(json.dumps(json.load(open(path)), indent=1)[:3000])
    return 0
