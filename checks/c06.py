"""C06 - Validation verdicts match the specification and ignore irrelevant order.

spec/GqlValidate.tla holds 19 rules of section 5 as predicates keyed by the library's rule class names.  TLC judges every case
(batched, sharded): structured random documents, documents all of whose rules hold (the base for injections), 27 labelled
single injections into them, and metamorphic variants (permuted definitions / selections / arguments, consistently renamed
fragments and variables).  The real validator is asked rule by rule (default_validator(validators=[Rule])) and as a whole:
each modelled rule must fire exactly when its predicate fails, the full verdict must be empty exactly when all predicates hold
(documents on which an unmodelled rule fires are excluded from that clause), and variants must keep the verdict."""
import concurrent.futures as cf
import json
import os
import random
import re
import tempfile

from harness import par, tlc, valgamma

UNMODELLED = []
# An error is attributable to a specification rule when one of these visitor classes, run alone, reports.  "Fragment spread type
# existence" (5.5.1.2) is reported by FragmentsOnCompositeTypesChecker: type conditions are not visited as nodes, so
# KnownTypeNamesChecker never sees them (pinned by tests/test_validation/rules/test_known_type_names.py).
ATTRIBUTION = {"KnownTypeNamesChecker": ("KnownTypeNamesChecker", "FragmentsOnCompositeTypesChecker")}


def judge(chk, docs, label="GqlValidate", shapes=False):
    shards = par.chunks(list(enumerate(docs)), min(par.NPROC, max(1, len(docs) // 60)))
    cfg = tlc.cfg(invariants=["Out"])

    def one(part):
        fd, path = tempfile.mkstemp(prefix="val-", suffix=".json")
        with os.fdopen(fd, "w") as f:
            json.dump([d for _, d in part], f)
        try:
            r = chk.tlc("GqlValidate", cfg, env={"TRACE_FILE": path}, tags=["VAL"], workers=1, heap="3g", label="%s [%d docs]" % (label, len(part)))
            if r.rc != 0:
                raise tlc.TLCError("GqlValidate failed: %s\n%s" % (r.violated, r.tail))
            return [(part[v["id"] - 1][0], (v["v"], v["sh"]) if shapes else v["v"]) for v in r.tagged("VAL")]
        finally:
            os.unlink(path)
    out = [None] * len(docs)
    with cf.ThreadPoolExecutor(len(shards)) as ex:
        for res in ex.map(one, shards):
            for idx, v in res:
                out[idx] = v
    if any(v is None for v in out):
        from harness.core import Machinery
        raise Machinery("GqlValidate: cases without verdict")
    return out


ONS = ("Obj", "Obj2", "I")
COMBOS = {"general": [("general", on, vc, last, 2) for on in ONS for vc in ("none", "int", "list") for last in (False, True)],
          "merge": [("merge", on, "none", last, 3) for on in ONS for last in (False, True)],
          "dirs": [("dirs", on, vc, last, 2) for on in ONS for vc in ("bools", "boolint") for last in (False, True)]}


def enumerated(chk, rng):
    """Small-scope exhaustive stage: TLC (GqlValidateGen) enumerates every document of the scope and evaluates all predicates,
    the response shapes and OrderFree on each.  -> list of (doc, verdict, shapes)"""
    if chk.quick:
        plan = [(rng.choice(COMBOS[f]), 1) for f in ("general", "merge", "dirs")]
        # one merge scope in which F1 can really be spread below `o` (otherwise every document of the scope also breaks
        # PossibleFragmentSpreads and the merge rule is never the only broken one)
        plan.append((rng.choice([c for c in COMBOS["merge"] if c[1] != "Obj2" and c not in [p[0] for p in plan]]), 1))
    else:
        deep = rng.sample(COMBOS["general"], 3) + rng.sample(COMBOS["dirs"], 2)
        plan = [(c, 2 if c in deep else 1) for f in ("general", "merge", "dirs") for c in COMBOS[f]]
    nsh = 8 if chk.quick else 16
    jobs = [(c, mf, sh) for c, mf in plan for sh in range(nsh)]

    def one(job):
        (focus, on, vc, last, mo), mf, sh = job
        cfg = tlc.cfg(spec="GSpec", invariants=["GOut", "OrderFree"],
                      constants={"MaxOp": mo, "MaxF1": mf, "F1On": on, "VarsCfg": vc, "OpLast": last, "Shard": sh, "NShards": nsh, "Focus": focus})
        r = chk.tlc("GqlValidateGen", cfg, tags=["GEN"], workers=1, heap="2g", cache=chk.quick,
                    label="GqlValidateGen %s F1 on %s vars=%s opLast=%s MaxOp=%d MaxF1=%d shard %d/%d" % (focus, on, vc, last, mo, mf, sh, nsh))
        if r.rc != 0:
            raise tlc.TLCError("GqlValidateGen failed: %s\n%s" % (r.violated, r.tail))
        return [(g["doc"], g["v"], g["sh"]) for g in r.tagged("GEN")]
    out = []
    with cf.ThreadPoolExecutor(par.NPROC) as ex:
        for res in ex.map(one, jobs):
            out += res
    return out


_SCHEMA = None


def schema():
    global _SCHEMA
    if _SCHEMA is None:
        from py_gql import build_schema
        _SCHEMA = valgamma.install_any(build_schema(valgamma.SDL))
    return _SCHEMA


def has_typedef(doc):
    return any(d["k"] == "typedef" for d in doc["defs"])


def real_verdicts(text, rules, ts=False):
    """-> (parse ok, {rule: fired | 'raises:Exc'}, full: n errors | 'raises:Exc')"""
    from py_gql.lang import parse
    from py_gql.validation import default_validator, validate_ast
    from py_gql.validation import rules as R
    from py_gql.validation.rules.overlapping_fields_can_be_merged import OverlappingFieldsCanBeMergedChecker
    from py_gql.validation.rules.values_of_correct_type import ValuesOfCorrectTypeChecker
    classes = dict(vars(R))
    classes["OverlappingFieldsCanBeMergedChecker"] = OverlappingFieldsCanBeMergedChecker
    classes["ValuesOfCorrectTypeChecker"] = ValuesOfCorrectTypeChecker
    doc = parse(text, allow_type_system=ts)
    per = {}
    for r in rules:
        try:
            errs = list(default_validator(schema(), doc, validators=[classes[r]]))
            per[r] = len(errs) > 0
        except Exception as e:
            per[r] = "raises:" + type(e).__name__
    try:
        full = len(validate_ast(schema(), doc).errors)
    except Exception as e:
        full = "raises:" + type(e).__name__
    # the same text parsed WITHOUT positions (parse(..., no_location=True), a documented parser option) is the same document:
    # validation must not raise on it either and must reach the same verdict
    if not isinstance(full, str):
        try:
            nl = len(validate_ast(schema(), parse(text, allow_type_system=ts, no_location=True)).errors)
            if (nl == 0) != (full == 0):
                full = "verdict-differs:without-locations"
        except Exception as e:
            full = "raises:%s:without-locations" % type(e).__name__
    return per, full


def _worker(cases):
    """cases: (doc, spec verdict, label)"""
    out = {}
    n = 0
    for doc, v, label in cases:
        n += 1
        text = valgamma.render(doc)
        wit = {"query": text, "label": label}
        try:
            per, full = real_verdicts(text, list(v.keys()) + UNMODELLED, has_typedef(doc))
        except Exception as e:
            out.setdefault("validate/harness/%s" % type(e).__name__, ["cannot run", dict(wit, error=repr(e))])
            continue
        broken = sorted(r for r, h in v.items() if not h)
        for r in v:
            if isinstance(per[r], str):
                out.setdefault("validate/%s/%s/%s" % (per[r].replace(":", "/"), r, label), ["validation rule raises", wit])

        def fires(r):
            return any(per[c] is True for c in ATTRIBUTION.get(r, (r,)))
        if len(broken) == 1 and not fires(broken[0]) and not isinstance(per[broken[0]], str):
            # the property's attribution clause: a document breaking a single rule is reported by that rule
            out.setdefault("validate/missed-violation/%s/%s" % (broken[0], label), ["the only broken rule does not report", dict(wit, broken=broken)])
        elif len(broken) > 1 and not any(fires(r) or isinstance(per[r], str) for r in broken):
            out.setdefault("validate/missed-violation/none-of/%s/%s" % ("+".join(broken), label), ["none of the broken rules reports", dict(wit, broken=broken)])
        if not broken:
            for r in v:
                if per[r] is True:
                    out.setdefault("validate/false-error/%s/%s" % (r, label), ["a rule reports on a document that satisfies every rule", wit])
        unm = [r for r in UNMODELLED if per[r] is True or isinstance(per[r], str)]
        for r in UNMODELLED:
            if isinstance(per[r], str):
                out.setdefault("validate/%s/%s/%s" % (per[r].replace(":", "/"), r, label), ["validation rule raises", wit])
        if isinstance(full, str):
            out.setdefault("validate/%s/full/%s" % (full.replace(":", "/"), label), ["validate_ast raises", wit])
        elif not unm:
            spec_valid = all(v.values())
            if spec_valid and full > 0 and not any(per[r] is True for r in v):
                out.setdefault("validate/full-verdict/false-error/%s" % label, ["document satisfies all rules but validation reports errors", wit])
            if not spec_valid and full == 0:
                out.setdefault("validate/full-verdict/accepts-invalid/%s/%s" % (broken[0], label), ["document breaks a rule but validation reports nothing", dict(wit, broken=broken)])
    return out, n


def _meta_worker(cases):
    """cases: (doc, variant, kind): the real verdict (emptiness + set of firing rules) must be the same."""
    out = {}
    n = 0
    rules = None
    for doc, var, kind, rules in cases:
        n += 1
        ta = valgamma.render(doc)
        tb = valgamma.render(var) if kind != "respell" else valgamma.respell(ta, random.Random(len(ta) * 7919 + n))
        try:
            pa, fa = real_verdicts(ta, rules, has_typedef(doc))
        except Exception as e:
            continue  # reported by the main stage
        try:
            pb, fb = real_verdicts(tb, rules, has_typedef(doc))
        except Exception as e:
            out.setdefault("validate/metamorphic/%s/variant-does-not-parse" % kind, ["the transformed document cannot be processed although the original can", {"a": ta, "b": tb, "error": repr(e)}])
            continue
        if any(isinstance(x, str) for x in list(pa.values()) + list(pb.values()) + [fa, fb]):
            continue  # crashes are reported by the main stage
        if (fa == 0) != (fb == 0):
            out.setdefault("validate/metamorphic/%s/verdict-changes" % kind, ["verdict changes under a transformation that cannot affect validity", {"a": ta, "b": tb, "errors_a": fa, "errors_b": fb}])
        else:
            diff = sorted(r for r in rules if pa[r] != pb[r])
            if diff:
                out.setdefault("validate/metamorphic/%s/rule-set-changes/%s" % (kind, diff[0]), ["set of firing rules changes under a transformation that cannot affect validity", {"a": ta, "b": tb, "rules": diff}])
    return out, n


def corpus(chk, rng, ndocs, nbase):
    docs = [valgamma.gen_doc(rng) for _ in range(ndocs)]
    verdicts = judge(chk, docs, "GqlValidate random documents")
    cases = [(d, v, "random") for d, v in zip(docs, verdicts)]
    base = [d for d, v in zip(docs, verdicts) if all(v.values())][:nbase]
    inj = []
    for d in base:
        for lab in valgamma.INJECTIONS:
            inj.append((valgamma.inject(d, lab, rng), lab))
    iv = judge(chk, [d for d, _ in inj], "GqlValidate injections")
    cases += [(d, v, lab) for (d, lab), v in zip(inj, iv)]
    en = enumerated(chk, rng)
    chk.count("documents enumerated by TLC (GqlValidateGen)", len(en))
    cases += [(d, v, "enumerated") for d, v, sh in en]
    return cases, base


def run(chk, props=("C06",)):
    rng = random.Random(chk.seed)
    cases, base = corpus(chk, rng, 1500 if chk.quick else 12000, 40 if chk.quick else 300)
    chk.count("documents judged by TLC", len(cases))
    chk.count("base documents (all rules hold)", len(base))
    div = {}
    for out, n in par.pmap(_worker, cases):
        chk.traces += n
        for k, v in out.items():
            div.setdefault(k, v)
    # R1 on the reference: the predicates themselves are invariant under the metamorphic operators
    rules = list(cases[0][1].keys())
    sample = [c for c in cases if c[2] in ("random",)][:300 if chk.quick else 3000] + [c for c in cases if c[2] not in ("random", "enumerated")][:400 if chk.quick else 4000]
    en = [c for c in cases if c[2] == "enumerated"]
    sample += en[::max(1, len(en) // (300 if chk.quick else 3000))]
    variants = []
    for d, v, lab in sample:
        variants.append((d, valgamma.permute(d, rng), "permute", v))
        variants.append((d, valgamma.rename(d), "rename", v))
    vv = judge(chk, [x[1] for x in variants], "GqlValidate metamorphic variants")
    for (d, var, kind, v), v2 in zip(variants, vv):
        if v != v2:
            from harness.core import Machinery
            raise Machinery("reference is not invariant under %s: %s" % (kind, valgamma.render(d)))
    # layout is not part of an abstract document: the respelled text is the same document by construction
    variants += [(d, d, "respell", v) for d, v, lab in sample]
    for out, n in par.pmap(_meta_worker, [(d, var, kind, rules) for d, var, kind, v in variants]):
        chk.traces += n
        for k, v in out.items():
            div.setdefault(k, v)
    chk.count("metamorphic pairs", len(variants))
    for k, (what, wit) in div.items():
        crash = "/raises/" in k
        if ("C05" in props and crash) or ("C06" in props and not crash):
            chk.diverge(k, wit, what)
    d0 = cases[len(cases) // 2]
    chk.sample({"query": valgamma.render(d0[0]), "label": d0[2], "spec_verdict": d0[1]})
    chk.assumptions += ["all 26 rule classes are modelled (documents holding a type-system definition are parsed with allow_type_system)",
                        "attribution: a rule is 'reported' when its own visitor class (or a class listed for it in ATTRIBUTION) run alone reports at least one error; demanded only of documents breaking exactly one rule, as the property states; for several broken rules at least one of them must report"]
    return chk.finish(rule="random documents + 27 labelled injections into all-valid bases + permutation / renaming variants, judged by TLC")


def replay_cmd(path):
    print(json.dumps(json.load(open(path)), indent=1)[:3000])
    return 0
