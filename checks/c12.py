"""C12 - Schema to SDL to schema is the identity; printing is history-independent.

A (round trip): schemas from the TLA+ schema algebras (GqlDiff base and every edited schema, code-built with enum internal
   values and defaults of every kind; GqlSchemaOps store values with descriptions, deprecations, custom directives) are
   serialised under several option sets; the text must parse, rebuild to a structurally identical schema, and the rebuilt
   schema must serialise to the same text.
B (history, spec/GqlPrintHistory.tla): TLC enumerates every sequence of <= MaxCalls Print(schema, options) calls; each sequence
   runs in a fresh process; all texts ever returned for the same (schema, options) must be identical and equal to the
   round-trip-verified text (SameAsFirst is the requirement inside the model)."""
import json
import multiprocessing as mp
import random

from harness import opsreplay, par, schemagamma, tlc

OPTS = [dict(indent=4), dict(indent=2, include_descriptions=False), dict(indent="\t", include_custom_schema_directives=True), dict(indent=2),
        dict(indent=2, include_introspection=True),
        # a white list of directive names, as list(schema.directives) gives it: it names the specified directives too
        dict(indent=2, include_custom_schema_directives=["tag", "skip", "include", "deprecated"])]
HIST_SDL = [
    '''
directive @tag(n: Int) on FIELD_DEFINITION | OBJECT
"shared words"
type Query @tag(n: 1) {
  "shared words"
  a: Int @deprecated
  "other"
  b(x: Int = 3 @tag): Lvl @tag(n: 2) @deprecated(reason: "gone")
  """
  a description in block form
  on two lines
  """
  c("ends with a quote \\"" y: Int): Int
}
extend type Query @tag(n: 5) { d: Int }
enum Lvl { LO @deprecated HI }
''',
    '''
directive @tag(n: Int) on FIELD_DEFINITION | OBJECT
type Query {
  "other"
  z: Int
  "shared words"
  a: Other @tag @deprecated
}
"shared words"
type Other @tag {
  "shared words" v: Int  w: Int @deprecated(reason: "why")
  """
  a description in block form
  on two lines
  """
  c("ends with a quote \\"" y: Int): Int
}
extend type Other @tag(n: 7) { x: Int }
''',
    # types that carry the conventional root names without being roots: an object type (which makes the schema definition
    # necessary in the text) and an enum
    '''
schema { query: Query }
type Query { m: Mutation  s(on: Subscription = ON): Int }
type Mutation { x: Int }
enum Subscription { ON OFF }
''',
    # ... and when only NON-object types carry those names the schema definition is not needed: the text has none, and building it
    # back must not take the enum / input type for a root
    '''
type Query { s(on: Subscription = ON, m: Mutation): Int }
enum Subscription { ON OFF }
input Mutation { x: Int }
''',
]


def hist_schemas():
    """The schemas of the history scenario: the SDL texts above plus a code-built schema whose custom scalar passes Python values
    through (JSON-like), with defaults that are EQUAL as Python values but different GraphQL literals (true / 1 / 1.0, false / 0)."""
    from py_gql import build_schema
    from py_gql.schema import ID, Argument, Field, Int, ListType, ObjectType, ScalarType, Schema
    schemas = []
    for s in HIST_SDL:
        try:
            schemas.append(build_schema(s))
        except Exception as e:          # reported by run() as a divergence (a valid type-system document is rejected)
            schemas.append(e)
    Any = ScalarType("Any", serialize=lambda v: v, parse=lambda v: v)
    q = ObjectType("Query", [
        Field("f", Int, [Argument("yes", Any, default_value=True), Argument("one", Any, default_value=1), Argument("onef", Any, default_value=1.0)]),
        Field("g", Int, [Argument("zero", Any, default_value=0), Argument("no", Any, default_value=False), Argument("zerof", Any, default_value=0.0)]),
        # ... and the same values side by side INSIDE one list default
        Field("h", Int, [Argument("mix", ListType(Any), default_value=[True, 1, False, 0, 1.0, 0.0]),
                         # an ID default that is digits followed by a line feed is a string, not the number it starts with
                         Argument("since", ID, default_value="7\n"), Argument("from_", ID, default_value="42")])])
    q2 = ObjectType("Query", [
        Field("f", Int, [Argument("one", Any, default_value=1), Argument("yes", Any, default_value=True)]),
        Field("g", Int, [Argument("no", Any, default_value=False), Argument("zero", Any, default_value=0)]),
        Field("h", Int, [Argument("mix", ListType(Any), default_value=[1, True, 0.0, False, 0])])])
    return schemas + [Schema(q), Schema(q2)]


def roundtrip(schema, opts, label, out, wit):
    from py_gql import build_schema
    from py_gql.exc import GraphQLSyntaxError
    desc = opts.get("include_descriptions", True)
    try:
        text = schema.to_string(**opts)
    except Exception as e:
        out.setdefault("sdl/print-raises/%s/%s" % (type(e).__name__, label), ["printing raises", dict(wit, error=repr(e))])
        return None
    w = dict(wit, opts=repr(opts), text=text[:1500])
    if opts.get("include_introspection"):
        # Introspection types and specified directives cannot be re-declared, so this text is not meant to be rebuilt: it must
        # parse, and what remains after dropping the introspection part must be the text printed without the option.
        from py_gql.lang import parse
        try:
            doc = parse(text, allow_type_system=True)
            plain = parse(schema.to_string(**{k: v for k, v in opts.items() if k != "include_introspection"}), allow_type_system=True)
        except GraphQLSyntaxError as e:
            out.setdefault("sdl/printed-text-does-not-parse/%s" % label, ["printed SDL is rejected by the parser", dict(w, error=str(e)[:200])])
            return text

        def keep(d):
            n = getattr(getattr(d, "name", None), "value", "")
            return not n.startswith("__") and not (type(d).__name__ == "DirectiveDefinition" and n in ("skip", "include", "deprecated"))
        rest = [d for d in doc.definitions if keep(d)]
        from py_gql.lang import print_ast   # (the AST printer is verified by C03; positions necessarily differ)
        if [print_ast(d) for d in rest] != [print_ast(d) for d in plain.definitions]:
            out.setdefault("sdl/introspection-option-changes-user-types/%s" % label, ["the user part of the text differs when introspection types are included", w])
        if len(rest) == len(doc.definitions):
            out.setdefault("sdl/introspection-option-ignored/%s" % label, ["include_introspection printed no introspection definition", w])
        return text
    try:
        rebuilt = build_schema(text)
    except GraphQLSyntaxError as e:
        out.setdefault("sdl/printed-text-does-not-parse/%s" % label, ["printed SDL is rejected by the parser", dict(w, error=str(e)[:200])])
        return text
    except Exception as e:
        out.setdefault("sdl/rebuild-raises/%s/%s" % (type(e).__name__, label), ["building a schema from the printed SDL raises", dict(w, error=repr(e)[:300])])
        return text
    a = schemagamma.project(schema, with_desc=desc)
    b = schemagamma.project(rebuilt, with_desc=desc)
    d = opsreplay.first_difference(a, b)
    if d:
        out.setdefault("sdl/rebuilt-differs/%s" % opsreplay.generalize(d), ["schema rebuilt from its SDL differs", dict(w, difference=d)])
    try:
        text2 = rebuilt.to_string(**opts)
        if text2 != text:
            out.setdefault("sdl/reprint-differs/%s" % label, ["serialising the rebuilt schema gives a different text", dict(w, second=text2[:1500])])
    except Exception as e:
        out.setdefault("sdl/reprint-raises/%s" % type(e).__name__, ["printing the rebuilt schema raises", dict(w, error=repr(e))])
    return text


def _rt_worker(cases):
    out = {}
    n = 0
    for kind, a, label in cases:
        try:
            if kind == "diff":
                # E2 carries an enum value deprecated with an EMPTY reason (a C15 case): SDL has no spelling that distinguishes it
                # from the default reason, so it is outside the round-trip domain
                a = dict(a, types=[t for t in a["types"] if t["name"] != "E2"])
                # (likewise the field B.old, deprecated with an empty reason: realised without deprecation here)
                a = dict(a, types=[dict(t, fields=[dict(f, dep="") if f.get("dep") == "EMPTY" else f for f in t["fields"]]) if t.get("fields") else t for t in a["types"]])
                schema = schemagamma.realize(a)
            else:
                schema = opsreplay.realize(a, opsreplay.Ids())
            schema.validate()
        except Exception as e:
            out.setdefault("sdl/harness-realize/%s" % type(e).__name__, ["cannot realise", {"label": label, "error": repr(e)}])
            continue
        for o in OPTS:
            n += 1
            roundtrip(schema, o, label, out, {"source": kind, "label": label})
    return out, n


def _hist_child(args):
    """Runs in a process forked before anything was printed: returns the texts of one call sequence."""
    from py_gql import build_schema
    calls = args
    schemas = hist_schemas()
    texts = []
    for i, o in calls:
        try:
            if isinstance(schemas[i - 1], Exception):
                texts.append("UNBUILT")
                continue
            texts.append(schemas[i - 1].to_string(**OPTS[o - 1]))
        except Exception as e:
            texts.append("RAISES " + repr(e))
    return calls, texts


def run(chk):
    rng = random.Random(chk.seed)
    # ---- A: round trip over the schema algebras
    cfg = tlc.cfg(constants={"Pairs": False}, invariants=["Emit", "Reflexive", "Converse"])
    r = chk.tlc("GqlDiff", cfg, tags=["EDT"], label="GqlDiff (schemas for the round trip)")
    cases = [("diff", r.tagged("EDT")[0]["old"], "base")]
    for c in r.tagged("EDT"):
        # generator hygiene (DESIGN 7.vi): retyping an element that carries a default leaves an ill-typed default behind
        if any(e["kind"] in ("retype-input", "retype-arg") and e["el"] in ("g", "y") for e in c["edits"]):
            continue
        # edits of In's fields would have to rewrite the In-typed argument default {g: 2, dflt: null} to keep it a coerced value
        if any(e["kind"] in ("retype-input", "add-required-input", "add-null-default-input") for e in c["edits"]):
            continue
        cases.append(("diff", c["new"], "+".join(e["kind"] for e in c["edits"])))
    cfg = tlc.cfg(spec="Spec", constants={"MaxOps": 2}, invariants=["Emit", "AllClosed"])
    r = chk.tlc("GqlSchemaOps", cfg, tags=["SEQ"], label="GqlSchemaOps ops<=2 (schemas for the round trip)", heap="8g")
    seen = set()
    for b in opsreplay.expand(r.tagged("SEQ")):
        for s, h in zip(b["schemas"][1:], b["hist"]):
            k = json.dumps(s, sort_keys=True)
            if k not in seen:
                seen.add(k)
                if h["op"] == "hide" and h["arg"]["p"] == "input" and h["arg"]["t"] == "Page":
                    # generator hygiene: the stored default {page_size, sort_order} keeps the key of the hidden input field; the text shows
                    # what the narrowed type allows, so the round trip cannot (and need not) give the stored dict back (C14 / C15 judge it)
                    continue
                cases.append(("ops", s, "%s:%s" % (h["op"], h["arg"]["p"])))
    cases.append(("ops", opsreplay.expand(r.tagged("SEQ")[0]["schemas"][0]), "base"))
    chk.count("schemas round-tripped", len(cases))
    for out, n in par.pmap(_rt_worker, cases):
        chk.traces += n
        for k, (what, wit) in out.items():
            chk.diverge(k, wit, what)
    # ---- B: history independence
    NS = len(HIST_SDL) + 2
    seqs = []
    for calls in ((2, 3) if chk.quick else (2, 3, 4)):
        cfg = tlc.cfg(constants={"NS": NS, "NO": len(OPTS), "MaxCalls": calls}, invariants=["Emit", "SameAsFirst"])
        r = chk.tlc("GqlPrintHistory", cfg, tags=["PRN"], label="GqlPrintHistory calls<=%d" % calls)
        if r.rc != 0:
            raise tlc.TLCError("GqlPrintHistory: %s\n%s" % (r.violated, r.tail))
        part = [[tuple(c) for c in s] for s in r.tagged("PRN")]
        chk.count("print call sequences of length %d (TLC, exhaustive)" % calls, len(part))
        limit = None if calls == 2 else (1500 if chk.quick else (None if calls == 3 else 6000))
        if limit is not None and len(part) > limit:       # every ordered pair of calls is replayed; longer histories are a seeded sample
            rng.shuffle(part)
            part = part[:limit]
            chk.exhaustive = False
        seqs += part
    chk.count("print call sequences replayed (each in a fresh process)", len(seqs))
    ctx = mp.get_context("fork")
    with ctx.Pool(par.NPROC, maxtasksperchild=1) as pool:
        results = pool.map(_hist_child, seqs, chunksize=1)
    texts = {}
    for callseq, ts in results:
        chk.traces += 1
        for pos, (c, t) in enumerate(zip(callseq, ts)):
            if t == "UNBUILT":
                continue
            if t.startswith("RAISES"):
                chk.diverge("sdl/history/print-raises/opts=%d" % c[1], {"sequence": callseq, "position": pos, "error": t}, "printing raises after earlier calls")
                continue
            first = texts.setdefault(c, (t, callseq, pos))
            if first[0] != t:
                chk.diverge("sdl/history/text-depends-on-earlier-calls/opts=%d" % c[1],
                            {"call": c, "sequence_a": first[1], "position_a": first[2], "sequence_b": callseq, "position_b": pos,
                             "text_a": first[0][:800], "text_b": t[:800]}, "the same (schema, options) printed differently depending on earlier calls")
    # texts of the history schemas must round trip too
    from py_gql import build_schema
    out = {}
    for i, sdl in enumerate(HIST_SDL):
        try:
            built = build_schema(sdl)
        except Exception as e:
            out.setdefault("sdl/history-schema-does-not-build/%s/%d" % (type(e).__name__, i + 1), ["a valid type-system document of the history scenario is rejected", {"sdl": sdl, "error": repr(e)[:300]}])
            continue
        for o in OPTS:
            roundtrip(built, o, "history-schema-%d" % (i + 1), out, {"source": "history"})
    # the code-built schemas: their texts at least parse and print every default as the literal of ITS value
    for sch in [x for x in hist_schemas()[len(HIST_SDL):] if not isinstance(x, Exception)]:
        text = sch.to_string()
        for f in sch.query_type.fields:
            for a in f.arguments:
                def lit(v):
                    if isinstance(v, str):
                        return v if (str(a.type) == "ID" and v.isdigit() and v.isascii()) else json.dumps(v)
                    return "[%s]" % ", ".join(lit(x) for x in v) if isinstance(v, list) else {True: "true", False: "false"}[v] if isinstance(v, bool) else repr(v)
                want = lit(a.default_value)
                if "%s: %s = %s" % (a.name, a.type, want) not in text:
                    out.setdefault("sdl/default-literal/%s/%s" % ("custom-scalar" if "Any" in str(a.type) else a.type, type(a.default_value).__name__),
                                   ["a default of a pass-through custom scalar is printed as another literal", {"argument": a.name, "value": repr(a.default_value), "text": text}])
    sdl_origin_probe(out)
    failure_history_probe(out)
    for k, (what, wit) in out.items():
        if k.startswith("note/"):
            chk.notes[k] = wit
            continue
        chk.diverge(k, wit, what)
    chk.sample({"call_sequence": seqs[len(seqs) // 2]})
    chk.assumptions += ["descriptions are single short lines (no re-wrapping)", "enum internal values are not expressible in SDL: defaults are compared through enum names"]
    return chk.finish(rule="schemas of the TLA+ algebras x 3 option sets (round trip) + all print call sequences of length %d in fresh processes" % calls)


def sdl_origin_probe(out):
    """The store values of GqlSchemaOps realised FROM SDL (every element then carries the syntax node it was built from) and changed
    afterwards by the library's own transforms / by assigning defaults: the text is a function of the CURRENT value of the schema, so
    the round trip must hold for the changed schema exactly as for a schema built in code."""
    from py_gql import build_schema
    from py_gql.schema.transforms import CamelCaseSchemaTransform, VisibilitySchemaTransform, transform_schema
    base_sdl = HIST_SDL[0] + """
input Page { page_size: Int = 10  sort_order: Lvl = LO }
extend type Query { find(page_options: Page = {page_size: 25, sort_order: HI}, first_n: Int = 3): Int }
"""

    class HideB(VisibilitySchemaTransform):
        def is_field_visible(self, typename, fieldname):
            return (typename, fieldname) != ("Query", "b")

        def is_input_field_visible(self, typename, fieldname):
            return (typename, fieldname) != ("Page", "sort_order")
    try:
        built = build_schema(base_sdl)
    except Exception as e:
        out.setdefault("sdl/history-schema-does-not-build/%s/sdl-origin" % type(e).__name__, ["a valid type-system document is rejected", {"sdl": base_sdl, "error": repr(e)[:300]}])
        return
    variants = [("camel-case", lambda: transform_schema(built, CamelCaseSchemaTransform())),
                ("hidden-members", lambda: transform_schema(built, HideB()))]

    def reassigned():
        s2 = build_schema(base_sdl)
        f = s2.query_type.field_map["find"]
        f.argument_map["first_n"].default_value = 4
        f.argument_map["page_options"].default_value = {"page_size": 1, "sort_order": "LO"}
        return s2
    variants.append(("defaults-reassigned", reassigned))
    for label, make in variants:
        try:
            schema = make()
        except Exception as e:
            out.setdefault("sdl/harness-realize/%s/sdl-origin-%s" % (type(e).__name__, label), ["cannot realise", {"error": repr(e)[:300]}])
            continue
        for o in OPTS:
            roundtrip(schema, o, "sdl-origin+" + label, out, {"source": "sdl-origin", "label": label})


def failure_history_probe(out):
    """Builds are independent of each other: a document that is REJECTED leaves nothing behind - the valid documents built
    before it build again afterwards, to the same schema (same text)."""
    from py_gql import build_schema
    good = ["input Filter { limit: Int = 10  tags: [String!] = [] }\ntype Query { f(by: Filter = {limit: 1}): Int }",
            "enum Lvl { LO HI }\ninput Page { size: Int = 5  lvl: Lvl = LO  next: Page }\ntype Query { g(p: Page = {size: 2}): Lvl }"]
    bad = ['input Filter { limit: Int = "ten" }\ntype Query { f(by: Filter): Int }', "input Filter { limit: Nope }\ntype Query { f(by: Filter): Int }",
           "input Page { size: Int = {a: 1} }\ntype Query { g(p: Page): Int }", "enum Lvl { LO LO }\ntype Query { g: Lvl }",
           "type Query { g(p: Page = {size: \"x\"}): Int }\ninput Page { size: Int }", "type Query implements Nope { a: Int }"]
    try:
        before = [build_schema(g).to_string() for g in good]
    except Exception as e:
        out.setdefault("sdl/history-schema-does-not-build/%s/failure-history" % type(e).__name__, ["a valid type-system document is rejected", {"error": repr(e)[:300]}])
        return
    for b in bad:
        try:
            build_schema(b)
            out.setdefault("note/failure-history/accepted", ["(not judged here) a document meant to be rejected builds", {"sdl": b}])
        except Exception:
            pass
        for g, t0 in zip(good, before):
            try:
                t1 = build_schema(g).to_string()
            except Exception as e:
                out.setdefault("sdl/history/build-depends-on-an-earlier-rejected-document/%s" % type(e).__name__,
                               ["a valid document no longer builds after another document was rejected", {"rejected": b, "sdl": g, "error": repr(e)[:300]}])
                return
            if t1 != t0:
                out.setdefault("sdl/history/text-depends-on-an-earlier-rejected-document", ["a valid document builds to another schema after another document was rejected",
                                                                                          {"rejected": b, "sdl": g, "before": t0, "after": t1}])
                return


def replay_cmd(path):
    print(json.dumps(json.load(open(path)), indent=1)[:3000])
    return 0
