"""C11 - Schemas built from SDL contain exactly what the SDL declares.

spec/GqlSdl.tla: every ordered selection of <= MaxItems items from a menu of definitions, extensions, a schema definition and
labelled invalid items; Build(doc) gives the expected abstract schema (extensions merged into their targets in document order)
or the error class; OrderFree is checked on the model.  Each document is rendered by a harness-owned SDL writer and passed
to build_schema (with and without ignore_extensions): the projection of the result must equal Build(doc); invalid documents
must raise SDLError / ExtensionError / SchemaError and nothing else."""
import json
import random

from harness import opsreplay, par, schemagamma, tlc

DEFAULTS = {"Int": "3", "String": '"s"', "ID": '"i"', "In2": "{}", "In": "{}", "E": "A", "Tree": "{}"}


def with_defaults(t):
    """The menu marks defaults with hasDef only; pick a literal of the right type."""
    def fix(a):
        a = dict(a)
        if a.get("hasDef"):
            tt = a["type"]
            lst = False
            while tt["k"] != "named":
                lst = lst or tt["k"] == "list"
                tt = tt["of"]
            a["_lit"] = a["lit"] if a.get("lit") else "null" if a.get("nul") else ("[]" if lst else DEFAULTS.get(tt["n"], "null"))
        return a
    t = dict(t)
    if t["k"] == "input":
        t["fields"] = [fix(f) for f in t.get("fields", [])]
    elif t["k"] in ("object", "interface"):
        t["fields"] = [dict(f, args=[fix(a) for a in f.get("args", [])]) for f in t.get("fields", [])]
    return t


def render_item(item):
    t = with_defaults(item["t"])
    if item["it"] == "schema":
        return "schema { query: %s }" % item["target"]
    if item["it"] == "schemaext":
        return "extend schema { mutation: %s }" % item["target"]
    if item["it"] == "dir":
        d = item["t"]
        fixed = _lit_defaults(with_defaults({"k": "object", "fields": [{"args": d["args"]}]}))["fields"][0]["args"]
        return "directive @%s%s on %s" % (d["name"], schemagamma.render_args(fixed), " | ".join(d["locs"]))
    text = schemagamma.render_type(_lit_defaults(t), extend=(item["it"] == "ext"))
    return text


def _lit_defaults(t):
    # render_type prints defaults through lit(def): provide def records that print the chosen literal
    def fix(a):
        if a.get("hasDef"):
            a = dict(a, **{"def": {"k": "enumv", "v": a["_lit"]}})
        return a
    t = dict(t)
    if t["k"] == "input":
        t["fields"] = [fix(f) for f in t["fields"]]
    elif t["k"] in ("object", "interface"):
        t["fields"] = [dict(f, args=[fix(a) for a in f["args"]]) for f in t["fields"]]
    return t


def norm_expected(schema):
    types = []
    for t in schema["types"]:
        t = dict(t)
        for k in ("ifaces", "fields", "members", "values"):
            t.setdefault(k, [])
        types.append(t)
    a = {"query": schema["query"], "mutation": schema.get("mutation", ""), "subscription": schema.get("subscription", ""), "types": types,
         "directives": [dict(d) for d in schema.get("directives", [])]}
    return schemagamma.normalize(a, with_defaults=False)


def _worker(cases):
    from py_gql import build_schema
    from py_gql.exc import ExtensionError, InvalidValue, SchemaError, SDLError
    out = {}
    n = 0
    for c in cases:
        sdl = "\n".join(render_item(i) for i in c["doc"])
        labels = "+".join(str(i) for i in sorted(c["picked"]))
        for ign, r in ((False, c["r"]), (True, c["rn"])):
            n += 1
            wit = {"sdl": sdl, "ignore_extensions": ign, "expected": r if not r["ok"] else "ok", "menu_items": c["picked"]}
            try:
                schema = build_schema(sdl, ignore_extensions=ign)
            except (SDLError, ExtensionError, SchemaError) as e:
                if r["ok"]:
                    out.setdefault("sdl-build/rejects-valid/%s/%s" % (type(e).__name__, feature(c, r)), ["a valid type-system document is rejected", dict(wit, error=str(e)[:300])])
                continue
            except InvalidValue as e:
                # a default that is not a value of its type: a located library error (accepted as a rejection; "unrelated" it is not)
                if r["ok"]:
                    out.setdefault("sdl-build/rejects-valid/%s/%s" % (type(e).__name__, feature(c, r) + ("+default-from-extension" if 36 in c["picked"] else "")),
                                   ["a valid type-system document is rejected", dict(wit, error=str(e)[:300])])
                continue
            except RecursionError as e:
                out.setdefault("sdl-build/raises/RecursionError/%s" % feature(c, r), ["unrelated exception", dict(wit, error="RecursionError")])
                continue
            except Exception as e:
                out.setdefault("sdl-build/raises/%s/%s" % (type(e).__name__, feature(c, r)), ["unrelated exception", dict(wit, error=repr(e)[:300])])
                continue
            if not r["ok"]:
                out.setdefault("sdl-build/accepts-invalid/%s/%s" % (r["err"], invalid_feature(c)), ["an invalid type-system document is accepted", wit])
                continue
            got = schemagamma.project(schema, with_defaults=False)
            exp = norm_expected(r["schema"])
            d = opsreplay.first_difference(exp, got)
            if d:
                out.setdefault("sdl-build/schema-differs/%s" % opsreplay.generalize(d), ["built schema differs from the declaration", dict(wit, difference=d)])
        # additional_types: an enum / scalar definition of the document is supplied as a pre-built type object instead of SDL text, and the
        # document is built TWICE with the same object: both builds give Build(doc) and the supplied object is left as it was
        def referenced(name):
            # additional_types are "known types that should not be built when referenced": a supplied type nothing refers to is not
            # part of the result, so the variant only applies to types that a field or argument of the document uses
            def inner(t):
                return t["n"] if t["k"] == "named" else inner(t["of"])
            for i in c["doc"]:
                if i["it"] != "def":
                    continue    # (a supplied type that only extension blocks mention is not known to the first build phase: out of scope)
                for f in i["t"].get("fields") or []:
                    if inner(f["type"]) == name or any(inner(a["type"]) == name for a in f.get("args") or []):
                        return True
            return False
        pre_items = [i for i in c["doc"] if i["it"] == "def" and i["t"]["k"] in ("enum", "scalar") and referenced(i["t"]["name"])]
        if pre_items and c["r"]["ok"]:
            item = pre_items[0]
            name = item["t"]["name"]
            try:
                pre = build_schema("type Query { zz: Int }\n" + render_item(item)).get_type(name)
                before = [v.name for v in getattr(pre, "values", [])]
                rest = "\n".join(render_item(i) for i in c["doc"] if i is not item)
                for attempt in (1, 2):
                    n += 1
                    wit = {"sdl": rest, "additional_types": [name], "build": attempt, "menu_items": c["picked"]}
                    schema = build_schema(rest, additional_types=[pre])
                    d = opsreplay.first_difference(norm_expected(c["r"]["schema"]), schemagamma.project(schema, with_defaults=False))
                    if d:
                        out.setdefault("sdl-build/additional-types/schema-differs/build=%d/%s" % (attempt, opsreplay.generalize(d)), ["schema built with a supplied type differs from the declaration", dict(wit, difference=d)])
                    after = [v.name for v in getattr(pre, "values", [])]
                    if after != before:
                        out.setdefault("sdl-build/additional-types/supplied-type-modified", ["building changed the type object supplied through additional_types", dict(wit, before=before, after=after)])
                        break
            except Exception as e:
                out.setdefault("sdl-build/additional-types/raises/%s/%s" % (type(e).__name__, feature(c, c["r"])), ["building a valid document with a supplied type raises", dict(wit if 'wit' in dir() else {}, error=repr(e)[:300], menu_items=c["picked"])])
    return out, n


def feature(c, r):
    its = {i["it"] for i in c["doc"]}
    names = {i["t"]["name"] for i in c["doc"]}
    f = []
    if "ext" in its:
        f.append("ext")
    if "schemaext" in its:
        f.append("schema-ext")
    if "In" in names:
        f.append("recursive-input")
    if "schema" in its:
        f.append("schema-def")
    return "+".join(f) or "plain"


def invalid_feature(c):
    f = []
    picked = set(c["picked"])
    if 18 in picked:
        f.append("wrong-kind-extension")
    if 19 in picked:
        f.append("duplicate-field-extension")
    if 20 in picked:
        f.append("duplicate-type")
    if picked & {58, 59, 60}:
        f.append("duplicate-member-in-definition" + ("+extension" if any(i["it"] == "ext" for i in c["doc"]) else ""))
    defs = {i["t"]["name"] for i in c["doc"] if i["it"] == "def"}
    if any(i["it"] == "ext" and i["target"] not in defs for i in c["doc"]):
        f.append("undefined-extension-target")
    return "+".join(f) or "other"


def run(chk):
    rng = random.Random(chk.seed)
    items = 4
    NMENU = 44
    # the general scope is model-checked in full; the documents are replayed slice by slice (memory): quick = one of 16 slices
    # chosen by the seed, thorough = all of 4 slices one after the other
    nsl = 16 if chk.quick else 4
    slices = [chk.seed % nsl] if chk.quick else list(range(nsl))
    if chk.quick:
        chk.exhaustive = False
    for sl in slices:
        cfg = tlc.cfg(constants={"MaxItems": items, "MenuIdx": set(range(1, NMENU + 1)), "Slice": sl, "NSlices": nsl}, invariants=["Emit", "OrderFree"])
        r = chk.tlc("GqlSdl", cfg, tags=["BLD"], label="GqlSdl items<=%d slice %d/%d" % (items, sl, nsl), heap="6g")
        if r.rc != 0:
            raise tlc.TLCError("GqlSdl invariant violated: %s\n%s" % (r.violated, r.tail))
        part = r.tagged("BLD")
        del r
        chk.count("documents replayed (slice %d/%d)" % (sl, nsl), len(part))
        if sl != slices[-1]:
            for out, n in par.pmap(_worker, part):
                chk.traces += n
                for k, (what, wit) in out.items():
                    chk.diverge(k, wit, what)
            del part
    cases = part
    rng.shuffle(cases)
    # focused scopes: few items, more of them per document, always replayed in full
    for name, idx, n in (("split extension blocks", {9, 42, 43, 44}, 5), ("supplied enum / scalar, extended", {5, 8, 14, 37}, 5),
                         ("covariant list fields", {38, 39, 40, 41}, 4), ("root operation types", {9, 10, 25, 26, 31, 32}, 5), ("conventional root names on non-object types", {10, 9, 32, 56, 57}, 4), ("interface / input extension fields", {2, 6, 33, 34, 35}, 5),
                         ("directive definitions next to extensions", {5, 6, 14, 15, 45, 46, 47, 50}, 5), ("recursive defaults and integer bounds", {7, 48, 49}, 4),
                         ("invalid: non-interfaces implemented, duplicate values, output types as arguments, scalar extensions", {5, 9, 51, 52, 53, 54, 55}, 3),
                         ("invalid: a member name twice inside one definition, next to extensions", {6, 11, 15, 58, 59, 60}, 4)):
        cfg = tlc.cfg(constants={"MaxItems": n, "MenuIdx": idx, "Slice": 0, "NSlices": 1}, invariants=["Emit", "OrderFree"])
        rf = chk.tlc("GqlSdl", cfg, tags=["BLD"], label="GqlSdl focus: %s, items<=%d" % (name, n), heap="4g")
        if rf.rc != 0:
            raise tlc.TLCError("GqlSdl invariant violated (%s): %s\n%s" % (name, rf.violated, rf.tail))
        chk.count("documents / focus: %s" % name, len(rf.tagged("BLD")))
        cases += rf.tagged("BLD")
    for out, n in par.pmap(_worker, cases):
        chk.traces += n
        for k, (what, wit) in out.items():
            chk.diverge(k, wit, what)
    c = cases[0]
    chk.sample({"sdl": "\n".join(render_item(i) for i in c["doc"]), "expected_ok": c["r"]["ok"]})
    chk.assumptions += ["default literals are chosen by the harness per declared type; default VALUES are compared by C12 / C15"]
    return chk.finish(rule="ordered selections of <= %d menu items (every definition order), x ignore_extensions" % items)


def replay_cmd(path):
    print(json.dumps(json.load(open(path)), indent=1)[:3000])
    return 0
