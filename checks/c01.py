"""C01 - Parser accepts exactly the GraphQL grammar and fails only with syntax errors.

R1  GqlLexer / GqlGrammarGen design invariants (Sane, ItemsInside, BlockIdem, WellNested) under TLC.
R2  every class string <= L (whole text) and token-interior strings -> real Lexer;
    every skeleton <= N tokens of every dialect -> real parse/parse_value/parse_type (str and UTF-8 bytes).
R3  mutated / cross-dialect token sequences: membership decided by TLC (GqlGrammarTrace), compared with the parser.
"""
import random

from harness import corpus, langreplay, lexreplay


def lexer_stages(chk, only=None):
    q = chk.quick
    modes = [
        ("whole", 4, (), None),   # L=5 is 2.4 M behaviours (> 10 GB of Python objects): not worth it, deeper interiors below
        ("string", 5 if q else 6, ("Quote",), ["Quote", "Bslash", "L_u", "L_bf", "L_hex", "L_nrt", "L_e", "D19", "LF", "Blank",
                                                 "UDigit", "ULineSep", "UAlnum", "L_other", "Slash", "Ctrl"]),
        ("unicode-escape", 8 if q else 9, ("Quote", "Bslash", "L_u"), ["D0", "D19", "L_hex", "L_x", "UDigit", "UAlnum", "L_other", "Quote"]),
        ("block", 7 if q else 8, ("Quote", "Quote", "Quote"), ["Quote", "Bslash", "LF", "CR", "Blank", "ULineSep", "UBlank", "L_other", "Ctrl"]),
        ("number", 5 if q else 6, (), ["Minus", "Plus", "Dot", "D0", "D19", "L_e", "UDigit", "L_other", "Blank", "Punct"]),
    ]
    total = {}
    for name, L, prefix, alpha in modes:
        behs = lexreplay.generate(chk, L, prefix, alpha, label="GqlLexer %s L<=%d" % (name, L))
        n, div = lexreplay.replay(chk, behs, 3 if q else 6, chk.seed)
        chk.traces += n
        chk.count("lexer/" + name, len(behs))
        if name == "whole" and behs:
            chk.sample({"stage": "lexer", "classes": behs[len(behs) // 2]["inp"], "spec": behs[len(behs) // 2]})
        for k, v in div.items():
            total.setdefault(k, v)
    return total


def grammar_corpus(chk):
    q = chk.quick
    specs = [("Document", False, False, 10 if q else 12), ("Document", False, True, 9 if q else 11),
             ("Value", False, False, 6 if q else 8), ("Type", False, False, 7 if q else 9)]
    for d in ["SchemaDefinition", "ScalarTypeDefinition", "ObjectTypeDefinition", "InterfaceTypeDefinition",
              "UnionTypeDefinition", "EnumTypeDefinition", "InputObjectTypeDefinition", "DirectiveDefinition",
              "TypeSystemExtension"]:
        specs.append((d, True, False, 10 if q else 12))
    # focused generation: longer sentences behind a fixed prefix, so that the interiors of variable definitions,
    # arguments, type-system members ... are reached exhaustively as well
    d = 0 if q else 2
    focus = [(("query", "(", "$", "name", ":", "name"), 15 + d, False, False), (("query", "(", "$", "name", ":", "["), 14 + d, False, False),
             (("{", "name", "("), 11 + d, False, False), (("{", "..."), 10 + d, False, False), (("{", "name", "@"), 11 + d, False, False),
             (("fragment", "fragname"), 11 + d, False, False), (("fragment", "fragname", "("), 14 + d, False, True),
             (("type", "name", "{", "name"), 12 + d, True, False), (("type", "name", "implements"), 10 + d, True, False),
             (("input", "name", "{", "name", ":"), 12 + d, True, False), (("directive", "@", "name", "("), 13 + d, True, False),
             (("enum", "name", "{"), 10 + d, True, False), (("extend", "type", "name"), 10 + d, True, False),
             (("string",), 8 + d, True, False), (("schema",), 11 + d, True, False),
             # long but narrow: a body-less definition whose directive carries an object literal, followed by other definitions
             (("type", "name", "@", "name", "(", "name", ":", "{", "name", ":", "int", "}", ")"), 17 + d, True, False)]
    # constant contexts, swept exhaustively by judged_cases (a variable in place of every scalar / name token; TLC decides)
    sweep = [(("query", "(", "$", "name", ":", "name", "@", "name", "("), 17 + d, False, False), (("query", "(", "$", "name", ":", "name", "="), 12 + d, False, False),
             (("type", "name", "@", "name", "("), 11 + d, True, False), (("input", "name", "{", "name", ":", "name", "="), 12 + d, True, False),
             (("fragment", "fragname", "(", "$", "name", ":", "name", "="), 15 + d, False, True)]
    items = []
    seen = set()
    for start, ts, fv, n in specs:
        sk = corpus.skeletons(chk, start, ts, fv, n)
        chk.count("grammar/%s/ts=%d,fv=%d" % (start, ts, fv), len(sk))
        for s in sk:
            seen.add((start, ts, fv, tuple(s["toks"])))
            items.append({"toks": s["toks"], "ev": s["ev"], "start": start, "ts": ts, "fv": fv})
    for prefix, n, ts, fv in focus:
        sk = corpus.skeletons(chk, "Document", ts, fv, n, prefix=prefix)
        k = 0
        for s in sk:
            key = ("Document", ts, fv, tuple(s["toks"]))
            if key not in seen:
                seen.add(key)
                k += 1
                items.append({"toks": s["toks"], "ev": s["ev"], "start": "Document", "ts": ts, "fv": fv})
        chk.count("grammar/focus:%s/ts=%d,fv=%d" % (" ".join(prefix), ts, fv), k)
    for prefix, n, ts, fv in sweep:
        sk = corpus.skeletons(chk, "Document", ts, fv, n, prefix=prefix)
        for s in sk:
            key = ("Document", ts, fv, tuple(s["toks"]))
            items.append({"toks": s["toks"], "ev": s["ev"], "start": "Document", "ts": ts, "fv": fv, "sweep": True, "dup": key in seen})
            seen.add(key)
        chk.count("grammar/const-sweep:%s/ts=%d,fv=%d" % (" ".join(prefix), ts, fv), len(sk))
    return items


def judged_cases(chk, items, rng, nmut, ncross):
    """Build token sequences, let TLC decide membership, return replay cases."""
    traces = []
    meta = []
    docs = [it for it in items]
    rng.shuffle(docs)
    # (i) cross-dialect: every sampled positive under all four flag sets
    for it in docs[:ncross]:
        text, tokens = corpus.render(it["toks"], rng, avoid_keywords=False)
        recs = corpus.trace_tokens(tokens)
        for r, t in zip(recs, tokens):
            r["text"] = t["text"]
        start = it["start"] if it["start"] in ("Value", "Type") else "Document"
        for ts, fv in langreplay.FLAGSETS:
            traces.append({"toks": [{"k": r["k"], "v": r["v"]} for r in recs], "ev": [], "ce": False, "ck": False, "start": start, "ts": ts, "fv": fv})
            meta.append((recs, start, ts, fv, "cross", "cross/from=%s,%s" % (it["start"], langreplay.flagstr(it["ts"], it["fv"]))))
    # (ii) single-token mutations under the generating dialect, the same number for every dialect / entry point
    groups = {}
    for it in docs:
        groups.setdefault((it["start"], it["ts"], it["fv"]), []).append(it)
    per = max(1, nmut // len(groups))
    chosen = []
    for g in groups.values():
        chosen += [g[i % len(g)] for i in range(per)]
    for it in chosen:
        text, tokens = corpus.render(it["toks"], rng)
        recs = corpus.trace_tokens(tokens)
        start = it["start"] if it["start"] in ("Value", "Type") else "Document"
        m, label, i = langreplay.mutate(recs, rng)

        def kd(j):
            if j < 0:
                return "SOF"
            if j >= len(m):
                return "EOF"
            return m[j]["v"] if m[j]["k"] == "name" else m[j]["k"]
        ctx = "mut=%s/prev=%s/next=%s" % (label, kd(i - 1), kd(i + 1))
        traces.append({"toks": [{"k": r["k"], "v": r["v"]} for r in m], "ev": [], "ce": False, "ck": False, "start": start, "ts": it["ts"], "fv": it["fv"]})
        meta.append((m, start, it["ts"], it["fv"], label, ctx))
    # (iii) constant contexts: a variable in place of every scalar / name token of the swept sentences
    nsweep = 0
    for it in items:
        if not it.get("sweep"):
            continue
        text, tokens = corpus.render(it["toks"], rng, compact=True, avoid_keywords=True)
        recs = corpus.trace_tokens(tokens)
        for i, r in enumerate(recs):
            if r["k"] in ("name", "int", "float", "string") and (i == 0 or recs[i - 1]["k"] not in ("$", "@")) and r["v"] not in corpus.KEYWORDS:
                m = [dict(x) for x in recs]
                old = m[i]["k"]
                m[i:i + 1] = [{"k": "$", "v": ""}, {"k": "name", "v": "ident"}]
                traces.append({"toks": [{"k": x["k"], "v": x["v"]} for x in m], "ev": [], "ce": False, "ck": False, "start": "Document", "ts": it["ts"], "fv": it["fv"]})
                meta.append((m, "Document", it["ts"], it["fv"], "dollar-sweep", "mut=dollar-sweep:%s/prev=%s" % (old, recs[i - 1]["v"] if i and recs[i - 1]["k"] == "name" else (recs[i - 1]["k"] if i else "SOF"))))
                nsweep += 1
    chk.count("const-context sweep cases", nsweep)
    acc = langreplay.tlc_judge(chk, traces, "GqlGrammarTrace judged sequences")
    cases = []
    for idx, (recs, start, ts, fv, label, ctx) in enumerate(meta):
        text, _ = langreplay.render_records(recs, rng)
        cases.append((text, recs, start, ts, fv, idx in acc, label, ctx))
    return cases, len(acc)


def fixture_stage(chk):
    """R3: repository fixtures -> real lexer tokens (+ projected real AST) judged by GqlGrammarTrace."""
    from harness import core
    fx = langreplay.fixture_traces(core.REPO)
    out = {}
    traces = []
    for name, plain, withev in fx:
        if plain is None:
            out[("C02", "fixture/%s/subspan-does-not-parse" % name.split("#")[0])] = ["definition span of a fixture does not parse", {"unit": name, "error": withev}]
            continue
        traces.append(plain)
        traces.append(withev)
    # canaries (binding guard): a fixture tree with two events swapped, and one with a token kind changed, must be rejected
    ncan = 0
    for name, plain, withev in fx:
        if plain is not None and len(withev["ev"]) > 6:
            bad = dict(withev, ev=list(withev["ev"]))
            j = len(bad["ev"]) // 2
            while j + 1 < len(bad["ev"]) and bad["ev"][j] == bad["ev"][j + 1]:
                j += 1
            bad["ev"][j], bad["ev"][j + 1] = bad["ev"][j + 1], bad["ev"][j]
            bad2 = dict(plain, toks=[dict(t) for t in plain["toks"]])
            bad2["toks"][len(bad2["toks"]) // 2] = {"k": "$", "v": ""}
            bad2["toks"].append({"k": "$", "v": ""})
            traces += [bad, bad2]
            ncan = 2
            break
    acc = langreplay.tlc_judge(chk, traces, "GqlGrammarTrace fixtures", shards=1)
    if ncan:
        n = len(traces)
        if (n - 1) in acc or (n - 2) in acc:
            from harness.core import Machinery
            raise Machinery("canary trace accepted by GqlGrammarTrace: the judge does not bind")
        traces = traces[:-2]
        chk.count("fixtures/canaries-rejected", 2)
    i = 0
    for name, plain, withev in fx:
        if plain is None:
            continue
        if i not in acc:
            out[("C01", "fixture/%s/accepted-but-not-derivable" % name.split("#")[0])] = ["parser accepts a fixture whose tokens the grammar does not derive", {"unit": name}]
        elif i + 1 not in acc:
            out[("C02", "fixture/%s/tree-is-not-the-derivation" % name.split("#")[0])] = ["projected tree of a fixture is not a derivation of its tokens", {"unit": name}]
        i += 2
    chk.traces += len(traces)
    chk.count("fixtures/units", len(fx))
    return out


def deep_nesting_probe(chk):
    from py_gql.exc import GraphQLSyntaxError
    from py_gql.lang import parse, parse_value
    out = {}
    probes = {"list-value": lambda: parse_value("[" * 5000 + "]" * 5000),
              "selection-set": lambda: parse("{a" * 5000 + "}" * 5000),
              "unclosed-list": lambda: parse_value("[" * 5000)}
    for name, fn in probes.items():
        try:
            fn()
        except GraphQLSyntaxError:
            pass
        except Exception as e:
            out[("C01", "probe/deep-nesting/%s/%s" % (name, type(e).__name__))] = [
                "nesting beyond the recursion budget raises a non-syntax exception (named probe)", {"probe": name}]
    return out


def run(chk, props=("C01",)):
    rng = random.Random(chk.seed)
    div = {}
    div.update(lexer_stages(chk))
    items = grammar_corpus(chk)
    reps = 2 if chk.quick else 6
    n, d = langreplay.replay_positives(items, reps, chk.seed)
    chk.traces += n
    div.update(d)
    chk.sample({"stage": "grammar-positive", "skeleton": items[len(items) // 3]["toks"], "start": items[len(items) // 3]["start"]})
    cases, nacc = judged_cases(chk, items, rng, 4000 if chk.quick else 60000, 600 if chk.quick else 8000)
    chk.count("judged/cases", len(cases))
    chk.count("judged/accepted-by-TLC", nacc)
    n, d = langreplay.replay_judged(cases)
    chk.traces += n
    div.update(d)
    if cases:
        c = cases[0]
        chk.sample({"stage": "judged", "text": c[0], "tlc_valid": c[5], "label": c[6]})
    div.update(fixture_stage(chk))
    div.update(deep_nesting_probe(chk))
    for (prop, key), (what, wit) in div.items():
        if prop in props:
            chk.diverge(key, wit, what)
    chk.assumptions += [
        "character classes are represented by the code points listed in harness/lexgamma.py (every boundary code point included)",
        "texts on which June-2018 and RFC 601 disagree (number followed by digit/./name start) are not judged (spec flag `contested`)",
    ]
    return chk.finish(rule="TLC enumerates every class string <= L and every grammar skeleton <= N tokens; each is concretised several "
                           "times and replayed into the real lexer/parser; distinct = distinct TLC behaviours")


def replay(path):
    import json
    w = json.load(open(path))
    print(json.dumps(w, indent=1)[:4000])
    return 0
