"""C08 - Results do not depend on runtime, executor variant or completion order.

R1 (TLC on spec/GqlSched.tla): NoLostWakeup, CrashSurfaces, OnlyReachable as invariants over every plan of <= MaxNodes field
    instances and every completion order; Terminates (liveness) under weak fairness of Complete; the PlusCal model
    FutureCombinators checks the design of gather_futures at line granularity.
R2: every behaviour (plan + completion order) is replayed on (Executor, ThreadPoolRuntime with a fake pool),
    (Executor, AsyncIORuntime on a private loop) comparing the pending set after every completion, and its all-synchronous
    projection on (Executor, BlockingRuntime) and (BlockingExecutor, BlockingRuntime); final ordered data, error paths
    and crash surfacing must equal the schedule-independent reference Data / ErrNodes of the specification."""
import random

from harness import par, schedreplay, tlc

OP = "query"
PID = "C08"


def generate(chk, op, maxnodes, simulate=None, depth=None, label=None):
    cfg = tlc.cfg(constants={"MaxNodes": maxnodes, "OpKinds": {op}, "Modes": {"def", "sync"}},
                  invariants=["Emit", "NoLostWakeup", "CrashSurfaces", "OnlyReachable", "Serial", "TopOrder"])
    kw = {}
    if simulate:
        kw = {"simulate": simulate, "depth": depth, "seed": chk.seed, "cache": False}
    r = chk.tlc("GqlSched", cfg, tags=["RUN"], coverage=not simulate, label=label or "GqlSched %s nodes<=%d" % (op, maxnodes), **kw)
    if r.rc != 0:
        raise tlc.TLCError("GqlSched invariant violated: %s\n%s" % (r.violated, r.tail))
    if not simulate:
        tlc.require_coverage(r, ["AddNode", "Seal", "Begin", "CompleteAny"])
    seen = set()
    out = []
    for b in r.tagged("RUN"):
        k = repr((b["nodes"], [s["n"] for s in b["steps"]]))
        if k not in seen:
            seen.add(k)
            out.append(b)
    return out


def liveness(chk, op):
    cfg = tlc.cfg(spec="FairSpec", constants={"MaxNodes": 3, "OpKinds": {op}, "Modes": {"def", "sync"}}, properties=["Terminates"])
    r = chk.tlc("GqlSched", cfg, label="GqlSched liveness %s nodes<=3" % op, tags=[])
    if r.rc != 0:
        raise tlc.TLCError("GqlSched liveness property Terminates violated\n%s" % r.tail)


def future_combinators(chk):
    """R1: PlusCal model of gather_futures (line-granular callbacks racing with registration)."""
    for atomic in (True, False):
        cfg = tlc.cfg(spec="Spec", constants={"NSrc": 3, "Atomic": atomic, "defaultInitValue": tlc.Raw("0")},
                      invariants=["AtMostOnce", "Correct", "EveryCbOnce"], properties=["Termination"])
        r = chk.tlc("FutureCombinators", cfg, label="FutureCombinators NSrc=3 atomic-increment=%s" % atomic, tags=[])
        if atomic and r.rc != 0:
            raise tlc.TLCError("FutureCombinators (atomic increment) violated %s\n%s" % (r.violated, r.tail))
        if not atomic:
            chk.notes["gather_futures_nonatomic_increment_model_only"] = (
                "violates %s" % r.violated if r.rc != 0 else "holds") + " (free-threaded hazard, not reproducible on CPython 3.12, not a finding)"


def _worker(behs):
    out = {}
    n = 0
    logs = []
    for b in behs:
        plan = {"op": b["op"], "nodes": b["nodes"], "variant": b.get("_variant")}
        allsync = all(x["mode"] == "sync" for x in plan["nodes"])
        ni, nm = b.get("_ninstr", 1), b.get("_nmw", 0)
        for cfgname in ("pool", "asyncio", "custom-runtime", "blocking-generic", "blocking-optimised"):
            rec = schedreplay.Recorder(ni, nm)
            try:
                if cfgname == "pool":
                    div, _ = schedreplay.run_pool(plan, b, rec)
                elif cfgname == "custom-runtime":
                    div, _ = schedreplay.run_custom(plan, b, rec)
                elif cfgname == "asyncio":
                    div, _ = schedreplay.run_asyncio(plan, b, rec)
                else:
                    sync_plan = {"op": plan["op"], "nodes": [dict(x, mode="sync") for x in plan["nodes"]], "variant": plan["variant"]}
                    div, invoked = schedreplay.run_blocking(sync_plan, b, rec, cfgname.split("-")[1])
                    if allsync and not b["failed"] and invoked != b["inv"]:
                        div = div + [("%s/invocation-order/%s" % (cfgname, plan["op"]), {"expected": b["inv"], "got": invoked})]
            except Exception as e:  # harness-visible exception from the implementation
                div = [("%s/harness-exception/%s" % (cfgname, type(e).__name__), repr(e))]
            n += 1
            for key, detail in div:
                out.setdefault(key, {"plan": plan, "schedule": [s["n"] for s in b["steps"]], "detail": detail})
            logs.append({"cfg": cfgname, "ninstr": ni, "nmw": nm, "events": rec.log, "crash": b["failed"] or schedreplay._reachable_crash(plan),
                         "plan": plan, "schedule": [s["n"] for s in b["steps"]]})
    return out, n, logs


def replay(chk, behs, keep_logs=False):
    res = par.pmap(_worker, behs)
    logs = []
    for out, n, lg in res:
        chk.traces += n
        if keep_logs:
            logs += lg
        for k, wit in out.items():
            chk.diverge(k, wit, "replay of a GqlSched behaviour diverges from the specification (%s)" % k.split("/")[0])
    return logs


def _real_worker(args):
    behs, seed = args
    rng = random.Random(seed)
    out = {}
    n = 0
    for b in behs:
        plan = {"op": b["op"], "nodes": b["nodes"], "variant": b.get("_variant")}
        for which in ("pool", "asyncio"):
            n += 1
            try:
                div = schedreplay.run_real(plan, b, rng, which)
            except Exception as e:
                div = [("real-%s/harness-exception/%s" % (which, type(e).__name__), repr(e))]
            for key, detail in div:
                out.setdefault(key, {"plan": plan, "detail": detail})
            if sum(1 for k_ in out if "/timeout/" in k_) >= 2:
                return out, n      # a hanging runtime costs 90 s per run: two reported time-outs are enough
    return out, n


def real_stage(chk, behs, rng, k):
    """Real worker threads / default loop executor: final results must equal the schedule-independent reference."""
    plans = {}
    for b in behs:
        plans.setdefault(repr(b["nodes"]), b)
    sample = list(plans.values())
    rng.shuffle(sample)
    sample = sample[:k]
    parts = par.chunks(sample, par.NPROC)
    for out, n in par.pmap(_real_shards, [(p, chk.seed + i) for i, p in enumerate(parts)]):
        chk.traces += n
        chk.count("real-runtime runs", n)
        for key, wit in out.items():
            chk.diverge(key, wit, "run on the real runtime differs from the schedule-independent reference result")


def _real_shards(shards):
    merged, n = {}, 0
    for a in shards:
        out, k = _real_worker(a)
        n += k
        for key, v in out.items():
            merged.setdefault(key, v)
    return merged, n


def decorate(behs, rng):
    for b in behs:
        b["_ninstr"] = rng.choice([1, 1, 2, 3])
        b["_nmw"] = rng.choice([0, 1, 2])
        # gamma variant: CollectFields-equivalent document shapes and resolver attachment styles
        b["_variant"] = {"wrap": rng.choice(["none", "none", "inline", "inline-untyped", "spread", "split"]),
                         "dup": rng.random() < 0.25, "style": rng.choice(["resolver", "resolver", "method"]),
                         "err": rng.choice(["fresh", "shared", "subclass", "proxy", "completion", "empty"]), "crash": rng.choice(["runtime", "runtime", "located", "index", "stopiteration"]),
                         "root": rng.choice(["separate", "separate", "shared"]), "dirs": rng.random() < 0.3,
                         "tn": rng.choice([None, None, 0, 1, 2]), "argdef": rng.random() < 0.4}
    return behs


def run(chk, op=OP):
    rng = random.Random(chk.seed)
    liveness(chk, op)
    if op == "query":
        future_combinators(chk)
    behs = generate(chk, op, 3)
    chk.count("behaviours<=3 (exhaustive)", len(behs))
    if chk.quick:
        small = [b for b in behs if len(b["nodes"]) <= 2]
        big = [b for b in behs if len(b["nodes"]) >= 3]        # (a list-of-objects plan of 3 nodes unfolds to up to 5 field instances)
        rng.shuffle(big)
        lob = [b for b in big if any(x["out"] == "lobj" for x in b["nodes"])]
        behs = small + big[:3500] + lob[:1500]
        chk.exhaustive = False
        sim = generate(chk, op, 5, simulate=4000, depth=24, label="GqlSched -simulate nodes<=5")
        sim = [b for b in sim if len(b["nodes"]) >= 4][:1500]
        chk.count("behaviours 4-5 nodes (simulated)", len(sim))
        behs += sim
    else:
        # all plans of <= 3 field instances x all completion orders are replayed in full; 4-node plans are no longer enumerated
        # exhaustively (eleven outcomes x two modes per node: the behaviours alone exceed the memory of this sandbox) but sampled
        chk.exhaustive = False
        extra = [b for b in generate(chk, op, 4, simulate=12000, depth=26, label="GqlSched -simulate nodes<=4") if len(b["nodes"]) == 4][:200000]
        chk.count("behaviours=4 (simulated)", len(extra))
        sim = generate(chk, op, 6, simulate=8000, depth=30, label="GqlSched -simulate nodes<=6")
        sim = [b for b in sim if len(b["nodes"]) >= 5][:150000]
        chk.count("behaviours 5-6 nodes (simulated)", len(sim))
        behs += extra + sim
    chk.count("behaviours replayed", len(behs))
    chk.count("behaviours with a list of two objects (sub-selection instances per item)", sum(1 for b in behs if any(x["out"] == "lobj" for x in b["nodes"])))
    decorate(behs, rng)
    replay(chk, behs)
    real_stage(chk, behs, rng, 400 if chk.quick else 4000)
    if op == "query":
        submit_scenario(chk)
        # lists of objects, abstract types and merged sub-selections: GqlExec documents on the real deferring runtimes
        from checks import c04
        rich = c04.rich_behaviours(chk)
        rng.shuffle(rich)
        rich = rich[:3000 if chk.quick else 40000]
        chk.count("GqlExec documents on real asyncio / thread-pool runtimes", len(rich))
        parts = par.chunks(rich, par.NPROC * 2)
        for out, n in par.pmap(c04.deferred_shards, [(p_, chk.seed + i) for i, p_ in enumerate(parts)]):
            chk.traces += n
            for k, (what, wit) in out.items():
                chk.diverge(k, wit, what)
    b = behs[len(behs) // 2]
    chk.sample({"op": b["op"], "nodes": b["nodes"], "completion_order": [s["n"] for s in b["steps"]], "pending_after_each": [s["pending"] for s in b["steps"]]})
    chk.assumptions += ["fake pool / private event loop make completion order controllable; callbacks run synchronously inside complete()",
                        "errors are compared as a multiset of response paths (messages are not compared)"]
    return chk.finish(rule="every plan of <= 3 field instances x every completion order (exhaustive), seeded sample of 4-node plans, "
                           "each on 4 executor/runtime configurations; distinct = (plan, schedule) pairs")


def submit_scenario(chk):
    """Resolvers that hand work to the runtime themselves (info.runtime.submit / map_value: "pool-submitted tasks") on
    DEFAULT-CONSTRUCTED runtimes, as graphql() / the documentation create them: plain functions are then run in worker threads
    by the asyncio runtime, and submit() is called from there.  Same data and errors everywhere."""
    import asyncio
    from py_gql import build_schema, process_graphql_query
    from py_gql.exc import ResolverError
    from py_gql.execution.runtime import AsyncIORuntime, BlockingRuntime, ThreadPoolRuntime
    sdl = "type Query { a: Int  b: B  c: Int  e: Int  l: [Int] } type B { x: Int  y: Int }"
    q = "{ a b { x y } c e l }"

    def make():
        schema = build_schema(sdl)

        def slow(v):
            return v

        def failing():
            raise ResolverError("submitted task failed")

        @schema.resolver("Query.a")
        def res_a(root, ctx, info):
            return info.runtime.submit(slow, 1)

        @schema.resolver("Query.b")
        def res_b(root, ctx, info):
            return info.runtime.map_value(info.runtime.submit(slow, {"x": 2}), lambda v: dict(v, y=3))

        @schema.resolver("Query.c")
        def res_c(root, ctx, info):
            return info.runtime.map_value(info.runtime.submit(slow, 4), lambda v: v + 1)

        @schema.resolver("Query.e")
        def res_e(root, ctx, info):
            return info.runtime.submit(failing)

        @schema.resolver("Query.l")
        def res_l(root, ctx, info):
            return info.runtime.gather_values([info.runtime.submit(slow, 7), 8, info.runtime.submit(slow, 9)])
        return schema
    want = ([["a", 1], ["b", [["x", 2], ["y", 3]]], ["c", 5], ["e", None], ["l", [7, 8, 9]]], [("e",)])

    def norm(res):
        def plain(v):
            if isinstance(v, dict):
                return [[k, plain(x)] for k, x in v.items()]
            if isinstance(v, list):
                return [plain(x) for x in v]
            return v
        return plain(res.data), sorted(tuple(e.path or ()) for e in res.errors)
    runs = {}
    for cfg in ("blocking", "asyncio-default", "pool-default"):
        try:
            if cfg == "blocking":
                got = norm(process_graphql_query(make(), q, runtime=BlockingRuntime()))
            elif cfg == "pool-default":
                rt = ThreadPoolRuntime()
                got = norm(process_graphql_query(make(), q, runtime=rt).result(timeout=60))
            else:
                async def main():
                    return await asyncio.wait_for(process_graphql_query(make(), q, runtime=AsyncIORuntime()), 60)
                loop = asyncio.new_event_loop()
                try:
                    got = norm(loop.run_until_complete(main()))
                finally:
                    loop.close()
        except BaseException as e:
            chk.diverge("submit/%s/raises/%s" % (cfg, type(e).__name__), {"error": repr(e)[:300], "query": q}, "request whose resolvers submit work to the runtime fails as a whole")
            continue
        chk.traces += 1
        runs[cfg] = got
        if got != want:
            chk.diverge("submit/%s/result-differs" % cfg, {"expected": want, "got": got, "query": q}, "result of resolvers that submit work to the runtime differs from the reference")


def replay_file(path):
    import json
    print(json.dumps(json.load(open(path)), indent=1)[:3000])
    return 0


replay_cmd = replay_file
