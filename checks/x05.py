"""X05 (supplementary, not one of the twenty listed properties) - the combinator algebra of the runtimes.

spec/GqlRuntime.tla: terms over map_value (with else_), gather_values, unwrap_value and deferred values are built by actions; TLC
checks Total / HandlerSound / GatherOrder on every term and prints it with the set of outcomes the awaited term may have.  Every
term is built on the BlockingRuntime (terms without failing deferred values), on the ThreadPoolRuntime (a fake pool releases the
deferred values in every order) and on the AsyncIORuntime (gated coroutines on a private loop): the awaited result must be one of
the outcomes, it must not be available while a term whose deferred values all succeed still waits for one, and it must be
available once all have settled.
Evidence goes to out/extra/X05.json (evidence/ is reserved for the listed properties)."""
import asyncio
import itertools
import json
import os
import warnings
from concurrent.futures import Future

from harness import core, par, tlc

warnings.simplefilter("ignore", RuntimeWarning)
# a second failing member of a gather resolves an already resolved future inside a done-callback: concurrent.futures logs and
# swallows the InvalidStateError (modelled by spec/FutureCombinators.tla, variable `swallowed`); the log line is noise here
import logging
logging.getLogger("concurrent.futures").setLevel(logging.CRITICAL)


class E1(Exception):
    pass


class E2(Exception):
    pass


ERR = {"E1": E1, "E2": E2}


def conv(v):
    return v["n"] if v["k"] == "int" else [conv(x) for x in v["items"]]


def handler(h):
    if h == "none":
        return None
    return ({"E1": E1, "E2": E2, "any": Exception}[h], lambda e: 0)


def build(rt, t, src, nest):
    """src(n, out) -> a deferred value of the runtime; nest(x) -> a NEW deferred value holding [x]."""
    k = t["t"]
    if k == "val":
        return t["n"]
    if k == "src":
        return src(t["n"], t["out"])
    if k == "gather":
        return rt.gather_values([build(rt, a, src, nest) for a in t["a"]])
    inner = build(rt, t["a"][0], src, nest)
    if k == "map":
        def then(x, f=t["f"]):
            if f == "fail1":
                raise E1("callback")
            return [x]
        return rt.map_value(inner, then, handler(t["h"]))
    return rt.unwrap_value(rt.map_value(inner, nest, handler(t["h"])))


def outcome_ok(outs, got):
    for o in outs:
        if o["k"] == "val" and got[0] == "val" and conv(o["v"]) == got[1]:
            return True
        if o["k"] == "err" and got[0] == "err" and got[1] == o["e"]:
            return True
    return False


def classify(exc):
    return ("err", "E1" if isinstance(exc, E1) else "E2" if isinstance(exc, E2) else type(exc).__name__)


def has_failing_src(t):
    return (t["t"] == "src" and t["out"] != "ok") or any(has_failing_src(a) for a in t["a"])


def can_fail(t):
    return (t["t"] == "src" and t["out"] != "ok") or t.get("f") == "fail1" or any(can_fail(a) for a in t["a"])


def run_blocking(t):
    from py_gql.execution.runtime import BlockingRuntime
    rt = BlockingRuntime()
    def src(n, out):
        def fn():
            if out != "ok":
                raise ERR[out]("source %d" % n)
            return n
        return rt.submit(fn)
    try:
        v = rt.ensure_wrapped(rt.unwrap_value(build(rt, t, src, lambda x: rt.submit(lambda: [x]))))
        return ("val", v)
    except Exception as e:
        return classify(e)


class FakePool:
    def __init__(self):
        self.tasks = []

    def submit(self, fn, *a, **kw):
        f = Future()
        self.tasks.append((f, fn, a, kw))
        return f

    def release(self, i):
        f, fn, a, kw = self.tasks[i]
        try:
            f.set_result(fn(*a, **kw))
        except Exception as e:
            f.set_exception(e)

    def shutdown(self, *a, **kw):
        pass


def run_pool(t, order, div, wit, outs):
    from py_gql.execution.runtime import ThreadPoolRuntime
    rt = ThreadPoolRuntime(max_workers=1)
    rt._inner.shutdown()
    pool = rt._inner = FakePool()
    sources = []

    def src(n, out):
        def fn():
            if out != "ok":
                raise ERR[out]("source %d" % n)
            return n
        sources.append(len(pool.tasks))
        return rt.submit(fn)

    def auto():
        # deferred values created by callbacks (Nest) settle as soon as they exist
        j = 0
        while j < len(pool.tasks):
            if j not in sources and not pool.tasks[j][0].done():
                pool.release(j)
            j += 1
    try:
        fut = rt.ensure_wrapped(rt.unwrap_value(build(rt, t, src, lambda x: rt.submit(lambda: [x]))))
    except Exception as e:          # raised while the term is built: an outcome like any other
        return classify(e)
    auto()
    released = set()
    for step, i in enumerate(order):
        if i >= len(sources):
            continue                # (a member of a gather that was never built)
        if fut.done() and not can_fail(t):
            div.append(("runtime/pool/result-ready-while-a-source-is-pending", dict(wit, released=sorted(released))))
            return None
        pool.release(sources[i])
        released.add(i)
        auto()
    if not fut.done():
        div.append(("runtime/pool/result-left-pending", wit))
        return None
    return classify(fut.exception()) if fut.exception() is not None else ("val", fut.result())


def run_asyncio(t, order, div, wit, outs):
    from py_gql.execution.runtime import AsyncIORuntime
    loop = asyncio.new_event_loop()
    try:
        rt = AsyncIORuntime(loop=loop, execute_blocking_functions_in_thread=False)
        gates = []

        def src(n, out):
            g = loop.create_future()
            gates.append(g)

            async def co():
                await g
                if out != "ok":
                    raise ERR[out]("source %d" % n)
                return n
            return co()

        def nest(x):
            async def co():
                return [x]
            return co()

        def settle():
            for _ in range(100):
                loop.run_until_complete(asyncio.sleep(0))
                if not loop._ready:
                    break
        try:
            term = rt.ensure_wrapped(rt.unwrap_value(build(rt, t, src, nest)))
        except Exception as e:      # raised while the term is built
            return classify(e)

        async def main():
            return await term
        task = loop.create_task(main())
        settle()
        for i in order:
            if task.done() and not can_fail(t):
                div.append(("runtime/asyncio/result-ready-while-a-source-is-pending", wit))
                return None
            if i < len(gates) and not gates[i].done():
                gates[i].set_result(None)
            settle()
        for g in gates:         # (sources a failed gather no longer waits for)
            if not g.done():
                g.set_result(None)
        settle()
        if not task.done():
            task.cancel()
            settle()
            div.append(("runtime/asyncio/result-left-pending", wit))
            return None
        return classify(task.exception()) if task.exception() is not None else ("val", task.result())
    finally:
        try:
            for x in asyncio.all_tasks(loop):
                x.cancel()
            loop.run_until_complete(asyncio.sleep(0))
        except Exception:
            pass
        loop.close()


def shape(t):
    return t["t"] if not t["a"] else "%s(%s)" % (t["t"] + (":" + t["f"] if t["f"] else "") + ("/" + t["h"] if t["h"] not in ("", "none") else ""), ",".join(shape(a) for a in t["a"]))


def _replay(cases):
    out = {}
    n = 0
    for c in cases:
        t, outs, nsrc = c["term"], c["deferring"], c["nsrc"]
        wit = {"term": shape(t), "outcomes": [o["e"] if o["k"] == "err" else conv(o["v"]) for o in outs],
               "outcomes_blocking": [o["e"] if o["k"] == "err" else conv(o["v"]) for o in c["blocking"]]}
        runs = []
        n += 1
        runs.append(("blocking", run_blocking(t)))
        for order in itertools.permutations(range(nsrc)):
            div = []
            for name, fn in (("pool", run_pool), ("asyncio", run_asyncio)):
                n += 1
                try:
                    got = fn(t, order, div, dict(wit, order=list(order)), outs)
                except Exception as e:
                    div.append(("runtime/%s/harness-visible-exception/%s" % (name, type(e).__name__), dict(wit, order=list(order), error=repr(e)[:200])))
                    got = None
                if got is not None:
                    runs.append((name, got, list(order)))
            for k, d in div:
                out.setdefault(k + "/" + t["t"], ["runtime combinator diverges from the specification", d])
        for r in runs:
            if not outcome_ok(c["blocking"] if r[0] == "blocking" else outs, r[1]):
                out.setdefault("runtime/%s/outcome/%s/%s" % (r[0], t["t"], "value" if r[1][0] == "val" else r[1][1]),
                               ["awaited result is none of the outcomes of the specification", dict(wit, got=list(r[1]), order=r[2] if len(r) > 2 else None)])
    return out, n


def run(chk):
    core.EVID = os.path.join(core.VERIF, "out", "extra")
    steps = 4 if chk.quick else 5
    cfg = tlc.cfg(spec="Spec", constants={"MaxSteps": steps}, invariants=["Emit", "Total", "HandlerSound", "GatherOrder", "NothingWrappedWhenBlocking"])
    r = chk.tlc("GqlRuntime", cfg, tags=["RTM"], label="GqlRuntime steps<=%d" % steps)
    if r.rc != 0:
        raise tlc.TLCError("GqlRuntime: %s\n%s" % (r.violated, r.tail))
    cases = r.tagged("RTM")
    chk.count("terms", len(cases))
    for out, k in par.pmap(_replay, cases):
        chk.traces += k
        for key, (what, wit) in out.items():
            chk.diverge(key, wit, what)
    c = cases[len(cases) // 2]
    chk.sample({"term": shape(c["term"]), "outcomes": [o["e"] if o["k"] == "err" else conv(o["v"]) for o in c["deferring"]]})
    return chk.finish(rule="every term of <= %d construction steps x every release order of its deferred values, on three runtimes" % steps)


def replay_cmd(path):
    print(json.dumps(json.load(open(path)), indent=1)[:3000])
    return 0
