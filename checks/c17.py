"""C17 - Subscriptions map each source event to one isolated result, in order.

R1 (TLC, spec/GqlSubscribe.tla): OnePerEvent, NoConsumeBeforeRefusal, InOrder, EndOnlyAtSourceEnd on every event sequence of
    length <= MaxEvents x set-up x relative timing of source and consumer x completion order of the deferred field resolvers;
    Terminates under fairness.
R2: every behaviour replayed on the real subscribe() with a private event loop, a gated async-iterator source and gated
    field resolvers, the observable state (source calls, pending field gates, readiness of each pulled result) compared
    after every action; each yielded result must equal the reference computed from event k ALONE."""
import random

from harness import par, subreplay, tlc

SETUPS = {"ok-sync", "ok-async", "multi-root", "no-sub-resolver", "not-subscription", "no-stream-runtime"}


def generate(chk, maxev, setups, simulate=None):
    cfg = tlc.cfg(constants={"MaxEvents": maxev, "Setups": setups},
                  invariants=["Emit", "OnePerEvent", "NoConsumeBeforeRefusal", "InOrder", "EndOnlyAtSourceEnd"])
    kw = {}
    if simulate:
        kw = {"simulate": simulate, "depth": 60, "seed": chk.seed, "cache": False}
    r = chk.tlc("GqlSubscribe", cfg, tags=["SUB"], coverage=not simulate, label="GqlSubscribe events<=%d%s" % (maxev, " -simulate" if simulate else ""), **kw)
    if r.rc != 0:
        raise tlc.TLCError("GqlSubscribe invariant violated: %s\n%s" % (r.violated, r.tail))
    if not simulate:
        tlc.require_coverage(r, ["Subscribe", "Produce", "Pull", "Deliver", "Yield", "End"])
    seen, out = set(), []
    for b in r.tagged("SUB"):
        k = repr((b["setup"], b["evs"], b["log"]))
        if k not in seen:
            seen.add(k)
            out.append(b)
    return out


def _worker(behs):
    out = {}
    n = 0
    for i, b in enumerate(behs):
        n += 1
        try:
            div = subreplay.run(b, i)
            if b["setup"] in ("not-subscription", "multi-root", "no-sub-resolver"):      # refusals are cheap: both gamma variants of the set-up
                n += 1
                div = div + subreplay.run(b, i + 1)
        except BaseException as e:      # (a CancelledError that escapes the implementation is a BaseException)
            div = [("sub/harness-exception/%s" % type(e).__name__, repr(e))]
        for key, detail in div:
            out.setdefault(key, {"setup": b["setup"], "events": b["evs"], "log": [(s["a"], s["k"], s["f"]) for s in b["log"]], "detail": detail})
    return out, n


def run(chk):
    rng = random.Random(chk.seed)
    cfg = tlc.cfg(spec="FairSpec", constants={"MaxEvents": 1, "Setups": {"ok-sync"}}, properties=["Terminates"])
    r = chk.tlc("GqlSubscribe", cfg, label="GqlSubscribe liveness", tags=[])
    if r.rc != 0:
        raise tlc.TLCError("GqlSubscribe liveness violated\n" + r.tail)
    behs = generate(chk, 1, SETUPS)
    chk.count("behaviours events<=1 (exhaustive)", len(behs))
    sim = generate(chk, 3, {"ok-sync", "ok-async"}, simulate=6000 if chk.quick else 12000)   # (num is per TLC worker: x16 behaviours)
    sim = [b for b in sim if len(b["evs"]) >= 2]
    if chk.quick:
        sim = sim[:2500]
    else:
        sim = sim[:150000]
    chk.exhaustive = False
    chk.count("behaviours 2-3 events (simulated)", len(sim))
    behs += sim
    for out, n in par.pmap(_worker, behs):
        chk.traces += n
        for k, wit in out.items():
            chk.diverge(k, wit, "replay of a GqlSubscribe behaviour diverges (%s)" % k)
    b = sim[0] if sim else behs[-1]
    chk.sample({"setup": b["setup"], "events": b["evs"], "log": [(s["a"], s["k"], s["f"]) for s in b["log"]]})
    chk.assumptions += ["single consumer (one outstanding pull)", "field resolvers a, b are deferred coroutines released by the harness"]
    return chk.finish(rule="event sequences x set-ups x source/consumer timing x field completion order; events<=1 exhaustive, 2-3 simulated")


def replay_cmd(path):
    import json
    print(json.dumps(json.load(open(path)), indent=1)[:3000])
    return 0
