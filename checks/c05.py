"""C05 - Validated operations cannot go wrong; validation itself never crashes.

Stage A (abstract documents, judged by TLC): the documents of C06 (structured random, 41 labelled injections, the adversarial
duplicates of the property's quantifier) are validated rule by rule and as a whole: no call may raise.  For every document the
IMPLEMENTATION accepts, spec/GqlValidate.tla supplies Shapes(doc): per operation and per concrete type the abstract fields
resolve to, the ordered response keys with their kind (leaf / object / list) computed with the specification's CollectFields /
ExecuteSelectionSet, and the flag `amb` (a response key groups fields that differ in name or arguments on the runtime type).
Each accepted document is executed (graphql_blocking, resolvers returning values of the declared types, two variable
assignments): the call must not raise, no error may be reported, the data must have exactly that shape and no key may be
ambiguous.

Stage B (concrete documents from the grammar): every parseable executable sentence of GqlGrammarGen within the bound, rendered
over an identifier pool that a second schema is built from (types, fields, arguments, enum values, directives and input objects
all carry pool names), plus single-token mutations that still parse: validation must not raise; accepted documents are executed
and must not raise either (the shape is not judged in this stage: TLC has no abstract document for them)."""
import json
import random

from harness import corpus, par, valgamma
from checks import c06

POOL_SDL = """
schema { query: Query  mutation: Mutation  subscription: Subscription }
type Query { a(a: Int, b: [Int!], e: e, id: id, foo: String = "x"): Int  b: String  foo: foo  Bar: Bar  x1: [x1]  A_b9: A_b9!  _x: _x  e: e
             id(id: ID!): ID  Query: Query  String: String  Int: Int }
type Mutation { a(a: Int): Int  b: String  foo: foo }
type Subscription { a(a: Int): Int  b: String }
type Bar implements foo { a(a: Int): Int  b: String  foo: foo  Bar: Bar  e: e  id: ID }
type A_b9 implements foo { a(a: Int): Int  b: Int  x1: x1 }
interface foo { a(a: Int): Int }
union x1 = Bar | A_b9
enum e { a b foo Bar }
input id { a: Int  b: [Int!]  e: e = a  id: id  foo: String! }
scalar _x
directive @a(a: Int, e: e) on FIELD | QUERY | FRAGMENT_SPREAD | MUTATION
directive @foo on FIELD | INLINE_FRAGMENT | FRAGMENT_DEFINITION | SUBSCRIPTION
"""
_SCHEMAS = {}
ALPHA = ["a", "b", "foo", "Bar", "e", "id", "x1", "A_b9", "_x", "{", "}", "(", ")", "[", "]", ":", "$", "@", "...", "on", "1", '"s"', "null", "true", "=", "!",
         "fragment", "query", "mutation", "subscription", "$a", "@a", "@foo", "{ a }", "... on Bar", "(a: 1)", "[1, null]", "{a: 1}"]


class Node:
    __slots__ = ("t",)

    def __init__(self, t):
        self.t = t


class LegacySequence:
    """A list-like resolver result that only implements the sequence protocol (__len__ / __getitem__, no __iter__): rows of
    database drivers, ctypes arrays, paging wrappers.  iter() accepts it, so it is a value of a list type."""

    def __init__(self, items):
        self._items = list(items)

    def __len__(self):
        return len(self._items)

    def __getitem__(self, i):
        return self._items[i]


_LIST_FORMS = [list, tuple, lambda xs: (x for x in xs), LegacySequence, lambda xs: iter(xs)]
_list_form = [0]


def as_some_list(xs):
    """gamma for "a resolver result of a list type": the forms rotate so that every form meets every list field."""
    _list_form[0] += 1
    return _LIST_FORMS[_list_form[0] % len(_LIST_FORMS)](xs)


def exec_schema(which, conc, nulls_seed=None):
    """Schema whose every field resolves to a value of its declared type; abstract types resolve to `conc`-th possible type."""
    key = (which, conc, nulls_seed)
    if key in _SCHEMAS:
        return _SCHEMAS[key]
    from py_gql import build_schema
    from py_gql.schema import EnumType, InterfaceType, ListType, NonNullType, ObjectType, ScalarType, UnionType
    schema = build_schema(valgamma.SDL if which == "val" else POOL_SDL)
    if which == "val":
        valgamma.install_any(schema)
    rng = random.Random(nulls_seed)

    def pick(t):
        poss = sorted(x.name for x in schema.get_possible_types(t))
        if conc in poss:
            return conc
        return poss[conc % len(poss)] if isinstance(conc, int) else poss[0]

    def value(t, top=True):
        if isinstance(t, NonNullType):
            return value(t.type, False)
        if nulls_seed is not None and top and rng.random() < 0.3:
            return None
        if isinstance(t, ListType):
            inner = t.type.type if isinstance(t.type, NonNullType) else t.type
            if isinstance(inner, (InterfaceType, UnionType)) and isinstance(conc, str):
                # lists of abstract types alternate between the possible types (spec: sub / sub2)
                other = [x for x in sorted(y.name for y in schema.get_possible_types(inner)) if x != pick(inner)]
                return as_some_list([Node(pick(inner)), Node(other[0] if other else pick(inner))])
            return as_some_list([value(t.type), value(t.type)])
        if isinstance(t, ObjectType):
            return Node(t.name)
        if isinstance(t, (InterfaceType, UnionType)):
            return Node(pick(t))
        if isinstance(t, EnumType):
            return t.values[0].value
        if isinstance(t, ScalarType):
            return {"Int": 7, "Float": 1.5, "String": "s", "Boolean": True, "ID": "id"}.get(t.name, "x")
        raise AssertionError(t)

    def resolver(root, ctx, info, **args):
        # a resolver only ever sees the arguments of ITS OWN field definition, defaults included
        fd = info.field_definition
        declared = {a.name: a for a in fd.arguments}
        given = {a.name.value for n in info.nodes for a in n.arguments}
        for k in args:
            if k not in declared:
                raise AssertionError("resolver of %s.%s received undeclared argument %r" % (info.parent_type.name, fd.name, k))
        for k, a in declared.items():
            if a.has_default_value and k not in given and args.get(k, Ellipsis) != a.default_value:
                raise AssertionError("resolver of %s.%s: argument %r is %r, its own default is %r" % (info.parent_type.name, fd.name, k, args.get(k, "<absent>"), a.default_value))
        return value(fd.type)
    schema.default_resolver = resolver
    for t in schema.types.values():
        if isinstance(t, (InterfaceType, UnionType)):
            t.resolve_type = lambda v, *a, **k: v.t
    _SCHEMAS[key] = schema
    return schema


def var_value(t):
    if t["k"] == "nn":
        return var_value(t["of"])
    if t["k"] == "list":
        return [var_value(t["of"])]
    return {"Int": 3, "String": "s", "Boolean": True, "In": {"y": 1}}.get(t["n"], 1)


def compare(data, shape, path="data"):
    """-> None or a description of the first mismatch"""
    if not isinstance(data, dict):
        return "%s: object expected, got %s" % (path, type(data).__name__)
    keys = [s["key"] for s in shape]
    if list(data.keys()) != keys:
        return "%s: keys %s, specification %s" % (path, list(data.keys()), keys)
    for s in shape:
        v = data[s["key"]]
        p = "%s.%s" % (path, s["key"])
        if s["kind"] == "leaf":
            if isinstance(v, (dict, list)):
                return "%s: leaf expected" % p
        elif s["kind"] == "obj":
            r = compare(v, s["sub"], p)
            if r:
                return r
        elif s["kind"] == "list":
            if not isinstance(v, list):
                return "%s: list expected" % p
            for i, x in enumerate(v):
                r = compare(x, s["sub"] if i == 0 else s["sub2"], "%s[%d]" % (p, i))
                if r:
                    return r
        else:
            return "%s: field unknown to the schema in an accepted document" % p
    return None


def compare_nullable(data, shape, path="data"):
    """Same with nulls allowed anywhere (the resolvers of that mode return null for nullable positions)."""
    if data is None:
        return None
    if not isinstance(data, dict):
        return "%s: object expected" % path
    keys = [s["key"] for s in shape]
    if list(data.keys()) != keys:
        return "%s: keys %s, specification %s" % (path, list(data.keys()), keys)
    for s in shape:
        v = data[s["key"]]
        p = "%s.%s" % (path, s["key"])
        if v is None:
            continue
        if s["kind"] == "leaf":
            if isinstance(v, (dict, list)):
                return "%s: leaf expected" % p
        elif s["kind"] == "obj":
            r = compare_nullable(v, s["sub"], p)
            if r:
                return r
        elif s["kind"] == "list":
            if not isinstance(v, list):
                return "%s: list expected" % p
            for i, x in enumerate(v):
                r = compare_nullable(x, s["sub"] if i == 0 else s["sub2"], "%s[%d]" % (p, i))
                if r:
                    return r
    return None


def ambiguous(shape):
    for s in shape:
        if s["amb"]:
            return s["key"]
        r = ambiguous(s["sub"]) or ambiguous(s["sub2"])
        if r:
            return r
    return None


def _worker_a(cases):
    """cases: (doc, spec verdict, shapes, label)"""
    from py_gql import graphql_blocking
    out = {}
    n = 0
    nexec = 0
    for doc, v, shapes, label in cases:
        n += 1
        text = valgamma.render(doc)
        wit = {"query": text, "label": label}
        try:
            per, full = c06.real_verdicts(text, list(v.keys()) + c06.UNMODELLED, c06.has_typedef(doc))
        except Exception as e:
            out.setdefault("validate/harness/%s" % type(e).__name__, ["cannot run", dict(wit, error=repr(e))])
            continue
        for r, got in per.items():
            if isinstance(got, str):
                out.setdefault("validate/%s/%s/%s" % (got.replace(":", "/"), r, label), ["validation rule raises", wit])
        if isinstance(full, str):
            out.setdefault("validate/%s/full/%s" % (full.replace(":", "/"), label), ["validate_ast raises", wit])
            continue
        if full != 0:
            continue
        # accepted by the implementation: execute every operation
        ops = [d for d in doc["defs"] if d["k"] == "op"]
        if not shapes:
            out.setdefault("sound/accepted-cyclic/%s" % label, ["accepted document has a fragment cycle", wit])
            continue
        for op, sh in zip(ops, shapes):
            if op["op"] == "subscription":
                continue  # subscriptions are executed by subscribe() (C17)
            for conc in ("Obj", "Obj2"):
                amb = ambiguous(sh[conc])
                if amb:
                    out.setdefault("sound/accepted-ambiguous-key/%s" % label,
                                   ["accepted document has a response key that two different fields answer on the runtime type", dict(wit, key=amb, runtime=conc)])
                for mode in ("all", "omit", "nulls"):
                    variables = {x["name"]: var_value(x["type"]) for x in op["vars"]
                                 if not (mode == "omit" and x["type"]["k"] != "nn")}
                    schema = exec_schema("val", conc, nulls_seed=None if mode != "nulls" else n)
                    nexec += 1
                    w = dict(wit, operation=op["name"], variables=variables, runtime=conc, mode=mode)
                    try:
                        res = graphql_blocking(schema, text, variables=variables, operation_name=op["name"] or None)
                    except Exception as e:
                        out.setdefault("sound/execute-raises/%s/%s" % (type(e).__name__, label), ["executing an accepted document raises", dict(w, error=repr(e))])
                        continue
                    # Reported (GraphQL level) errors are not internal exceptions: the property only demands the shape, with null at
                    # the positions the errors name.  They are counted: accepted variables + well-typed resolvers should not produce any.
                    if res.errors:
                        out.setdefault("note/execute-errors", ["(not judged) executing an accepted document reports errors", dict(w, errors=[str(e) for e in res.errors][:3])])
                    r = (compare if (mode != "nulls" and not res.errors) else compare_nullable)(res.data, sh[conc])
                    if r:
                        out.setdefault("sound/shape/%s" % label, ["response data does not have the shape the specification determines", dict(w, mismatch=r, data=json.loads(json.dumps(res.data, default=str)))])
    return out, n, nexec


def _worker_b(texts):
    from py_gql import graphql_blocking
    from py_gql.lang import parse
    from py_gql.validation import validate_ast
    out = {}
    n = acc = 0
    for text, label in texts:
        try:
            doc = parse(text)
        except Exception:
            continue
        n += 1
        for which in ("pool", "val"):
            schema = exec_schema(which, 0)
            try:
                res = validate_ast(schema, doc)
            except Exception as e:
                import traceback
                tb = traceback.extract_tb(e.__traceback__)
                site = next((f.name for f in reversed(tb) if "/validation/" in f.filename), tb[-1].name)
                out.setdefault("validate/raises/%s/%s/grammar" % (type(e).__name__, site), ["validate_ast raises on a parseable document", {"query": text, "schema": which, "error": repr(e), "label": label}])
                continue
            if res.errors:
                continue
            acc += 1
            from py_gql.lang import ast as _ast
            for d in doc.definitions:
                if not isinstance(d, _ast.OperationDefinition) or d.operation == "subscription":
                    continue
                try:
                    graphql_blocking(schema, doc, operation_name=d.name.value if d.name else None, variables={})
                except Exception as e:
                    out.setdefault("sound/execute-raises/%s/grammar" % type(e).__name__, ["executing an accepted document raises", {"query": text, "schema": which, "error": repr(e)}])
    return out, n, acc


def grammar_texts(chk, rng):
    q = chk.quick
    items = []
    for fv, n in ((False, 10 if q else 12),):
        items += [s["toks"] for s in corpus.skeletons(chk, "Document", False, fv, n)]
    d = 0 if q else 2
    for prefix, n in [(("query", "(", "$", "name", ":", "name"), 15 + d), (("query", "(", "$", "name", ":", "["), 14 + d), (("{", "name", "("), 11 + d),
                      (("{", "..."), 10 + d), (("{", "name", "@"), 11 + d), (("fragment", "fragname"), 11 + d)]:
        items += [s["toks"] for s in corpus.skeletons(chk, "Document", False, False, n, prefix=prefix)]
    texts = []
    reps = 2 if q else 4
    for toks in items:
        for _ in range(reps):
            text, recs = corpus.render(toks, rng, compact=True, avoid_keywords=True)
            texts.append((text, "sentence"))
    # single-token mutations (kept when they still parse: _worker_b skips the others)
    nm = len(texts) // (4 if q else 2)
    for _ in range(nm):
        toks = rng.choice(items)
        text, recs = corpus.render(toks, rng, compact=True, avoid_keywords=True)
        tk = [r["text"] for r in recs]
        op = rng.choice(["del", "dup", "swap", "rep", "ins"])
        i = rng.randrange(len(tk))
        if op == "del":
            del tk[i]
        elif op == "dup":
            tk.insert(i, tk[i])
        elif op == "swap" and len(tk) > 1:
            j = rng.randrange(len(tk))
            tk[i], tk[j] = tk[j], tk[i]
        elif op == "rep":
            tk[i] = rng.choice(ALPHA)
        else:
            tk.insert(i, rng.choice(ALPHA))
        texts.append((" ".join(tk), "mutation:" + op))
    return texts


def run(chk):
    rng = random.Random(chk.seed)
    nd, nb = (1500, 40) if chk.quick else (12000, 300)
    docs = [valgamma.gen_doc(rng) for _ in range(nd)]
    jv = c06.judge(chk, docs, "GqlValidate random documents", shapes=True)
    cases = [(d, v, sh, "random") for d, (v, sh) in zip(docs, jv)]
    base = [d for d, (v, sh) in zip(docs, jv) if all(v.values())][:nb]
    inj = [(valgamma.inject(d, lab, rng), lab) for d in base for lab in valgamma.INJECTIONS]
    iv = c06.judge(chk, [d for d, _ in inj], "GqlValidate injections", shapes=True)
    cases += [(d, v, sh, lab) for (d, lab), (v, sh) in zip(inj, iv)]
    # metamorphic variants are further adversarial inputs for crash-freedom and soundness
    var = [(valgamma.permute(d, rng), lab) for d, v, sh, lab in cases[::3]]
    vv = c06.judge(chk, [d for d, _ in var], "GqlValidate permuted variants", shapes=True)
    cases += [(d, v, sh, lab + "+permuted") for (d, lab), (v, sh) in zip(var, vv)]
    en = c06.enumerated(chk, rng)
    chk.count("documents enumerated by TLC (GqlValidateGen)", len(en))
    cases += [(d, v, sh, "enumerated") for d, v, sh in en]
    chk.count("abstract documents judged by TLC", len(cases))
    div = {}
    nexec = 0
    for out, n, ne in par.pmap(_worker_a, cases):
        chk.traces += n
        nexec += ne
        for k, v in out.items():
            div.setdefault(k, v)
    chk.count("executions of accepted abstract documents", nexec)
    if nexec < len(cases) // 10:
        from harness.core import Machinery
        raise Machinery("vacuous: only %d executions for %d documents" % (nexec, len(cases)))
    termination_probe(chk)
    texts = grammar_texts(chk, rng)
    chk.count("concrete documents from the grammar (incl. mutations)", len(texts))
    nacc = npars = 0
    for out, n, acc in par.pmap(_worker_b, texts):
        chk.traces += n
        npars += n
        nacc += acc
        for k, v in out.items():
            div.setdefault(k, v)
    chk.count("grammar documents parsed", npars)
    chk.count("grammar documents accepted by validation and executed", nacc)
    for k, (what, wit) in div.items():
        if k.startswith("note/"):
            chk.count(k, 1)
            chk.sample({"note": what, "witness": wit})
            continue
        chk.diverge(k, wit, what)
    d0 = cases[len(cases) // 2]
    chk.sample({"query": valgamma.render(d0[0]), "label": d0[3], "shapes": d0[2]})
    chk.assumptions += ["resolvers return values of the declared types (abstract fields: one fixed concrete type per run, both tried); variables: all supplied / nullable ones omitted",
                        "stage B judges crash-freedom only (validation and execution); the data shape is judged in stage A where TLC has the abstract document",
                        "schemas: the GqlValidate prototype schema and a schema built over the grammar corpus' identifier pool"]
    return chk.finish(rule="abstract documents judged and shaped by TLC, executed when the implementation accepts them; grammar sentences and mutations validated on two schemas")


def layered_fragments(levels):
    """A valid document whose fragments form a DAG with 2^levels spread paths: both fragments of a level spread both of the next."""
    parts = ["{ o { ...L0a ...L0b } os { o { ...N0a ...N0b } } }"]
    for i in range(levels):
        last = i + 1 == levels
        # spreads written directly in the fragment (L) and below a field (N)
        parts.append("fragment L%da on Obj { a %s }" % (i, "" if last else "...L%da ...L%db" % (i + 1, i + 1)))
        parts.append("fragment L%db on Obj { s %s }" % (i, "" if last else "...L%da ...L%db" % (i + 1, i + 1)))
        parts.append("fragment N%da on Obj { a o { %s } }" % (i, "a" if last else "...N%da ...N%db" % (i + 1, i + 1)))
        parts.append("fragment N%db on Obj { s o { %s } }" % (i, "a" if last else "...N%da ...N%db" % (i + 1, i + 1)))
    return "\n".join(parts)


def _validate_text(text):
    from py_gql import build_schema
    from py_gql.lang import parse
    from py_gql.validation import validate_ast
    return [str(e) for e in validate_ast(build_schema(valgamma.SDL), parse(text)).errors]


def termination_probe(chk):
    """Validation terminates: documents that are small but reach their fragments along exponentially many paths are validated
    within a generous budget (the unchanged tree needs well under a second)."""
    import multiprocessing as mp
    for levels in (18, 26):
        text = layered_fragments(levels)
        ctx = mp.get_context("fork")
        with ctx.Pool(1) as pool:
            r = pool.apply_async(_validate_text, (text,))
            try:
                errs = r.get(timeout=120)
            except mp.TimeoutError:
                chk.diverge("validate/does-not-terminate/fragment-dag", {"levels": levels, "definitions": 4 * levels + 1, "budget_s": 120, "text": text[:400]},
                            "validation of a %d-definition document does not finish within 120 s" % (4 * levels + 1))
                pool.terminate()
                return
            except Exception as e:
                chk.diverge("validate/raises/%s/fragment-dag" % type(e).__name__, {"levels": levels, "error": repr(e)[:300]}, "validation raises")
                return
        chk.traces += 1
        if errs:
            chk.diverge("validate/false-error/fragment-dag", {"levels": levels, "errors": errs[:3]}, "a valid document is rejected")


def replay_cmd(path):
    print(json.dumps(json.load(open(path)), indent=1)[:3000])
    return 0
