"""C07 - Resolvers only receive arguments that conform to the declared input types.

spec/GqlCoerce.tla is the reference: Coerce(type, value) for every argument type of wrapper depth <= Depth over Int, String,
enum E (internal values) and the recursive input object In (defaults, python names), every value of the family (null, the
32-bit boundary atoms, strings, lists, objects over every key incl. an unknown one, wrong kinds) and every route (inline
literal, variable, variable default, omitted, variable inside an object literal, null variable into a non-null argument).
TLC checks the Laws invariant on the reference and prints the expected kwargs; each case is replayed through a real query
against a recording resolver (the observation point the property names) and - for the variable route - through coerce_value."""
import json

from harness import par, tlc

ATOMS = {"MININT-1": -2147483649, "MININT": -2147483648, "0": 0, "MAXINT": 2147483647, "MAXINT+1": 2147483648, "3": 3, "1": 1, "2": 2,
         # the JSON number 1e999 (syntactically valid JSON; json.loads gives float("inf")) / the literal 1e999
         "HUGE": float("inf")}
ABSENT = "<absent>"


def tname(t):
    if t["k"] == "named":
        return t["n"]
    return ("L_%s" if t["k"] == "list" else "N_%s") % tname(t["of"])


def tsdl(t):
    if t["k"] == "named":
        return {"Str": "String"}.get(t["n"], t["n"])
    return ("[%s]" if t["k"] == "list" else "%s!") % tsdl(t["of"])


def tshape(t):
    return tsdl(t)


def unwrap(t):
    while t["k"] != "named":
        t = t["of"]
    return t["n"]


IN_FIELDS = {"x": {"k": "named", "n": "Int"}, "y": {"k": "nn", "of": {"k": "named", "n": "Int"}}, "e": {"k": "named", "n": "E"},
             "z": {"k": "named", "n": "In"}, "l": {"k": "list", "of": {"k": "nn", "of": {"k": "named", "n": "In"}}}}


def to_json(v):
    k = v["k"]
    if k == "null":
        return None
    if k == "int":
        return ATOMS[v["v"]]
    if k == "str":
        return v["v"]
    if k == "list":
        return [to_json(x) for x in v["vs"]]
    if k == "obj":
        return {f["key"]: to_json(f["val"]) for f in v["fs"]}
    raise ValueError(k)


def to_literal(t, v):
    """Type-directed rendering: a string in an enum position is written as an enum name."""
    k = v["k"]
    if k == "null":
        return "null"
    if k == "int":
        return "1e999" if v["v"] == "HUGE" else str(ATOMS[v["v"]])
    if k == "str":
        base = None
        tt = t
        while tt is not None and tt["k"] != "named":
            tt = tt["of"]
        base = tt["n"] if tt else None
        return v["v"] if base == "E" else json.dumps(v["v"])
    if k == "list":
        inner = t
        if inner is not None and inner["k"] == "nn":
            inner = inner["of"]
        inner = inner["of"] if inner is not None and inner["k"] == "list" else inner
        return "[%s]" % ", ".join(to_literal(inner, x) for x in v["vs"])
    if k == "obj":
        return "{%s}" % ", ".join("%s: %s" % (f["key"], to_literal(IN_FIELDS.get(f["key"]), f["val"])) for f in v["fs"])
    raise ValueError(k)


def expected_py(v):
    k = v["k"]
    if k == "null":
        return None
    if k == "int":
        return ATOMS[v["v"]]
    if k == "str":
        return v["v"]
    if k == "enumv":
        return {"e1": 1, "eb": "b"}[v["v"]]
    if k == "list":
        return [expected_py(x) for x in v["vs"]]
    if k == "dict":
        return {f["key"]: expected_py(f["val"]) for f in v["fs"]}
    if k == "absent":
        return ABSENT
    raise ValueError(k)


def vshape(v):
    k = v["k"]
    if k == "int":
        return "int:" + v["v"]
    if k == "str":
        return "str:" + v["v"]
    if k == "list":
        return "[%s]" % ",".join(vshape(x) for x in v["vs"])
    if k == "obj":
        return "{%s}" % ",".join("%s=%s" % (f["key"], vshape(f["val"])) for f in v["fs"])
    return k


def build_schema(types):
    from py_gql.schema import (Argument, EnumType, EnumValue, Field, InputField, InputObjectType, Int, ListType, NonNullType,
                               ObjectType, Schema, String)
    E = EnumType("E", [EnumValue("A", value=1), EnumValue("B", value="b")])
    reg = {}

    def infields():
        In = reg["In"]
        return [InputField("x", Int, default_value=3, python_name="px"), InputField("y", NonNullType(Int), python_name="py"),
                InputField("e", E, default_value=1, python_name="pe"), InputField("z", In, python_name="pz"),
                InputField("l", ListType(NonNullType(In)), python_name="pl"), InputField("d", Int, default_value=None, python_name="pd")]
    reg["In"] = InputObjectType("In", infields)
    base = {"Int": Int, "Str": String, "E": E, "In": reg["In"]}

    def real(t):
        if t["k"] == "named":
            return base[t["n"]]
        return (ListType if t["k"] == "list" else NonNullType)(real(t["of"]))
    calls = []

    def make(name):
        def res(root, ctx, info, **kw):
            calls.append((name, kw))
            return 1
        return res
    fields = []
    for t in types:
        n = "f_" + tname(t)
        fields.append(Field(n, Int, [Argument("arg", real(t))], resolver=make(n)))
    fields.append(Field("g", Int, [Argument("arg", NonNullType(Int), default_value=3)], resolver=make("g")))
    fields.append(Field("g2", Int, [Argument("arg", Int, default_value=3)], resolver=make("g2")))
    from py_gql.schema import InterfaceType
    I = InterfaceType("I", [Field("x", Int, [Argument("arg", Int, default_value=0)])], resolve_type=lambda v, c, i: v["t"])
    T1 = ObjectType("T1", [Field("x", Int, [Argument("arg", Int, default_value=1)], resolver=make("x"))], interfaces=[I])
    T2 = ObjectType("T2", [Field("x", Int, [Argument("arg", Int, default_value=2)], resolver=make("x"))], interfaces=[I])
    fields.append(Field("items", ListType(I), resolver=lambda r, c, i: [{"t": "T1"}, {"t": "T2"}, {"t": "T1"}]))
    return Schema(ObjectType("Query", fields), types=[T1, T2]), calls, real


def _worker(cases):
    from py_gql import graphql_blocking
    from py_gql.exc import CoercionError
    from py_gql.utilities import coerce_value
    types = {}
    for c in cases:
        types[tname(c["ty"])] = c["ty"]
    schema, calls, real = build_schema(list(types.values()))
    out = {}
    n = 0
    dontcare = 0
    for c in cases:
        t, v, route, r = c["ty"], c["val"], c["route"], c["r"]
        f = "f_" + tname(t)
        variables = None
        if route == "literal":
            q = "{ %s(arg: %s) }" % (f, to_literal(t, v))
        elif route == "variable":
            q = "query ($v: %s) { %s(arg: $v) }" % (tsdl(t), f)
            variables = {"v": to_json(v)}
        elif route == "vardefault":
            q = "query ($v: %s = %s) { %s(arg: $v) }" % (tsdl(t), to_literal(t, v), f)
        elif route == "omitted":
            q = "{ %s }" % f
        elif route == "objvar-given":
            q = "query ($w: Int) { %s(arg: {y: 0, x: $w}) }" % f
            variables = {"w": to_json(v)}
        elif route == "objvar-absent":
            q = "query ($w: Int) { %s(arg: {y: 0, x: $w}) }" % f
        elif route == "listvar-given":
            q = "query ($w: Int) { %s(arg: [0, $w]) }" % f
            variables = {"w": to_json(v)}
        elif route == "listvar-absent":
            q = "query ($w: Int) { %s(arg: [0, $w]) }" % f
        elif route == "argdef-nullvar":
            q = "query ($v: Int) { g2(arg: $v) }"
            variables = {"v": None}
        elif route == "argdef-novar":
            q = "query ($v: Int) { g2(arg: $v) }"
        elif route == "pertype":
            q = "{ items { x } }"
        else:
            q = "query ($v: Int) { g(arg: $v) }"
            variables = {"v": None}
        del calls[:]
        n += 1
        wit = {"query": q, "variables": variables, "type": tsdl(t), "route": route, "expected": r}
        try:
            res = graphql_blocking(schema, q, variables=variables)
        except Exception as e:
            out.setdefault("coerce/%s/raises/%s/%s" % (route, type(e).__name__, unwrap(t)), ["request raises", dict(wit, error=repr(e))])
            continue
        ran = len(calls) > 0
        if r["v"]["k"] == "dontcare":
            dontcare += 1
            continue
        if not r["ok"]:
            if ran:
                got = calls[0][1].get("arg", ABSENT)
                kind = "null-in-non-null" if (got is None and t["k"] == "nn") else "accepted-invalid"
                out.setdefault("coerce/%s/%s/%s/%s" % (route, kind, tshape(t), vshape(v)), ["resolver ran with a value that must be rejected", dict(wit, got=repr(got))])
            elif not res.errors:
                out.setdefault("coerce/%s/rejected-silently/%s" % (route, tshape(t)), ["no resolver call and no error", wit])
            continue
        exp = expected_py(r["v"])
        if not ran:
            out.setdefault("coerce/%s/rejected-valid/%s/%s" % (route, tshape(t), vshape(v)),
                           ["valid input rejected before the resolver", dict(wit, errors=[str(e) for e in res.errors][:2])])
            continue
        got = calls[0][1].get("arg", ABSENT) if route != "pertype" else [c_[1].get("arg", ABSENT) for c_ in calls]
        if got != exp or (isinstance(got, bool) != isinstance(exp, bool)):
            out.setdefault("coerce/%s/wrong-value/%s/%s" % (route, tshape(t), vshape(v)), ["resolver received a non-conforming value", dict(wit, got=repr(got), want=repr(exp))])
        # direct call of coerce_value for JSON inputs
        if route == "variable":
            n += 1
            try:
                direct = coerce_value(to_json(v), real(t))
                if direct != exp:
                    out.setdefault("coerce/direct/wrong-value/%s/%s" % (tshape(t), vshape(v)), ["coerce_value returns a non-conforming value", dict(wit, got=repr(direct))])
            except CoercionError as e:
                out.setdefault("coerce/direct/rejected-valid/%s/%s" % (tshape(t), vshape(v)), ["coerce_value rejects valid input", dict(wit, error=str(e))])
            except Exception as e:
                out.setdefault("coerce/direct/raises/%s/%s" % (type(e).__name__, tshape(t)), ["coerce_value raises", dict(wit, error=repr(e))])
    return out, n, dontcare


def run(chk):
    depth = 2 if chk.quick else 4
    cfg = tlc.cfg(constants={"Depth": depth}, invariants=["Out", "Laws"])
    r = chk.tlc("GqlCoerce", cfg, tags=["COE"], label="GqlCoerce depth<=%d" % depth)
    if r.rc != 0:
        raise tlc.TLCError("GqlCoerce law violated: %s\n%s" % (r.violated, r.tail))
    cases = r.tagged("COE")
    chk.count("cases", len(cases))
    dc = 0
    for out, n, d in par.pmap(_worker, cases):
        chk.traces += n
        dc += d
        for k, (what, wit) in out.items():
            chk.diverge(k, wit, what)
    chk.count("not judged (scalar leniency)", dc)
    c = cases[len(cases) // 3]
    chk.sample({"type": tsdl(c["ty"]), "route": c["route"], "value": c["val"], "expected": c["r"]})
    chk.assumptions += ["scalar-to-scalar leniency (e.g. a string for Int) is reported but not judged (DESIGN Appendix B.9)"]
    return chk.finish(rule="argument types (wrapper depth <= %d over Int/String/E/In) x value family x routes, exhaustive" % depth)


def replay_cmd(path):
    print(json.dumps(json.load(open(path)), indent=1)[:3000])
    return 0
