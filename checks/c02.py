"""C02 - Parsed trees mirror the source: structure, decoded values and spans.

Rides on the C01 corpus (same TLC behaviours, same replays); reports the divergences attributed to C02:
token spans / decoded values (lexer stage), tree shape = derivation, node spans = first..last token,
decoded literal values, span text re-parses to an equal node, fixtures' trees judged by GqlGrammarTrace."""
from checks import c01


def run(chk):
    return c01.run(chk, props=("C02",))


replay = c01.replay
